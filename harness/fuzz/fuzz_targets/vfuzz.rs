//! One libFuzzer target for every group of every property: the input is the tape of the group
//! selected through VERIF_FUZZ_PROP / VERIF_FUZZ_GROUP (see hsrc/fuzz.rs).
#![no_main]
use libfuzzer_sys::fuzz_target;

#[global_allocator]
static GLOBAL: rpgp_verif::engine::alloc::Counting = rpgp_verif::engine::alloc::Counting;

fuzz_target!(|data: &[u8]| {
    rpgp_verif::fuzz::one(data);
});
