//! Helpers over rPGP's Packet enum.
use pgp::packet::{Packet, PacketTrait};
use pgp::ser::Serialize;

/// body-only serialization of a packet (no header), and its announced body length
pub fn packet_body(p: &Packet) -> pgp::errors::Result<(Vec<u8>, usize)> {
    macro_rules! body {
        ($x:expr) => {{
            let mut v = Vec::new();
            Serialize::to_writer($x, &mut v)?;
            Ok((v, Serialize::write_len($x)))
        }};
    }
    match p {
        Packet::CompressedData(x) => body!(x),
        Packet::PublicKey(x) => body!(x),
        Packet::PublicSubkey(x) => body!(x),
        Packet::SecretKey(x) => body!(x),
        Packet::SecretSubkey(x) => body!(x),
        Packet::LiteralData(x) => body!(x),
        Packet::Marker(x) => body!(x),
        Packet::ModDetectionCode(x) => body!(x),
        Packet::OnePassSignature(x) => body!(x),
        Packet::PublicKeyEncryptedSessionKey(x) => body!(x),
        Packet::Signature(x) => body!(x),
        Packet::SymEncryptedData(x) => body!(x),
        Packet::SymEncryptedProtectedData(x) => body!(x),
        Packet::SymKeyEncryptedSessionKey(x) => body!(x),
        Packet::Trust(x) => body!(x),
        Packet::UserAttribute(x) => body!(x),
        Packet::UserId(x) => body!(x),
        Packet::Padding(x) => body!(x),
        Packet::GnupgAeadData(x) => body!(x),
    }
}

/// (bytes written by to_writer_with_header, write_len_with_header())
pub fn packet_with_header(p: &Packet) -> pgp::errors::Result<(Vec<u8>, usize)> {
    let mut v = Vec::new();
    PacketTrait::to_writer_with_header(p, &mut v)?;
    Ok((v, PacketTrait::write_len_with_header(p)))
}

pub fn tag_of(p: &Packet) -> u8 {
    u8::from(PacketTrait::tag(p))
}
