//! C19 — work and memory are bounded by the input actually supplied.
//!
//! Every case runs in a worker process (engine: group_isolated) under the counting allocator, which
//! refuses single requests above 1 GiB, so "allocates the declared size" shows either as a measured
//! peak / largest request above the bound or as a failed allocation attributed to the case.
//! Time is never used as a signal: the work proxies are bytes allocated in total and the number of
//! allocations, both deterministic.

use std::io::{self, Read, Write};

use pgp::armor::Dearmor;
use pgp::composed::{CleartextSignedMessage, DecryptionOptions, Deserializable, DetachedSignature, Message, SignedPublicKey, SignedSecretKey, TheRing};
use pgp::crypto::aead::AeadAlgorithm;
use pgp::crypto::hash::HashAlgorithm;
use pgp::crypto::sym::SymmetricKeyAlgorithm;
use pgp::packet::PacketParser;
use pgp::ser::Serialize;
use pgp::types::{CompressionAlgorithm, Seipdv1ReadMode, StringToKey};

use crate::engine::alloc::{self, Stats};
use crate::engine::{expand, CaseResult, Ctx, Rec, Source, Tape, Tier};
use crate::ensure_prop;
use crate::msg::{Enc, MsgConfig};
use crate::refimpl::gen;
use crate::refimpl::wire;
use crate::zoo::{self, Kind};

const KIB: u64 = 1024;
const MIB: u64 = 1024 * 1024;

fn measure<T>(f: impl FnOnce() -> T) -> (T, Stats) {
    alloc::reset();
    let r = f();
    (r, alloc::stats())
}

fn bucket(v: u64) -> &'static str {
    match v {
        0..=4095 => "<4K",
        4096..=32767 => "<32K",
        32768..=262143 => "<256K",
        262144..=1048575 => "<1M",
        1048576..=8388607 => "<8M",
        _ => ">=8M",
    }
}

fn drain<R: Read>(r: &mut R, cap: u64) -> (u64, bool) {
    let mut buf = [0u8; 16 * 1024];
    let mut total = 0u64;
    loop {
        match r.read(&mut buf) {
            Ok(0) => return (total, true),
            Err(_) => return (total, false),
            Ok(n) => {
                total += n as u64;
                if total > cap {
                    return (total, true);
                }
            }
        }
    }
}

#[derive(Clone, Copy, Debug, PartialEq, Eq, Hash)]
enum Entry {
    Packets,
    PublicKeys,
    SecretKeys,
    Signatures,
    Message,
    Dearmor,
    ArmoredKey,
    ArmoredMessage,
    Cleartext,
}

/// Run one parsing entry point over `bytes`, dropping everything it returns. Returns the number of
/// objects / bytes it produced (only used for labels).
fn run_entry(e: Entry, bytes: &[u8]) -> u64 {
    match e {
        Entry::Packets => {
            let mut n = 0;
            for p in PacketParser::new(bytes) {
                n += 1;
                drop(p);
                if n > 2_000_000 {
                    break;
                }
            }
            n
        }
        Entry::PublicKeys => match SignedPublicKey::from_bytes_many(bytes) {
            Ok(it) => it.take(100_000).filter(|k| k.is_ok()).count() as u64,
            Err(_) => 0,
        },
        Entry::SecretKeys => match SignedSecretKey::from_bytes_many(bytes) {
            Ok(it) => it.take(100_000).filter(|k| k.is_ok()).count() as u64,
            Err(_) => 0,
        },
        Entry::Signatures => match DetachedSignature::from_bytes_many(bytes) {
            Ok(it) => it.take(100_000).filter(|k| k.is_ok()).count() as u64,
            Err(_) => 0,
        },
        Entry::Message => {
            let Ok(mut m) = Message::from_bytes(bytes) else { return 0 };
            let mut depth = 0;
            while m.is_compressed() && depth < 64 {
                m = match m.decompress() {
                    Ok(m) => m,
                    Err(_) => return 0,
                };
                depth += 1;
            }
            drain(&mut m, 1 << 30).0
        }
        Entry::Dearmor => {
            let mut d = Dearmor::new(bytes);
            drain(&mut d, 1 << 30).0
        }
        Entry::ArmoredKey => match SignedPublicKey::from_armor_many(bytes) {
            Ok((it, _)) => it.take(100_000).filter(|k| k.is_ok()).count() as u64,
            Err(_) => 0,
        },
        Entry::ArmoredMessage => {
            let Ok((mut m, _)) = Message::from_armor(bytes) else { return 0 };
            drain(&mut m, 1 << 30).0
        }
        Entry::Cleartext => {
            let Ok(s) = std::str::from_utf8(bytes) else { return 0 };
            match CleartextSignedMessage::from_string(s) {
                Ok((m, _)) => m.signed_text().len() as u64,
                Err(_) => 0,
            }
        }
    }
}

fn entries_for_tag(tag: u8) -> &'static [Entry] {
    match tag {
        2 => &[Entry::Packets, Entry::Signatures, Entry::Message],
        5 | 7 => &[Entry::Packets, Entry::SecretKeys],
        6 | 14 | 13 | 17 => &[Entry::Packets, Entry::PublicKeys],
        1 | 3 | 4 | 8 | 9 | 11 | 18 | 20 => &[Entry::Packets, Entry::Message],
        _ => &[Entry::Packets],
    }
}

// ---------------------------------------------------------------------------------------------
// (a) declared-but-absent sizes
// ---------------------------------------------------------------------------------------------

/// The memory an entry point may use for an input of `n` bytes: a constant plus a multiple of what
/// was supplied. The constant covers rPGP's fixed stream buffers and, for compressed data, the
/// decoder state of the compression library (bzip2: up to ~3.7 MiB for level 9, chosen by the
/// stream header, independent of any OpenPGP length field).
fn peak_bound(n: usize, compressed: bool) -> u64 {
    let c = if compressed { 6 * MIB } else { 192 * KIB };
    c + 8 * n as u64
}

fn largest_bound(n: usize, compressed: bool) -> u64 {
    let c = if compressed { 4 * MIB } else { 96 * KIB };
    c + 4 * n as u64
}

fn check_bounded(rec: &mut Rec, what: &str, e: Entry, input: &[u8], compressed: bool) -> CaseResult {
    rec.checkpoint(&format!("{e:?}"));
    let (_, st) = measure(|| run_entry(e, input));
    rec.label(format!("peak{}", bucket(st.peak)));
    let n = input.len();
    ensure_prop!(
        st.peak <= peak_bound(n, compressed),
        format!("C19:memory-exceeds-supplied@{e:?}"),
        "{what}: {e:?} over {n} supplied bytes had a peak of {} live bytes (bound {}), largest single request {}",
        st.peak,
        peak_bound(n, compressed),
        st.largest
    );
    ensure_prop!(
        st.largest <= largest_bound(n, compressed),
        format!("C19:memory-exceeds-supplied@{e:?}"),
        "{what}: {e:?} over {n} supplied bytes made a single allocation request of {} bytes (bound {})",
        st.largest,
        largest_bound(n, compressed)
    );
    // work proxy: total bytes allocated must stay proportional to the input as well
    let total_bound = if compressed { 16 * MIB } else { 2 * MIB } + 64 * n as u64;
    ensure_prop!(st.total <= total_bound, format!("C19:work-exceeds-supplied@{e:?}"), "{what}: {e:?} over {n} supplied bytes allocated {} bytes in total in {} requests (bound {total_bound})", st.total, st.count);
    Ok(())
}

const DECLARED: [u64; 7] = [1 << 16, 1 << 20, 1 << 24, 1 << 28, 1 << 31, (1 << 32) - 1, 0x7fff_ffff];

/// overwrite `width` octets at `pos` with the big-endian low octets of `val` (5 = 0xFF + four octets)
fn saturate(body: &mut Vec<u8>, pos: usize, width: usize, val: u64) -> bool {
    let enc: Vec<u8> = match width {
        1 => vec![val.min(0xff) as u8],
        2 => (val.min(0xffff) as u16).to_be_bytes().to_vec(),
        4 => (val.min(0xffff_ffff) as u32).to_be_bytes().to_vec(),
        5 => {
            let mut v = vec![0xff];
            v.extend_from_slice(&(val.min(0xffff_ffff) as u32).to_be_bytes());
            v
        }
        _ => return false,
    };
    if pos + enc.len() > body.len() {
        // extend: the field is the last thing supplied
        body.truncate(pos);
        body.extend_from_slice(&enc);
        return true;
    }
    body[pos..pos + enc.len()].copy_from_slice(&enc);
    true
}

#[derive(Clone, Copy, Debug, PartialEq, Eq, Hash)]
enum Tail {
    Keep,
    Cut,
    Filler(usize),
    KeepFiller(usize),
}

fn apply_tail(body: &mut Vec<u8>, field_end: usize, tail: Tail, seed: u64) {
    match tail {
        Tail::Keep => {}
        Tail::Cut => body.truncate(field_end.min(body.len())),
        Tail::Filler(n) => {
            body.truncate(field_end.min(body.len()));
            body.extend_from_slice(&expand(seed, n));
        }
        Tail::KeepFiller(n) => body.extend_from_slice(&expand(seed, n)),
    }
}

#[derive(Clone, Copy, Debug, PartialEq, Eq, Hash)]
enum Framing {
    Accurate,
    /// new format, five-octet length declaring `DECLARED[i]`, body as supplied
    NewHuge(usize),
    /// legacy format, four-octet length
    OldHuge(usize),
    /// partial body: first chunk declares 2^30, data ends early
    PartialHuge,
    /// partial body: a genuine first chunk of 512 octets, then a continuation header declaring
    /// 2^(16 + 2i) octets (i = 0..7) over the short rest
    PartialThenHuge(usize),
    /// partial body: a genuine first chunk of 512 octets, then a five-octet final length declaring
    /// `DECLARED[i]` over the short rest
    PartialThenFinalHuge(usize),
}

fn frame(tag: u8, body: &[u8], f: Framing) -> Vec<u8> {
    match f {
        Framing::Accurate => wire::new_packet(tag, body),
        Framing::NewHuge(i) => {
            let mut v = vec![0xC0 | tag, 0xff];
            v.extend_from_slice(&((DECLARED[i] as u32).max(body.len() as u32)).to_be_bytes());
            v.extend_from_slice(body);
            v
        }
        Framing::OldHuge(i) => {
            if tag > 15 {
                return frame(tag, body, Framing::NewHuge(i));
            }
            let mut v = vec![0x80 | (tag << 2) | 2];
            v.extend_from_slice(&((DECLARED[i] as u32).max(body.len() as u32)).to_be_bytes());
            v.extend_from_slice(body);
            v
        }
        Framing::PartialHuge => {
            let mut v = vec![0xC0 | tag, 224 + 30];
            v.extend_from_slice(body);
            v
        }
        Framing::PartialThenHuge(_) | Framing::PartialThenFinalHuge(_) => {
            // partial lengths are for data packets; the first chunk must carry 512 real octets
            if !matches!(tag, 8 | 9 | 11 | 18 | 20) {
                return frame(tag, body, Framing::Accurate);
            }
            let mut b = body.to_vec();
            if b.len() < 600 {
                b.resize(600, 0x41);
            }
            let mut v = vec![0xC0 | tag, 224 + 9];
            v.extend_from_slice(&b[..512]);
            match f {
                Framing::PartialThenHuge(i) => v.push(224 + (16 + 2 * (i as u8 % 8)).min(30)),
                Framing::PartialThenFinalHuge(i) => {
                    v.push(0xff);
                    v.extend_from_slice(&(DECLARED[i % DECLARED.len()] as u32).to_be_bytes());
                }
                _ => {}
            }
            v.extend_from_slice(&b[512..]);
            v
        }
    }
}

struct Base {
    tag: u8,
    body: Vec<u8>,
    what: String,
}

fn zoo_packets(kind: Kind, locked: bool) -> Vec<Base> {
    let z = zoo::get(kind);
    let bytes = if locked { z.locked.to_bytes() } else { z.secret.to_bytes() }.expect("zoo key serializes");
    let mut out = vec![];
    for p in wire::split_packets(&bytes).expect("zoo key de-frames") {
        out.push(Base { tag: p.tag, body: p.body.clone(), what: format!("{kind:?}{} packet tag {}", if locked { " (locked)" } else { "" }, p.tag) });
    }
    out
}

fn drawn_base(t: &mut Tape) -> Base {
    match t.below(10) {
        0 | 1 => {
            let g = gen::gen_signature(t);
            Base { tag: g.tag, body: g.body, what: g.what }
        }
        2 => {
            let g = gen::gen_skesk(t);
            Base { tag: g.tag, body: g.body, what: g.what }
        }
        3 => {
            let g = gen::gen_pkesk(t);
            Base { tag: g.tag, body: g.body, what: g.what }
        }
        4 => {
            let g = gen::gen_ops(t);
            Base { tag: g.tag, body: g.body, what: g.what }
        }
        5 | 6 => {
            let g = gen::gen_simple(t);
            Base { tag: g.tag, body: g.body, what: g.what }
        }
        7 => {
            let version = *t.pick(&[3u8, 4, 6, 6]);
            let alg = *t.pick(&[1u8, 16, 17, 18, 19, 22, 25, 26, 27, 28, 99, 100, 110]);
            let params = gen::fake_public_params(t, alg);
            let tag = *t.pick(&[6u8, 14]);
            Base { tag, body: gen::public_key_body(version, 1_600_000_000, alg, &params), what: format!("v{version} public key packet, algorithm {alg}") }
        }
        _ => {
            let kinds = [Kind::Ed25519V4, Kind::Ed25519V6, Kind::RsaV4, Kind::P256V4];
            let kind = *t.pick(&kinds);
            let mut v = zoo_packets(kind, t.bool());
            let i = t.below(v.len());
            v.swap_remove(i)
        }
    }
}

fn declared_case_inner(rec: &mut Rec, base: &Base, pos: usize, width: usize, val: u64, tail: Tail, framing: Framing, seed: u64) -> CaseResult {
    let mut body = base.body.clone();
    saturate(&mut body, pos, width, val);
    let field_end = pos + width;
    apply_tail(&mut body, field_end, tail, seed);
    let input = frame(base.tag, &body, framing);
    let what = format!("{} ({} body bytes): {width}-octet field at body offset {pos} set to {val:#x}, tail {tail:?}, framing {framing:?}", base.what, base.body.len());
    rec.describe(|| what.clone());
    let compressed = base.tag == 8;
    for e in entries_for_tag(base.tag) {
        // compressed data is only decoded by the message reader
        check_bounded(rec, &what, *e, &input, compressed && *e == Entry::Message)?;
    }
    Ok(())
}

fn declared_random_case(t: &mut Tape, rec: &mut Rec) -> CaseResult {
    let base = drawn_base(t);
    let blen = base.body.len().max(1);
    // fields live near the start of a body far more often than in bulk data
    let pos = if t.chance(170) { t.below(blen.min(48)) } else { t.below(blen) };
    let width = *t.pick(&[1usize, 2, 2, 4, 4, 5]);
    let val = *t.pick(&DECLARED);
    let tail = match t.below(6) {
        0 => Tail::Keep,
        1 => Tail::Cut,
        2 => Tail::Filler(*t.pick(&[100usize, 600, 1100])),
        3 => Tail::Filler(*t.pick(&[1500usize, 5000, 40_000])),
        4 => Tail::KeepFiller(*t.pick(&[1500usize, 5000])),
        _ => Tail::Filler(*t.pick(&[2000usize, 9000, 70_000])),
    };
    let framing = match t.below(10) {
        0 => Framing::NewHuge(t.below(DECLARED.len())),
        1 => Framing::OldHuge(t.below(DECLARED.len())),
        2 => Framing::PartialHuge,
        3 => Framing::PartialThenHuge(t.below(8)),
        4 => Framing::PartialThenFinalHuge(t.below(DECLARED.len())),
        _ => Framing::Accurate,
    };
    rec.label(format!("tag{}", base.tag));
    rec.label(format!("width{width}"));
    rec.label(format!("{}", match tail { Tail::Keep => "tail:keep", Tail::Cut => "tail:cut", Tail::Filler(n) if n > 1024 => "tail:filler>1024", Tail::Filler(_) => "tail:filler<=1024", Tail::KeepFiller(_) => "tail:keep+filler" }));
    rec.label(format!("{}", match framing { Framing::Accurate => "framing:accurate", Framing::NewHuge(_) => "framing:new-huge", Framing::OldHuge(_) => "framing:old-huge", Framing::PartialHuge => "framing:partial-huge", Framing::PartialThenHuge(_) => "framing:partial-continuation-huge", Framing::PartialThenFinalHuge(_) => "framing:partial-final-huge" }));
    rec.nontrivial((base.tag, base.body.clone(), pos, width, val, tail, framing));
    declared_case_inner(rec, &base, pos, width, val, tail, framing, t.u64())
}

/// fixed small artifacts, one or more per packet type / version, for the exhaustive sweep
fn sweep_bases() -> Vec<Base> {
    let mut v: Vec<Base> = vec![];
    let push_gen = |v: &mut Vec<Base>, g: gen::Gen| {
        if g.body.len() <= 400 {
            v.push(Base { tag: g.tag, body: g.body, what: g.what });
        }
    };
    for k in 0..24u64 {
        let tape = expand(0xC19_0000 + k, 900);
        let mut t = Tape::new(&tape);
        let g = match k % 6 {
            0 | 1 => gen::gen_signature(&mut t),
            2 => gen::gen_skesk(&mut t),
            3 => gen::gen_pkesk(&mut t),
            4 => gen::gen_ops(&mut t),
            _ => gen::gen_simple(&mut t),
        };
        push_gen(&mut v, g);
    }
    // every simple packet type at least once
    for k in 0..40u64 {
        let tape = expand(0xC19_1000 + k, 900);
        let mut t = Tape::new(&tape);
        let g = gen::gen_simple(&mut t);
        if !v.iter().any(|b| b.tag == g.tag && b.body.len() <= g.body.len()) {
            push_gen(&mut v, g);
        }
    }
    for (version, alg) in [(4u8, 1u8), (4, 22), (6, 27), (6, 25), (6, 99), (4, 100), (3, 1)] {
        let tape = expand(0xC19_2000 + alg as u64, 900);
        let mut t = Tape::new(&tape);
        let params = if alg == 1 { [wire::mpi(&[0x80; 64]), wire::mpi(&[1, 0, 1])].concat() } else { gen::fake_public_params(&mut t, alg) };
        v.push(Base { tag: 6, body: gen::public_key_body(version, 1_600_000_000, alg, &params), what: format!("v{version} public key packet, algorithm {alg}") });
    }
    v.push(Base { tag: 11, body: wire::literal_body(b'u', b"file.txt", 0x6000_0000, b"literal data"), what: "literal data packet".into() });
    v.push(Base { tag: 14, body: gen::public_key_body(4, 1_600_000_000, 25, &[9u8; 32]), what: "v4 public subkey packet, algorithm 25".into() });
    v.push(Base { tag: 14, body: gen::public_key_body(6, 1_600_000_000, 26, &[9u8; 56]), what: "v6 public subkey packet, algorithm 26".into() });
    v.push(Base { tag: 20, body: [vec![1u8, 9, 2, 6], expand(0xC19_3000, 15 + 40)].concat(), what: "GnuPG AEAD encrypted data packet".into() });
    v.push(Base { tag: 13, body: b"Alice <alice@example.org>".to_vec(), what: "user id packet".into() });
    v.push(Base { tag: 8, body: [vec![1u8], vec![0x4b, 0x4c, 0x04, 0x00]].concat(), what: "compressed data packet (deflate)".into() });
    v.push(Base { tag: 8, body: [vec![3u8], b"BZh91AY&SY".to_vec(), expand(0xC19_3001, 30)].concat(), what: "compressed data packet (bzip2 header)".into() });
    for (kind, locked) in [(Kind::Ed25519V4, false), (Kind::Ed25519V4, true), (Kind::Ed25519V6, false), (Kind::Ed25519V6, true)] {
        for b in zoo_packets(kind, locked) {
            if b.body.len() <= 400 && !(b.tag == 13) {
                v.push(b);
            }
        }
    }
    v
}

struct Sweep {
    bases: Vec<Base>,
    /// prefix sums of per-base case counts
    starts: Vec<u64>,
    total: u64,
}

const SWEEP_WIDTHS: [usize; 4] = [1, 2, 4, 5];
const SWEEP_TAILS: [Tail; 3] = [Tail::Keep, Tail::Filler(1500), Tail::Filler(24_000)];

fn sweep_plan(stride: usize) -> Sweep {
    let bases = sweep_bases();
    let mut starts = vec![];
    let mut total = 0u64;
    for b in &bases {
        starts.push(total);
        let positions = (b.body.len() + 1).div_ceil(stride) as u64;
        total += positions * (SWEEP_WIDTHS.len() * SWEEP_TAILS.len()) as u64;
    }
    Sweep { bases, starts, total }
}

fn declared_sweep_case(t: &mut Tape, rec: &mut Rec, plan: &Sweep, stride: usize) -> CaseResult {
    let idx = t.u64();
    let bi = match plan.starts.binary_search(&idx) {
        Ok(i) => i,
        Err(i) => i - 1,
    };
    let base = &plan.bases[bi];
    let local = idx - plan.starts[bi];
    let per_pos = (SWEEP_WIDTHS.len() * SWEEP_TAILS.len()) as u64;
    let pos = (local / per_pos) as usize * stride;
    let width = SWEEP_WIDTHS[(local % per_pos) as usize / SWEEP_TAILS.len()];
    let tail = SWEEP_TAILS[(local % per_pos) as usize % SWEEP_TAILS.len()];
    rec.label(format!("sweep:tag{}", base.tag));
    rec.nontrivial((bi, pos, width, tail));
    declared_case_inner(rec, base, pos, width, 0xffff_ffff, tail, Framing::Accurate, idx)?;
    // data packets additionally under partial framings whose *later* length headers declare a lot
    if matches!(base.tag, 8 | 9 | 11 | 18 | 20) && pos == 0 {
        for f in [Framing::PartialThenHuge(local as usize % 8), Framing::PartialThenFinalHuge(local as usize % DECLARED.len())] {
            declared_case_inner(rec, base, pos, 1, base.body.first().copied().unwrap_or(0) as u64, Tail::Keep, f, idx)?;
        }
    }
    Ok(())
}

// ---------------------------------------------------------------------------------------------
// (b) scaling families
// ---------------------------------------------------------------------------------------------

#[derive(Clone, Copy, Debug, PartialEq, Eq)]
enum Growth {
    /// the API hands back the parsed object: memory may grow with the input, linearly
    Object,
    /// the API streams: memory must not grow with the input
    Streaming,
}

struct Family {
    name: &'static str,
    entry: Entry,
    growth: Growth,
    make: fn(usize) -> Vec<u8>,
    /// largest n this family is defined for (structural limits such as the 64 KiB subpacket area)
    max_n: usize,
}

fn lit() -> Vec<u8> {
    wire::new_packet(11, &wire::literal_body(b'b', b"", 0, b"payload"))
}

fn small_sig(i: usize) -> Vec<u8> {
    small_sig_typ(i, 0x00)
}

fn small_sig_typ(i: usize, typ: u8) -> Vec<u8> {
    // v4 signature, EdDSA legacy, minimal hashed area (creation time), issuer in unhashed
    let mut b = vec![4u8, typ, 22, 8];
    let hashed = gen::subpacket(2, false, &(1_700_000_000u32 + i as u32).to_be_bytes(), true);
    b.extend_from_slice(&(hashed.len() as u16).to_be_bytes());
    b.extend_from_slice(&hashed);
    let unhashed = gen::subpacket(16, false, &[1, 2, 3, 4, 5, 6, 7, 8], true);
    b.extend_from_slice(&(unhashed.len() as u16).to_be_bytes());
    b.extend_from_slice(&unhashed);
    b.extend_from_slice(&[0xAB, 0xCD]);
    b.extend_from_slice(&wire::mpi(&[0x55; 32]));
    b.extend_from_slice(&wire::mpi(&[0x66; 32]));
    wire::new_packet(2, &b)
}

fn repeat(p: &[u8], n: usize) -> Vec<u8> {
    let mut v = Vec::with_capacity(p.len() * n);
    for _ in 0..n {
        v.extend_from_slice(p);
    }
    v
}

fn cert_prefix() -> Vec<u8> {
    // primary key packet of a zoo certificate
    let z = zoo::get(Kind::Ed25519V4);
    let bytes = z.public.to_bytes().expect("zoo key serializes");
    let ps = wire::split_packets(&bytes).expect("zoo key de-frames");
    wire::new_packet(ps[0].tag, &ps[0].body)
}

fn armor_of(block: &str, data: &[u8]) -> Vec<u8> {
    let b64 = crate::refimpl::text::b64_encode(data);
    let mut s = format!("-----BEGIN PGP {block}-----\n\n");
    for c in b64.as_bytes().chunks(64) {
        s.push_str(std::str::from_utf8(c).unwrap_or(""));
        s.push('\n');
    }
    let crc = crate::refimpl::text::crc24(data);
    s.push('=');
    s.push_str(&crate::refimpl::text::b64_encode(&[(crc >> 16) as u8, (crc >> 8) as u8, crc as u8]));
    s.push_str(&format!("\n-----END PGP {block}-----\n"));
    s.into_bytes()
}

fn families() -> Vec<Family> {
    vec![
        Family { name: "markers-then-literal/packets", entry: Entry::Packets, growth: Growth::Streaming, max_n: usize::MAX, make: |n| [repeat(&wire::new_packet(10, b"PGP"), n), lit()].concat() },
        Family { name: "markers-then-literal/message", entry: Entry::Message, growth: Growth::Streaming, max_n: usize::MAX, make: |n| [repeat(&wire::new_packet(10, b"PGP"), n), lit()].concat() },
        Family { name: "paddings-then-literal/message", entry: Entry::Message, growth: Growth::Streaming, max_n: usize::MAX, make: |n| [repeat(&wire::new_packet(21, &[0u8; 5]), n), lit()].concat() },
        Family { name: "literal-of-n-bytes/message", entry: Entry::Message, growth: Growth::Streaming, max_n: usize::MAX, make: |n| wire::new_packet(11, &wire::literal_body(b'b', b"", 0, &vec![0x41; n * 16])) },
        Family { name: "literal-partial-chunks/message", entry: Entry::Message, growth: Growth::Streaming, max_n: usize::MAX, make: |n| wire::partial_packet(11, &wire::literal_body(b'b', b"", 0, &vec![0x41; n * 512 + 7]), &vec![9u8; n], 1).unwrap_or_default() },
        Family { name: "signatures/packets", entry: Entry::Packets, growth: Growth::Streaming, max_n: usize::MAX, make: |n| (0..n).flat_map(small_sig).collect() },
        Family { name: "signatures/detached-many", entry: Entry::Signatures, growth: Growth::Streaming, max_n: usize::MAX, make: |n| (0..n).flat_map(small_sig).collect() },
        Family { name: "prefixed-signatures/message", entry: Entry::Message, growth: Growth::Object, max_n: usize::MAX, make: |n| [(0..n).flat_map(small_sig).collect::<Vec<u8>>(), lit()].concat() },
        Family {
            name: "one-pass-headers/message",
            entry: Entry::Message,
            growth: Growth::Object,
            max_n: usize::MAX,
            make: |n| {
                let ops = wire::new_packet(4, &[3, 0, 8, 22, 1, 2, 3, 4, 5, 6, 7, 8, 0]);
                [repeat(&ops, n), lit(), (0..n).flat_map(small_sig).collect::<Vec<u8>>()].concat()
            },
        },
        Family { name: "user-ids/certificate", entry: Entry::PublicKeys, growth: Growth::Object, max_n: usize::MAX, make: |n| [cert_prefix(), (0..n).flat_map(|i| wire::new_packet(13, format!("user {i}").as_bytes())).collect::<Vec<u8>>()].concat() },
        Family { name: "signatures-on-user-id/certificate", entry: Entry::PublicKeys, growth: Growth::Object, max_n: usize::MAX, make: |n| [cert_prefix(), wire::new_packet(13, b"u"), (0..n).flat_map(|i| small_sig_typ(i, 0x13)).collect::<Vec<u8>>()].concat() },
        Family {
            name: "subkeys/certificate",
            entry: Entry::PublicKeys,
            growth: Growth::Object,
            max_n: usize::MAX,
            make: |n| {
                let sub = wire::new_packet(14, &gen::public_key_body(4, 1_600_000_000, 25, &[7u8; 32]));
                [cert_prefix(), wire::new_packet(13, b"u"), repeat(&[sub, small_sig_typ(0, 0x18)].concat(), n)].concat()
            },
        },
        Family { name: "certificates/keyring", entry: Entry::PublicKeys, growth: Growth::Streaming, max_n: usize::MAX, make: |n| repeat(&[cert_prefix(), wire::new_packet(13, b"u"), small_sig_typ(0, 0x13)].concat(), n) },
        Family {
            name: "subpackets/signature",
            entry: Entry::Packets,
            growth: Growth::Object,
            max_n: 8000,
            make: |n| {
                let mut area = vec![];
                for i in 0..n {
                    area.extend_from_slice(&gen::subpacket(20, false, &[0x80, 0, 0, 1, 0, 1, b'k', (i % 251) as u8], true));
                }
                let area = &area[..area.len().min(65_000) / 10 * 10];
                let mut b = vec![4u8, 0x00, 22, 8];
                b.extend_from_slice(&(area.len() as u16).to_be_bytes());
                b.extend_from_slice(area);
                b.extend_from_slice(&[0, 0, 0xAB, 0xCD]);
                b.extend_from_slice(&wire::mpi(&[0x55; 32]));
                b.extend_from_slice(&wire::mpi(&[0x66; 32]));
                wire::new_packet(2, &b)
            },
        },
        Family { name: "user-attribute-subpackets/packets", entry: Entry::Packets, growth: Growth::Object, max_n: usize::MAX, make: |n| wire::new_packet(17, &repeat(&[3u8, 100, 1, 2], n)) },
        Family { name: "armor-lines/dearmor", entry: Entry::Dearmor, growth: Growth::Streaming, max_n: usize::MAX, make: |n| armor_of("MESSAGE", &wire::new_packet(11, &wire::literal_body(b'b', b"", 0, &vec![0x42; n * 48]))) },
        Family { name: "armor-lines/message", entry: Entry::ArmoredMessage, growth: Growth::Streaming, max_n: usize::MAX, make: |n| armor_of("MESSAGE", &wire::new_packet(11, &wire::literal_body(b'b', b"", 0, &vec![0x42; n * 48]))) },
        Family {
            name: "armor-one-long-line/dearmor",
            entry: Entry::Dearmor,
            growth: Growth::Streaming,
            max_n: usize::MAX,
            make: |n| {
                let data = wire::new_packet(11, &wire::literal_body(b'b', b"", 0, &vec![0x42; n * 48]));
                format!("-----BEGIN PGP MESSAGE-----\n\n{}\n-----END PGP MESSAGE-----\n", crate::refimpl::text::b64_encode(&data)).into_bytes()
            },
        },
        Family {
            name: "armor-many-headers/dearmor",
            entry: Entry::Dearmor,
            growth: Growth::Object,
            max_n: usize::MAX,
            make: |n| {
                let mut s = String::from("-----BEGIN PGP MESSAGE-----\n");
                for i in 0..n {
                    s.push_str(&format!("Comment: line {i}\n"));
                }
                s.push_str("\nyxA=\n-----END PGP MESSAGE-----\n");
                s.into_bytes()
            },
        },
        Family { name: "armor-long-header-value/dearmor", entry: Entry::Dearmor, growth: Growth::Object, max_n: usize::MAX, make: |n| format!("-----BEGIN PGP MESSAGE-----\nComment: {}\n\nyxA=\n-----END PGP MESSAGE-----\n", "x".repeat(n * 16)).into_bytes() },
        Family { name: "garbage-before-armor/dearmor", entry: Entry::Dearmor, growth: Growth::Streaming, max_n: usize::MAX, make: |n| [repeat(b"some leading text\n", n), armor_of("MESSAGE", &lit())].concat() },
        Family { name: "garbage-one-line-before-armor/dearmor", entry: Entry::Dearmor, growth: Growth::Streaming, max_n: usize::MAX, make: |n| [vec![b'z'; n * 16], b"\n".to_vec(), armor_of("MESSAGE", &lit())].concat() },
        Family { name: "armored-keyring/keys", entry: Entry::ArmoredKey, growth: Growth::Streaming, max_n: usize::MAX, make: |n| armor_of("PUBLIC KEY BLOCK", &repeat(&[cert_prefix(), wire::new_packet(13, b"u"), small_sig_typ(0, 0x13)].concat(), n)) },
        Family {
            name: "cleartext-lines/cleartext",
            entry: Entry::Cleartext,
            growth: Growth::Object,
            max_n: usize::MAX,
            make: |n| {
                let mut s = String::from("-----BEGIN PGP SIGNED MESSAGE-----\nHash: SHA256\n\n");
                for i in 0..n {
                    s.push_str(if i % 3 == 0 { "- dash escaped line \n" } else { "plain line\t \n" });
                }
                s.push_str(std::str::from_utf8(&armor_of("SIGNATURE", &small_sig(0))).unwrap_or(""));
                s.into_bytes()
            },
        },
        Family {
            name: "cleartext-one-long-line/cleartext",
            entry: Entry::Cleartext,
            growth: Growth::Object,
            max_n: usize::MAX,
            make: |n| {
                let mut s = String::from("-----BEGIN PGP SIGNED MESSAGE-----\nHash: SHA256\n\n");
                s.push_str(&"w ".repeat(n * 8));
                s.push('\n');
                s.push_str(std::str::from_utf8(&armor_of("SIGNATURE", &small_sig(0))).unwrap_or(""));
                s.into_bytes()
            },
        },
        Family {
            name: "nested-compression/message",
            entry: Entry::Message,
            growth: Growth::Object,
            max_n: 32,
            make: |n| {
                let mut cur = lit();
                for _ in 0..n {
                    cur = wire::new_packet(8, &[vec![0u8], cur].concat());
                }
                cur
            },
        },
    ]
}

fn scaling_case(t: &mut Tape, rec: &mut Rec, fams: &[Family], exps: &[u32]) -> CaseResult {
    let idx = t.u64() as usize;
    let fam = &fams[idx / exps.len()];
    let n = 1usize << exps[idx % exps.len()];
    rec.label(format!("family:{}", fam.name));
    if 2 * n > fam.max_n && fam.max_n != usize::MAX {
        // structural limit: measure the two largest admissible sizes instead
        if idx % exps.len() != 0 {
            rec.discard();
            return Ok(());
        }
    }
    let (n1, n2) = if fam.max_n != usize::MAX && 2 * n > fam.max_n { (fam.max_n / 2, fam.max_n) } else { (n, 2 * n) };
    let a = (fam.make)(n1);
    let b = (fam.make)(n2);
    rec.nontrivial((fam.name, n1));
    rec.describe(|| format!("family {} at n = {n1} ({} bytes) and n = {n2} ({} bytes) through {:?}", fam.name, a.len(), b.len(), fam.entry));
    rec.checkpoint(fam.name);
    let (ra, sa) = measure(|| run_entry(fam.entry, &a));
    let (rb, sb) = measure(|| run_entry(fam.entry, &b));
    rec.label(format!("peak{}", bucket(sb.peak)));
    if ra == 0 && rb == 0 {
        rec.label(format!("family-input-rejected:{}", fam.name));
    }
    let ratio_in = b.len() as f64 / a.len().max(1) as f64;
    // work: bytes allocated in total and number of allocations grow no faster than the input (x1.3 slack)
    let floor = 256 * KIB;
    ensure_prop!(
        (sb.total as f64) <= (sa.total.max(floor) as f64) * ratio_in * 1.3,
        format!("C19:superlinear-work@{}", fam.name),
        "{}: input grew x{ratio_in:.2} ({} -> {} bytes) but bytes allocated in total grew from {} to {}",
        fam.name,
        a.len(),
        b.len(),
        sa.total,
        sb.total
    );
    ensure_prop!(
        (sb.count as f64) <= (sa.count.max(2000) as f64) * ratio_in * 1.3,
        format!("C19:superlinear-work@{}", fam.name),
        "{}: input grew x{ratio_in:.2} ({} -> {} bytes) but the number of allocations grew from {} to {}",
        fam.name,
        a.len(),
        b.len(),
        sa.count,
        sb.count
    );
    match fam.growth {
        Growth::Object => {
            // the parsed object may be larger than its wire form by a constant factor (a parsed
            // signature is ~20x its minimal encoding), but it grows linearly with what was supplied
            ensure_prop!(
                (sb.peak as f64) <= (sa.peak.max(256 * KIB) as f64) * ratio_in * 1.3 && sb.peak <= 64 * b.len() as u64 + MIB,
                format!("C19:memory-exceeds-supplied@{}", fam.name),
                "{}: peak {} live bytes for {} input bytes and {} for {}",
                fam.name,
                sa.peak,
                a.len(),
                sb.peak,
                b.len()
            );
        }
        Growth::Streaming => {
            ensure_prop!(
                sb.peak <= sa.peak + 64 * KIB && sb.peak <= 512 * KIB,
                format!("C19:streaming-memory-grows@{}", fam.name),
                "{}: streaming entry point {:?} had a peak of {} live bytes for {} input bytes and {} for {}",
                fam.name,
                fam.entry,
                sa.peak,
                a.len(),
                sb.peak,
                b.len()
            );
        }
    }
    Ok(())
}

// ---------------------------------------------------------------------------------------------
// (c) streaming large messages
// ---------------------------------------------------------------------------------------------

/// a source of `remaining` bytes that allocates nothing; `zeros` gives highly compressible data
struct PatternRead {
    remaining: u64,
    state: u64,
    zeros: bool,
}

impl Read for PatternRead {
    fn read(&mut self, buf: &mut [u8]) -> io::Result<usize> {
        let n = (buf.len() as u64).min(self.remaining) as usize;
        if self.zeros {
            buf[..n].fill(0);
        } else {
            for c in buf[..n].chunks_mut(8) {
                self.state ^= self.state << 13;
                self.state ^= self.state >> 7;
                self.state ^= self.state << 17;
                let w = self.state.to_le_bytes();
                c.copy_from_slice(&w[..c.len()]);
            }
        }
        self.remaining -= n as u64;
        Ok(n)
    }
}

/// a sink into a buffer allocated up front (so the builder's own allocations are what is measured)
struct PreSized<'a> {
    buf: &'a mut Vec<u8>,
}

impl Write for PreSized<'_> {
    fn write(&mut self, b: &[u8]) -> io::Result<usize> {
        if self.buf.len() + b.len() > self.buf.capacity() {
            return Err(io::Error::other("pre-sized sink too small (harness)"));
        }
        self.buf.extend_from_slice(b);
        Ok(b.len())
    }
    fn flush(&mut self) -> io::Result<()> {
        Ok(())
    }
}

#[derive(Clone, Debug)]
struct StreamCfg {
    name: &'static str,
    cfg: MsgConfig,
    zeros: bool,
    mode: Option<Seipdv1ReadMode>,
}

fn stream_cfgs() -> Vec<StreamCfg> {
    let mut v = vec![];
    let plain = MsgConfig::plain();
    let mut add = |name: &'static str, f: &dyn Fn(&mut MsgConfig), zeros: bool, mode: Option<Seipdv1ReadMode>| {
        let mut c = plain.clone();
        c.chunk = 64 * 1024;
        f(&mut c);
        v.push(StreamCfg { name, cfg: c, zeros, mode });
    };
    add("literal", &|_| {}, false, None);
    add("literal-small-partials", &|c| c.chunk = 512, false, None);
    add("zip-random", &|c| c.compression = Some(CompressionAlgorithm::ZIP), false, None);
    add("zlib-zeros", &|c| c.compression = Some(CompressionAlgorithm::ZLIB), true, None);
    add("bzip2-zeros", &|c| c.compression = Some(CompressionAlgorithm::BZip2), true, None);
    add("signed-ed25519", &|c| c.signers = vec![(Kind::Ed25519V4, HashAlgorithm::Sha256)], false, None);
    add("signed-text-mode", &|c| { c.signers = vec![(Kind::Ed25519V6, HashAlgorithm::Sha512)]; c.sign_text = true; c.utf8 = true; }, true, None);
    add("armored", &|c| c.armor = Some(true), false, None);
    add("seipdv2-ocb-4k", &|c| c.enc = Enc::V2(SymmetricKeyAlgorithm::AES128, AeadAlgorithm::Ocb, 6), false, None);
    add("seipdv2-gcm-64k", &|c| c.enc = Enc::V2(SymmetricKeyAlgorithm::AES256, AeadAlgorithm::Gcm, 10), false, None);
    add("seipdv2-eax-64b-zip", &|c| { c.enc = Enc::V2(SymmetricKeyAlgorithm::AES128, AeadAlgorithm::Eax, 0); c.compression = Some(CompressionAlgorithm::ZIP); }, true, None);
    add("seipdv2-signed-armored", &|c| { c.enc = Enc::V2(SymmetricKeyAlgorithm::AES128, AeadAlgorithm::Ocb, 8); c.signers = vec![(Kind::Ed25519V6, HashAlgorithm::Sha512)]; c.armor = Some(false); }, false, None);
    add("seipdv1-streaming", &|c| c.enc = Enc::V1(SymmetricKeyAlgorithm::AES128), false, Some(Seipdv1ReadMode::Streaming));
    add("seipdv1-streaming-zip", &|c| { c.enc = Enc::V1(SymmetricKeyAlgorithm::AES256); c.compression = Some(CompressionAlgorithm::ZIP); }, true, Some(Seipdv1ReadMode::Streaming));
    v
}

fn open_and_drain(sc: &StreamCfg, bytes: &[u8], mode: Option<Seipdv1ReadMode>) -> Result<u64, String> {
    open_and_drain_ordered(sc, bytes, mode, 0)
}

/// `order`: in which order the (commutative) option setters are applied around set_seipdv1_read_mode
fn open_and_drain_ordered(sc: &StreamCfg, bytes: &[u8], mode: Option<Seipdv1ReadMode>, order: usize) -> Result<u64, String> {
    let m = crate::msg::parse(&sc.cfg, bytes).map_err(|e| format!("parse: {e}"))?;
    let m = if m.is_encrypted() {
        let mut opts = DecryptionOptions::new();
        if let Some(md) = mode {
            opts = match order {
                0 => opts.set_seipdv1_read_mode(md),
                1 => opts.set_seipdv1_read_mode(md).enable_legacy(),
                2 => opts.enable_legacy().set_seipdv1_read_mode(md),
                3 => opts.set_seipdv1_read_mode(md).enable_gnupg_aead(),
                4 => opts.enable_gnupg_aead().enable_legacy().set_seipdv1_read_mode(md),
                _ => opts.set_seipdv1_read_mode(md).enable_legacy().enable_gnupg_aead(),
            };
        }
        let sk = sc.cfg.plain_session_key().ok_or("no session key")?;
        let ring = TheRing { session_keys: vec![sk], decrypt_options: opts, ..Default::default() };
        m.decrypt_the_ring(ring, true).map_err(|e| format!("decrypt: {e}"))?.0
    } else {
        m
    };
    let mut m = crate::msg::peel(m).map_err(|e| format!("decompress: {e}"))?;
    let (n, ok) = drain(&mut m, u64::MAX);
    if !ok {
        return Err("read error".into());
    }
    for (k, _) in &sc.cfg.signers {
        m.verify(&zoo::get(*k).public.primary_key).map_err(|e| format!("verify: {e}"))?;
    }
    Ok(n)
}

fn stream_one(sc: &StreamCfg, size: u64) -> Result<(Stats, Stats, usize), String> {
    let mut out: Vec<u8> = Vec::with_capacity((size + size / 2 + 4 * MIB) as usize);
    let (r, build) = measure(|| sc.cfg.build_from_reader(PatternRead { remaining: size, state: 0x9E37_79B9_7F4A_7C15, zeros: sc.zeros }, PreSized { buf: &mut out }));
    r.map_err(|e| format!("build: {e}"))?;
    let (r, read) = measure(|| open_and_drain(sc, &out, sc.mode));
    let n = r?;
    if n != size {
        return Err(format!("read back {n} of {size} bytes"));
    }
    Ok((build, read, out.len()))
}

fn streaming_case(t: &mut Tape, rec: &mut Rec, cfgs: &[StreamCfg], small: u64, big: u64) -> CaseResult {
    let sc = &cfgs[t.u64() as usize];
    rec.label(format!("stream:{}", sc.name));
    rec.nontrivial(sc.name);
    rec.describe(|| format!("{}: messages of {small} and {big} bytes built from a generated source and read back ({})", sc.name, sc.cfg.describe()));
    rec.checkpoint(sc.name);
    let a = stream_one(sc, small);
    let b = stream_one(sc, big);
    let (Ok((ba, ra, _)), Ok((bb, rb, blen))) = (&a, &b) else {
        // the positive control failing is a harness problem (or belongs to C01), not a C19 verdict
        panic!("harness: streaming control failed for {}: {:?} {:?}", sc.name, a.as_ref().err(), b.as_ref().err());
    };
    rec.label(format!("build-peak{}", bucket(bb.peak)));
    rec.label(format!("read-peak{}", bucket(rb.peak)));
    ensure_prop!(
        bb.peak <= ba.peak + 256 * KIB,
        format!("C19:streaming-memory-grows@build:{}", sc.name),
        "{}: building a {big}-byte message ({blen} bytes out) peaked at {} live bytes, a {small}-byte one at {}",
        sc.name,
        bb.peak,
        ba.peak
    );
    ensure_prop!(rb.peak <= ra.peak + 256 * KIB, format!("C19:streaming-memory-grows@read:{}", sc.name), "{}: reading a {big}-byte message peaked at {} live bytes, a {small}-byte one at {}", sc.name, rb.peak, ra.peak);
    // work stays linear: total allocation volume per payload byte does not grow
    let ratio = big as f64 / small as f64;
    ensure_prop!((rb.total as f64) <= (ra.total.max(MIB) as f64) * ratio * 1.3, format!("C19:superlinear-work@read:{}", sc.name), "{}: reading allocated {} bytes in total for {small} bytes and {} for {big}", sc.name, ra.total, rb.total);
    ensure_prop!((bb.total as f64) <= (ba.total.max(MIB) as f64) * ratio * 1.3, format!("C19:superlinear-work@build:{}", sc.name), "{}: building allocated {} bytes in total for {small} bytes and {} for {big}", sc.name, ba.total, bb.total);
    Ok(())
}

/// default-mode SEIPDv1: whole-message buffering, capped by max_message_size
fn checkfirst_case(t: &mut Tape, rec: &mut Rec) -> CaseResult {
    let idx = t.u64();
    let limit = [64 * KIB, 1 * MIB, 4 * MIB][(idx % 3) as usize];
    let factor = [(1u64, 2u64), (1, 1), (3, 2), (4, 1), (16, 1)][((idx / 3) % 5) as usize];
    let order = ((idx / 15) % 6) as usize;
    let size = limit * factor.0 / factor.1;
    let mut cfg = MsgConfig::plain();
    cfg.chunk = 64 * 1024;
    cfg.enc = Enc::V1(SymmetricKeyAlgorithm::AES128);
    let sc = StreamCfg { name: "seipdv1-check-first", cfg, zeros: false, mode: Some(Seipdv1ReadMode::CheckFirst { max_message_size: limit as usize }) };
    rec.label(format!("check-first:size={}xlimit", if size > limit { ">1" } else if size == limit { "=1" } else { "<1" }));
    rec.nontrivial((limit, size, order));
    rec.label(format!("check-first:option-order-{order}"));
    rec.describe(|| format!("SEIPDv1 message of {size} payload bytes read in CheckFirst mode with max_message_size {limit} (option setters applied in order #{order})"));
    let mut out: Vec<u8> = Vec::with_capacity((size + size / 2 + 4 * MIB) as usize);
    sc.cfg.build_from_reader(PatternRead { remaining: size, state: 7, zeros: false }, PreSized { buf: &mut out }).unwrap_or_else(|e| panic!("harness: build failed: {e}"));
    rec.checkpoint("check-first read");
    let (r, st) = measure(|| open_and_drain_ordered(&sc, &out, sc.mode, order));
    // the encrypted body is payload + literal framing + prefix + MDC; clearly above / below the limit only
    if size >= limit {
        ensure_prop!(r.is_err(), "C19:check-first-limit-ignored", "a {size}-byte SEIPDv1 message was released in CheckFirst mode although max_message_size is {limit}");
        ensure_prop!(st.peak <= limit * 5 / 2 + MIB, "C19:check-first-limit-ignored", "CheckFirst with max_message_size {limit} buffered {} live bytes of a {size}-byte message before refusing it", st.peak);
    } else {
        ensure_prop!(r.is_ok(), "C19:check-first-refuses-small", "a {size}-byte SEIPDv1 message was refused in CheckFirst mode with max_message_size {limit}: {:?}", r);
        ensure_prop!(st.peak <= limit * 5 / 2 + MIB, "C19:check-first-limit-ignored", "CheckFirst with max_message_size {limit} held {} live bytes for a {size}-byte message", st.peak);
    }
    Ok(())
}

// ---------------------------------------------------------------------------------------------
// (d) key-derivation ceilings
// ---------------------------------------------------------------------------------------------

/// documented ceiling: t <= 32, p <= 32, 8p <= 2^m KiB <= 2 GiB
fn argon_class(t: u8, p: u8, m: u8) -> &'static str {
    if t > 32 || p > 32 || m > 21 {
        return "beyond";
    }
    if t == 0 || p == 0 || m > 31 || (1u64 << m) < 8 * p as u64 {
        return "invalid";
    }
    "within"
}

fn argon_case(t: &mut Tape, rec: &mut Rec, ms: &[u8]) -> CaseResult {
    let tt = (t.u64() & 0xff) as u8;
    rec.label(format!("argon2:t={}", if tt > 32 { ">32" } else { "<=32" }));
    rec.nontrivial(tt);
    rec.describe(|| format!("Argon2 S2K with t = {tt}, every p in 0..=255, m in {} values", ms.len()));
    let mut n = 0u64;
    let mut executed = 0u64;
    for p in 0..=255u8 {
        for &m in ms {
            let class = argon_class(tt, p, m);
            let cheap = class == "within" && m <= 8 && tt <= 2 && p <= 4;
            if class == "within" && !cheap {
                continue;
            }
            n += 1;
            let s2k = StringToKey::Argon2 { salt: [m; 16], t: tt, p, m_enc: m };
            rec.checkpoint("Argon2 derive_key");
            let (r, st) = measure(|| s2k.derive_key(b"password", 32).map(|_| ()));
            match class {
                "beyond" => {
                    ensure_prop!(r.is_err(), "C19:argon2-ceiling-not-enforced", "Argon2 t={tt} p={p} m={m} is beyond the documented ceiling (t<=32, p<=32, 2^m KiB <= 2 GiB) but derive_key ran to completion");
                    ensure_prop!(st.total <= 64 * KIB, "C19:argon2-ceiling-not-enforced", "Argon2 t={tt} p={p} m={m} is beyond the documented ceiling but derive_key allocated {} bytes before refusing", st.total);
                }
                "invalid" => {
                    ensure_prop!(st.peak <= 64 * KIB + (1024u64 << m.min(21)), "C19:argon2-memory", "Argon2 t={tt} p={p} m={m}: peak {} live bytes", st.peak);
                }
                _ => {
                    executed += 1;
                    ensure_prop!(r.is_ok(), "C19:argon2-within-ceiling-refused", "Argon2 t={tt} p={p} m={m} is within the documented ceiling but was refused: {:?}", r.err().map(|e| e.to_string()));
                    ensure_prop!(st.peak <= 256 * KIB + (1024u64 << m) * 11 / 10, "C19:argon2-memory", "Argon2 t={tt} p={p} m={m}: peak {} live bytes for a {} KiB setting", st.peak, 1u64 << m);
                }
            }
        }
    }
    rec.add_evals(n);
    if executed > 0 {
        rec.label("argon2:executed-within-ceiling");
    }
    Ok(())
}

fn iterated_case(t: &mut Tape, rec: &mut Rec) -> CaseResult {
    let idx = t.u64();
    let coded = (idx & 0xff) as u8;
    let pw_len = [0usize, 8, 1000, 1 << 20][((idx >> 8) % 4) as usize];
    let hash = [HashAlgorithm::Sha256, HashAlgorithm::Sha1, HashAlgorithm::Sha512][((idx >> 10) % 3) as usize];
    rec.label(format!("iterated:pw={pw_len}"));
    rec.nontrivial((coded, pw_len, format!("{hash:?}")));
    rec.describe(|| format!("iterated and salted S2K, coded count {coded}, {hash:?}, password of {pw_len} bytes, 64-byte key"));
    let pw = vec![b'p'; pw_len];
    let s2k = StringToKey::IteratedAndSalted { hash_alg: hash, salt: [3; 8], count: coded };
    rec.checkpoint("iterated derive_key");
    let (r, st) = measure(|| s2k.derive_key(&pw, 64).map(|_| ()));
    ensure_prop!(r.is_ok(), "C19:iterated-s2k-refused", "iterated S2K count {coded} refused: {:?}", r.err().map(|e| e.to_string()));
    ensure_prop!(st.peak <= 16 * KIB && st.total <= 64 * KIB, "C19:s2k-memory", "iterated S2K (count octet {coded}, password {pw_len} bytes) allocated {} bytes in total, peak {}", st.total, st.peak);
    Ok(())
}

pub fn run(ctx: &Ctx) {
    ctx.set_rule("every case runs in a worker process under a counting allocator (peak live bytes, bytes allocated in total, number and largest of requests; single requests above 1 GiB are refused and show as a failed allocation of the case); (a) declared-but-absent: a generated or harvested packet body, one 1/2/4/5-octet field at a drawn (sweep: every) offset set to 2^16..2^32-1, the rest kept, cut, or replaced by 100..70000 filler bytes, framed accurately or under a five-octet / legacy four-octet / first partial / continuation partial / final-after-partial length that declares up to 2^32-1; oracle peak <= 192 KiB + 8 x supplied (6 MiB constant where a decompressor runs), largest request <= 96 KiB + 4 x supplied, total <= 2 MiB + 64 x supplied; (b) scaling families measured at n and 2n: total bytes and allocation count grow no faster than the input x1.3, object-returning entry points peak grows no faster than the input x1.3 and stays <= 64 x input + 1 MiB, streaming ones do not grow (+64 KiB); (c) messages of two sizes built from a generated source into a pre-sized sink and read back: peak independent of size (+256 KiB) for literal/compressed/signed/armored/SEIPDv2/SEIPDv1-streaming, SEIPDv1 CheckFirst refuses messages above max_message_size after buffering <= 2.5 x limit + 1 MiB, whatever the order in which the decryption options were set (6 orders); (d) Argon2: every (t,p) with the listed m values classified by the documented ceiling, beyond => Err with < 64 KiB allocated, cheap settings within => Ok with peak <= 1.1 x 2^m KiB; iterated S2K: every count octet, allocation independent of count and password length; non-trivial = artifact measured; distinct = (base, field, value, tail, framing) / (family, n) / configuration");
    ctx.assume("time is not measured: linear work is decided on allocation volume and allocation count only; a worker that makes no progress for 120 s is inconclusive (exit 2)");
    let thorough = ctx.tier == Tier::Thorough;
    zoo::warm(&[Kind::Ed25519V4, Kind::Ed25519V6, Kind::RsaV4, Kind::P256V4]);

    let n = ctx.tier.pick(200_000u64, 4_000_000);
    ctx.group_isolated("declared-absent-random", Source::Random { n, tape_len: 1400 }, declared_random_case);

    let stride = if thorough { 1 } else { 2 };
    let plan = sweep_plan(stride);
    ctx.group_isolated("declared-absent-sweep", Source::Indexed { count: plan.total }, |t, rec| declared_sweep_case(t, rec, &plan, stride));

    let fams = families();
    let exps: Vec<u32> = if thorough { (6..=16).collect() } else { (6..=12).collect() };
    ctx.group_isolated("scaling-families", Source::Indexed { count: (fams.len() * exps.len()) as u64 }, |t, rec| scaling_case(t, rec, &fams, &exps));

    let cfgs = stream_cfgs();
    zoo::warm(&[Kind::Ed25519V4, Kind::Ed25519V6]);
    let (small, big) = if thorough { (4 * MIB, 256 * MIB) } else { (MIB, 16 * MIB) };
    ctx.group_isolated("streaming-sizes", Source::Indexed { count: cfgs.len() as u64 }, |t, rec| streaming_case(t, rec, &cfgs, small, big));
    if thorough {
        ctx.group_isolated("streaming-sizes-mid", Source::Indexed { count: cfgs.len() as u64 }, |t, rec| streaming_case(t, rec, &cfgs, MIB, 64 * MIB));
    }
    ctx.group_isolated("seipdv1-check-first", Source::Indexed { count: 90 }, checkfirst_case);

    let ms: Vec<u8> = if thorough { (0..=255).collect() } else { vec![0, 1, 3, 4, 5, 6, 7, 8, 9, 12, 20, 21, 22, 23, 30, 31, 32, 33, 64, 128, 255] };
    ctx.group_isolated("argon2-parameters", Source::Indexed { count: 256 }, |t, rec| argon_case(t, rec, &ms));
    let n_iter = if thorough { 256 * 12 } else { 256 * 4 };
    ctx.group_isolated("iterated-s2k", Source::Indexed { count: n_iter }, iterated_case);
}

#[doc(hidden)]
pub fn families_dbg(name: &str, n: usize) -> Vec<u8> {
    (families().into_iter().find(|f| f.name == name).expect("family").make)(n)
}
