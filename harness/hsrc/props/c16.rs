//! C16 — cleartext signatures: text survives, framing is unspoofable, signature binds.

use pgp::composed::{ArmorOptions, CleartextSignedMessage};
use pgp::packet::{SignatureConfig, SignatureType, Subpacket, SubpacketData};
use pgp::types::{KeyDetails, KeyVersion, Password, Timestamp};
use rand::SeedableRng;
use rand_chacha::ChaCha8Rng;

use crate::engine::{fail, CaseResult, Ctx, Fail, Rec, Source, Tape};
use crate::refimpl::text::canon;
use crate::zoo::{self, Kind};

fn f(sig: &str, d: impl Into<String>) -> Fail {
    Fail { sig: sig.to_string(), detail: d.into() }
}

/// RFC 9580 7.2 signed form, reference: per line (terminated by LF, an immediately preceding CR
/// belongs to the line ending) remove trailing SP / TAB, then canonicalize line endings (C14).
pub fn ref_signed_form(text: &str) -> Vec<u8> {
    let mut out: Vec<u8> = vec![];
    for line in text.split_inclusive('\n') {
        let (content, end) = if let Some(c) = line.strip_suffix("\r\n") {
            (c, "\r\n")
        } else if let Some(c) = line.strip_suffix('\n') {
            (c, "\n")
        } else {
            (line, "")
        };
        let trimmed = content.trim_end_matches(|c| c == ' ' || c == '\t');
        out.extend_from_slice(trimmed.as_bytes());
        out.extend_from_slice(end.as_bytes());
    }
    canon(&out)
}

/// independent splitter of an emitted cleartext document -> (hash header values, escaped text, armor rest)
pub fn split_document(doc: &str) -> Result<(Vec<String>, String, String), String> {
    let rest = doc.strip_prefix("-----BEGIN PGP SIGNED MESSAGE-----\n").ok_or("first line")?;
    let mut hashes = vec![];
    let mut pos = 0;
    loop {
        let nl = rest[pos..].find('\n').ok_or("headers not terminated")?;
        let line = &rest[pos..pos + nl];
        pos += nl + 1;
        if line.trim().is_empty() {
            break;
        }
        let v = line.strip_prefix("Hash: ").ok_or_else(|| format!("unexpected header line {line:?}"))?;
        hashes.extend(v.split(',').map(|s| s.to_string()));
    }
    let body = &rest[pos..];
    // the text section ends at the first line that starts with five dashes
    let mut tpos = 0;
    let mut found = None;
    loop {
        if body[tpos..].starts_with("-----") {
            found = Some(tpos);
            break;
        }
        match body[tpos..].find('\n') {
            Some(nl) => tpos += nl + 1,
            None => break,
        }
    }
    let end = found.ok_or("no armor header line after the text")?;
    if !body[end..].starts_with("-----BEGIN PGP SIGNATURE-----") {
        return Err(format!("text section ends at a line starting with {:?}", body[end..].chars().take(40).collect::<String>()));
    }
    let mut text = &body[..end];
    // the line break before the armor header is not part of the text
    if let Some(t) = text.strip_suffix("\r\n") {
        text = t;
    } else if let Some(t) = text.strip_suffix('\n') {
        text = t;
    } else if end != 0 {
        return Err("no line break before the armor header".into());
    }
    Ok((hashes, text.to_string(), body[end..].to_string()))
}

pub fn unescape(escaped: &str) -> String {
    let mut out = String::new();
    for line in escaped.split_inclusive('\n') {
        out.push_str(line.strip_prefix("- ").unwrap_or(line));
    }
    out
}

const TOKENS: [&str; 22] = [
    "",
    "-",
    "- ",
    "--",
    "-----BEGIN PGP SIGNATURE-----",
    "-----BEGIN PGP SIGNED MESSAGE-----",
    "-----END PGP SIGNATURE-----",
    "-----BEGIN PGP MESSAGE-----",
    "Hash: SHA256",
    "From me",
    "hello world",
    "grüße 鍵 🔑",
    "trailing spaces   ",
    "trailing tab\t",
    "mixed \t \t",
    "nbsp\u{a0}",
    "ideographic space\u{3000}",
    "vt\u{b}",
    "ff\u{c}",
    "cr inside\rmore",
    "ends with cr\r",
    "=AbCd",
];

pub fn draw_text(t: &mut Tape) -> String {
    let n = t.range(0, 8);
    let mut s = String::new();
    for i in 0..n {
        s.push_str(TOKENS[t.below(TOKENS.len())]);
        if t.chance(30) {
            s.push_str(TOKENS[t.below(TOKENS.len())]);
        }
        let last = i + 1 == n;
        if !last || t.bool() {
            s.push_str(if t.chance(90) { "\r\n" } else { "\n" });
        }
    }
    s
}

fn sign(t: &mut Tape, text: &str, kinds: &[Kind]) -> Result<(CleartextSignedMessage, Vec<Kind>), Fail> {
    let k1 = *t.pick(kinds);
    let mut rng = ChaCha8Rng::from_seed(t.seed32());
    let pw = Password::empty();
    let mk = |k: Kind, rng: &mut ChaCha8Rng, hash: pgp::crypto::hash::HashAlgorithm| -> Result<SignatureConfig, Fail> {
        let key = &zoo::get(k).secret.primary_key;
        let mut c = if key.version() == KeyVersion::V6 { SignatureConfig::v6(rng, SignatureType::Text, key.algorithm(), hash).map_err(|e| f("C16:config-error", e.to_string()))? } else { SignatureConfig::v4(SignatureType::Text, key.algorithm(), hash) };
        c.hashed_subpackets = vec![Subpacket::regular(SubpacketData::SignatureCreationTime(Timestamp::from_secs(1_700_000_005))).unwrap(), Subpacket::regular(SubpacketData::IssuerFingerprint(key.fingerprint())).unwrap()];
        Ok(c)
    };
    match t.below(3) {
        0 => CleartextSignedMessage::sign(&mut rng, text, &zoo::get(k1).secret.primary_key, &pw).map(|m| (m, vec![k1])).map_err(|e| f("C16:sign-error", e.to_string())),
        1 => {
            let h = *t.pick(k1.hashes());
            let c = mk(k1, &mut rng, h)?;
            CleartextSignedMessage::new(text, c, &zoo::get(k1).secret.primary_key, &pw).map(|m| (m, vec![k1])).map_err(|e| f("C16:sign-error", e.to_string()))
        }
        _ => {
            let k2 = *t.pick(kinds);
            let (h1, h2) = (*t.pick(k1.hashes()), *t.pick(k2.hashes()));
            let c1 = mk(k1, &mut rng, h1)?;
            let c2 = mk(k2, &mut rng, h2)?;
            CleartextSignedMessage::new_many(text, |norm| {
                let s1 = c1.sign(&zoo::get(k1).secret.primary_key, &pw, norm.as_bytes())?;
                let s2 = c2.sign(&zoo::get(k2).secret.primary_key, &pw, norm.as_bytes())?;
                Ok(vec![s1, s2])
            })
            .map(|m| (m, vec![k1, k2]))
            .map_err(|e| f("C16:sign-error", e.to_string()))
        }
    }
}

fn show(s: &str) -> String {
    let e: String = s.chars().take(120).flat_map(|c| c.escape_debug()).collect();
    if s.chars().count() > 120 {
        format!("{e}…")
    } else {
        e
    }
}

fn roundtrip_case(t: &mut Tape, rec: &mut Rec, kinds: &[Kind]) -> CaseResult {
    let text = draw_text(t);
    let (msg, signers) = sign(t, &text, kinds)?;
    rec.label(format!("signers:{}", signers.len()));
    rec.label(format!("lines:{}", text.matches('\n').count()));
    for (pat, l) in [("\u{a0}", "text:nbsp"), ("\u{3000}", "text:u3000"), ("\u{b}", "text:vt"), ("\u{c}", "text:ff"), ("-----BEGIN PGP SIGNATURE", "text:armor-boundary"), (" \n", "text:trailing-blank"), (" \r\n", "text:trailing-blank"), ("\t\r\n", "text:trailing-blank")] {
        if text.contains(pat) {
            rec.label(l);
        }
    }
    if text.ends_with('\r') {
        rec.label("text:ends-with-CR");
    }
    rec.nontrivial((text.clone(), signers.clone()));
    rec.describe(|| format!("text \"{}\" signed by {signers:?}", show(&text)));
    let want_signed = ref_signed_form(&text);
    // signed form is the RFC one
    if msg.signed_text().as_bytes() != &want_signed[..] {
        return fail("C16:signed-form-differs-from-rfc", format!("text \"{}\": rPGP \"{}\" vs RFC \"{}\"", show(&text), show(&msg.signed_text()), show(&String::from_utf8_lossy(&want_signed))));
    }
    // own signatures verify
    for k in &signers {
        if msg.verify_many(|_, s, d| if s.verify(&zoo::get(*k).public.primary_key, d).is_ok() || signers.len() > 1 { Ok(()) } else { Err(pgp::errors::Error::from(std::io::Error::other("no"))) }).is_err() {
            rec.soft_fail("C16:own-signature-does-not-verify", format!("text \"{}\"", show(&text)));
        }
        if msg.verify(&zoo::get(*k).public.primary_key).is_err() {
            rec.soft_fail("C16:own-signature-does-not-verify", format!("verify(), signer {k:?}, text \"{}\"", show(&text)));
        }
    }
    let doc = msg.to_armored_string(ArmorOptions { headers: None, include_checksum: t.bool() }).map_err(|e| f("C16:armor-error", e.to_string()))?;
    // (3) unspoofable framing, judged by the independent splitter
    match split_document(&doc) {
        Ok((hashes, escaped, armor)) => {
            rec.check(unescape(&escaped) == text, "C16:emitted-document-carries-different-text", || format!("text \"{}\" -> independent reading \"{}\"", show(&text), show(&unescape(&escaped))));
            for line in escaped.split('\n') {
                if line.starts_with('-') && !line.starts_with("- ") {
                    rec.soft_fail("C16:unescaped-dash-line-emitted", format!("line \"{}\"", show(line)));
                }
            }
            rec.check(!hashes.is_empty(), "C16:no-hash-header", || "".into());
            rec.check(armor.matches("-----BEGIN PGP SIGNATURE-----").count() == 1 && armor.trim_end().ends_with("-----END PGP SIGNATURE-----"), "C16:signature-block-count", || show(&armor));
        }
        Err(e) => rec.soft_fail("C16:emitted-document-is-not-a-cleartext-document", format!("{e}; text \"{}\"", show(&text))),
    }
    // (1)(2) read back
    match CleartextSignedMessage::from_string(&doc) {
        Err(e) => return fail("C16:own-document-rejected", format!("{e}; text \"{}\"", show(&text))),
        Ok((m2, _)) => {
            rec.check(m2.text() == msg.text() && unescape(m2.text()) == text, "C16:text-changed-by-roundtrip", || format!("\"{}\" -> \"{}\"", show(&text), show(&unescape(m2.text()))));
            rec.check(m2.signed_text().as_bytes() == &want_signed[..], "C16:signed-form-changed-by-roundtrip", || format!("\"{}\"", show(&m2.signed_text())));
            rec.check(m2.signatures().len() == signers.len(), "C16:signature-count-changed-by-roundtrip", || format!("{}", m2.signatures().len()));
            for k in &signers {
                if m2.verify(&zoo::get(*k).public.primary_key).is_err() {
                    rec.soft_fail("C16:signature-does-not-verify-after-roundtrip", format!("signer {k:?}, text \"{}\"", show(&text)));
                }
            }
            // (4) re-emission is stable
            if let Ok(doc2) = m2.to_armored_string(ArmorOptions::default()) {
                match CleartextSignedMessage::from_string(&doc2) {
                    Ok((m3, _)) => {
                        rec.check(m3 == m2, "C16:re-emitted-document-parses-differently", || "".into());
                    }
                    Err(e) => rec.soft_fail("C16:re-emitted-document-rejected", e.to_string()),
                }
            }
        }
    }
    // (5) one edit of the text section of the document
    let start = doc.find("\n\n").map(|p| p + 2).unwrap_or(0);
    let end = doc.find("\n-----BEGIN PGP SIGNATURE").unwrap_or(start);
    let mut d = doc.clone().into_bytes();
    let edit = t.below(4);
    let what;
    if end > start {
        let mut p = start + t.below(end - start);
        while !doc.is_char_boundary(p) {
            p -= 1;
        }
        match edit {
            0 => {
                let c = *t.pick(&[b' ', b'\t', b'x', b'-', b'\r']);
                d.insert(p, c);
                what = format!("{:?} inserted at text offset {}", c as char, p - start);
            }
            1 => {
                let ch = doc[p..].chars().next().unwrap();
                d.drain(p..p + ch.len_utf8());
                what = format!("{ch:?} removed at text offset {}", p - start);
            }
            2 => {
                // append blanks to a line end (must stay valid)
                let nl = doc[p..end].find('\n').map(|x| p + x).unwrap_or(end);
                let at = if nl > start && d[nl - 1] == b'\r' { nl - 1 } else { nl };
                d.insert(at, b' ');
                what = format!("blank appended to the line ending at text offset {}", nl - start);
            }
            _ => {
                let ch = doc[p..].chars().next().unwrap();
                let new = if ch == 'a' { b'b' } else { b'a' };
                d.splice(p..p + ch.len_utf8(), [new]);
                what = format!("{ch:?} replaced at text offset {}", p - start);
            }
        }
    } else {
        d.splice(start..start, *b"x");
        what = "'x' inserted into the empty text".to_string();
    }
    let Ok(doc_e) = String::from_utf8(d) else {
        return Ok(());
    };
    rec.add_evals(1);
    if let Ok((me, _)) = CleartextSignedMessage::from_string(&doc_e) {
        // what would an independent reader take as the text?
        let Ok((_, esc_e, _)) = split_document(&doc_e) else {
            return Ok(());
        };
        let text_e = unescape(&esc_e);
        let same = ref_signed_form(&text_e) == want_signed;
        let ok = signers.iter().all(|k| me.verify(&zoo::get(*k).public.primary_key).is_ok());
        let any = signers.iter().any(|k| me.verify(&zoo::get(*k).public.primary_key).is_ok());
        rec.nontrivial(("edit", text.clone(), what.clone()));
        if same && !ok {
            return fail("C16:edit-preserving-the-signed-form-invalidates", format!("{what}; text \"{}\"", show(&text)));
        }
        if !same && any {
            return fail("C16:edit-changing-the-signed-form-still-verifies", format!("{what}; text \"{}\" -> \"{}\"", show(&text), show(&text_e)));
        }
    }
    Ok(())
}

pub fn run(ctx: &Ctx) {
    ctx.set_rule("texts: 0..8 lines over tokens {empty, '-', '- ', '--', the armor boundary strings, 'Hash: SHA256', 'From ', words, multi-byte UTF-8, trailing SP/TAB runs, trailing NBSP/U+3000/VT/FF, lone CR inside and at the end} x terminators {LF, CRLF} x final newline or not; signed through sign/new/new_many (1..2 signers, zoo algorithms, hash algorithms); oracles: signed_text() == reference RFC 9580 7.2 form; own signatures verify; emitted document judged by an independent splitter (exactly the text, dash-escaped lines, one signature block); from_string round trip keeps text, signed form, signatures and validity; re-emission stable; one edit of the text section: verifies iff the reference signed form is unchanged; non-trivial = every text; distinct = (text, signers)");
    ctx.assume("signed form = trailing SP/TAB of each LF-terminated line removed (a CR directly before the LF belongs to the line ending), then the C14 canonicalization");
    zoo::warm(zoo::CHEAP_SIGNERS);
    let n = ctx.tier.pick(12_000u64, 2_400_000);
    ctx.group("grammar-texts", Source::Random { n, tape_len: 200 }, |t, rec| roundtrip_case(t, rec, zoo::CHEAP_SIGNERS));
    zoo::warm(zoo::ALL_SIGNERS);
    let n = ctx.tier.pick(600u64, 96_000);
    ctx.group("grammar-texts-all-algorithms", Source::Random { n, tape_len: 200 }, |t, rec| roundtrip_case(t, rec, zoo::ALL_SIGNERS));
}
