//! C14 — text canonicalization is one function, however the text is delivered.
//!
//! Reference: `refimpl::text::canon` (every LF not preceded by CR becomes CRLF, nothing else).
//! Observed implementations: NormalizedReader (streaming reader), NormalizingHasher (through
//! SignatureConfig::into_hasher + io::Write + recording signer, and through the message builder /
//! message reader), normalize_lines (through CleartextSignedMessage::new_many's callback).

use std::io::{Read, Write};

use pgp::composed::{CleartextSignedMessage, DetachedSignature, Message, MessageBuilder};
use pgp::crypto::hash::HashAlgorithm;
use pgp::line_writer::LineBreak;
use pgp::normalize_lines::NormalizedReader;
use pgp::composed::SubpacketConfig;
use pgp::packet::{DataMode, SignatureConfig, SignatureType};
use pgp::types::{KeyDetails, Password};
use rand::SeedableRng;
use rand_chacha::ChaCha8Rng;

use crate::engine::{fail, CaseResult, Ctx, Rec, Source, Tape, Tier};
use crate::io::{Consumer, Sched, SchedRead};
use crate::recsign::{RecordingSigner, RecordingVerifier};
use crate::refimpl::sigdigest::{hash_id, v4_tail};
use crate::refimpl::text::canon;
use crate::zoo::{self, Kind};

const SYM: [u8; 3] = [b'\r', b'\n', b'x'];

/// index -> (length, string) enumerating all strings over SYM by length
fn nth_string(mut idx: u64) -> Vec<u8> {
    let mut len = 0u32;
    loop {
        let n = 3u64.pow(len);
        if idx < n {
            break;
        }
        idx -= n;
        len += 1;
    }
    let mut s = Vec::with_capacity(len as usize);
    for _ in 0..len {
        s.push(SYM[(idx % 3) as usize]);
        idx /= 3;
    }
    s
}

fn count_strings(max_len: u32) -> u64 {
    (0..=max_len).map(|l| 3u64.pow(l)).sum()
}

fn show(s: &[u8]) -> String {
    s.iter()
        .map(|&b| match b {
            b'\r' => "\\r".to_string(),
            b'\n' => "\\n".to_string(),
            b if (0x20..0x7f).contains(&b) => (b as char).to_string(),
            b => format!("\\x{b:02x}"),
        })
        .collect()
}

fn show_long(s: &[u8]) -> String {
    if s.len() <= 60 {
        show(s)
    } else {
        format!("{}…({} bytes)…{}", show(&s[..20]), s.len(), show(&s[s.len() - 20..]))
    }
}

fn reader_out(input: &[u8], sched: Sched, cons: Consumer) -> Result<Vec<u8>, String> {
    let src = SchedRead::new(input.to_vec(), sched);
    let mut r = NormalizedReader::new(src, LineBreak::Crlf);
    let (out, res) = cons.drive(&mut r);
    res.map_err(|e| e.to_string())?;
    Ok(out)
}

/// digest the text-mode hasher produces for the given write chunks (v4, SHA-256, no subpackets)
fn hasher_digest(chunks: &[&[u8]]) -> Result<Vec<u8>, String> {
    let z = zoo::get(Kind::Ed25519V4);
    let key = &z.secret.primary_key;
    let cfg = SignatureConfig::v4(SignatureType::Text, key.algorithm(), HashAlgorithm::Sha256);
    let mut h = cfg.into_hasher().map_err(|e| e.to_string())?;
    for c in chunks {
        h.write_all(c).map_err(|e| e.to_string())?;
    }
    let signer = RecordingSigner::new(key, false);
    h.sign(&signer, &Password::empty()).map_err(|e| e.to_string())?;
    signer.last().ok_or_else(|| "signer not called".to_string())
}

fn ref_text_digest_v4(s: &[u8], pk: u8) -> Vec<u8> {
    hash_id(8, &[&canon(s), &v4_tail(0x01, pk, 8, &[])]).unwrap()
}

fn split_by_mask<'a>(s: &'a [u8], mask: u64) -> Vec<&'a [u8]> {
    let mut v = vec![];
    let mut start = 0;
    for i in 0..s.len() {
        if i + 1 < s.len() && (mask >> i) & 1 == 1 {
            v.push(&s[start..=i]);
            start = i + 1;
        }
    }
    if start < s.len() || s.is_empty() {
        v.push(&s[start..]);
    }
    v
}

fn exhaustive_case(t: &mut Tape, rec: &mut Rec, chunk_limit: usize) -> CaseResult {
    let idx = t.u64();
    let s = nth_string(idx);
    let n = s.len();
    let want = canon(&s);
    let has_nl = s.iter().any(|&b| b != b'x');
    if has_nl {
        rec.nontrivial(idx);
    }
    rec.label(format!("len={n}"));
    if s.last() == Some(&b'\r') {
        rec.label("ends-with-CR");
    }
    rec.describe(|| format!("string \"{}\" with all 2^{} chunkings; canon = \"{}\"", show(&s), n.saturating_sub(1), show(&want)));
    let pk = u8::from(zoo::get(Kind::Ed25519V4).secret.primary_key.algorithm());
    let want_digest = ref_text_digest_v4(&s, pk);
    let masks: u64 = if n <= 1 { 1 } else if n - 1 <= chunk_limit { 1u64 << (n - 1) } else { 1u64 << chunk_limit };
    let mut evals = 0u64;
    for mask in 0..masks {
        // for long strings with limited chunking budget spread the mask bits over the string
        let mask = if n >= 1 && n - 1 > chunk_limit { spread(mask, n - 1, chunk_limit) } else { mask };
        // (1) streaming reader under this source chunking, three consumers
        for cons in [Consumer::ReadToEnd, Consumer::Fixed(1), Consumer::Fixed(3)] {
            evals += 1;
            match reader_out(&s, Sched::composition(n, mask), cons) {
                Ok(o) => {
                    if o != want {
                        return fail("C14:reader-differs-from-canon", format!("s=\"{}\" source-cuts={mask:b} cons={cons:?}: got \"{}\" want \"{}\"", show(&s), show(&o), show(&want)));
                    }
                }
                Err(e) => return fail("C14:reader-error", e),
            }
        }
        // (2) streaming hasher under this write chunking
        evals += 1;
        let chunks = split_by_mask(&s, mask);
        match hasher_digest(&chunks) {
            Ok(d) => {
                if d != want_digest {
                    // localise: which text would produce this digest?
                    let alt = [canon(&[&s[..], b"\n"].concat()), s.clone()];
                    let hint = if d == hash_id(8, &[&alt[0], &v4_tail(0x01, pk, 8, &[])]).unwrap() {
                        "hasher digest equals the digest of canon(s + LF)"
                    } else if d == hash_id(8, &[&alt[1], &v4_tail(0x01, pk, 8, &[])]).unwrap() {
                        "hasher digest equals the digest of the un-normalised text"
                    } else {
                        "hasher digest matches no simple variant"
                    };
                    let sig = if s.last() == Some(&b'\r') && hint.starts_with("hasher digest equals the digest of canon(s + LF)") {
                        "C14:hasher-appends-LF-after-trailing-CR"
                    } else {
                        "C14:hasher-differs-from-canon"
                    };
                    return fail(sig, format!("s=\"{}\" write-cuts={mask:b}: {hint}", show(&s)));
                }
            }
            Err(e) => return fail("C14:hasher-error", e),
        }
    }
    // (3) in-memory normalisation observed through the cleartext framework callback
    evals += 1;
    let text = std::str::from_utf8(&s).unwrap();
    let mut seen: Option<Vec<u8>> = None;
    let r = CleartextSignedMessage::new_many(text, |norm| {
        seen = Some(norm.as_bytes().to_vec());
        Ok(vec![])
    });
    if let Err(e) = r {
        return fail("C14:new_many-error", e.to_string());
    }
    if seen.as_deref() != Some(&want[..]) {
        return fail("C14:in-memory-normalize-differs-from-canon", format!("s=\"{}\": got {:?}", show(&s), seen.map(|x| show(&x))));
    }
    rec.add_evals(evals.saturating_sub(1));
    Ok(())
}

/// place `bits` mask bits onto n cut positions (evenly)
fn spread(mask: u64, n: usize, bits: usize) -> u64 {
    let mut out = 0u64;
    for b in 0..bits {
        if (mask >> b) & 1 == 1 {
            out |= 1 << (b * n / bits);
        }
    }
    out
}

/// long strings with CR/LF material planted at the internal buffer edges
fn long_case(t: &mut Tape, rec: &mut Rec) -> CaseResult {
    let edge = *t.pick(&[512usize, 1024, 1536, 8192, 16384]);
    let total = edge + t.range(0, 700);
    let mut s = vec![b'x'; total];
    // background: sparse newlines
    let nb = t.range(0, 6);
    for _ in 0..nb {
        let p = t.below(total.max(1));
        s[p] = *t.pick(&[b'\r', b'\n']);
    }
    // plant a pattern of length 1..5 straddling the edge
    let plen = t.range(1, 5);
    let start = (edge + 2).saturating_sub(t.range(0, plen + 2) + 1).min(total.saturating_sub(plen));
    for i in 0..plen {
        if start + i < total {
            s[start + i] = SYM[t.below(3)];
        }
    }
    if t.chance(100) {
        *s.last_mut().unwrap() = b'\r';
        rec.label("ends-with-CR");
    }
    let want = canon(&s);
    rec.label(format!("edge={edge}"));
    rec.nontrivial((edge, start as i64 - edge as i64, s[start..(start + plen).min(total)].to_vec(), total - edge));
    rec.describe(|| format!("{} bytes, pattern \"{}\" at offset {} (edge {})", total, show(&s[start..(start + plen).min(total)]), start, edge));
    let edges = [edge, edge * 2, 512, 1024];
    let sched = Sched::draw(t, total, &edges);
    let cons = Consumer::draw(t);
    match reader_out(&s, sched.clone(), cons) {
        Ok(o) => crate::ensure_prop!(o == want, "C14:reader-differs-from-canon", "long input {}: first difference at {:?}, sched={} cons={cons:?}", show_long(&s), first_diff(&o, &want), sched.describe()),
        Err(e) => return fail("C14:reader-error", e),
    }
    // hasher with chunked writes
    let pk = u8::from(zoo::get(Kind::Ed25519V4).secret.primary_key.algorithm());
    let cut1 = t.below(total + 1);
    let cut2 = (edge + t.below(3)).saturating_sub(1).min(total);
    let (a, b) = (cut1.min(cut2), cut1.max(cut2));
    let chunks = [&s[..a], &s[a..b], &s[b..]];
    match hasher_digest(&chunks) {
        Ok(d) => {
            if d != ref_text_digest_v4(&s, pk) {
                let sig = if s.last() == Some(&b'\r') && d == ref_text_digest_v4(&[&s[..], b"\n"].concat(), pk) { "C14:hasher-appends-LF-after-trailing-CR" } else { "C14:hasher-differs-from-canon" };
                return fail(sig, format!("long input {} cuts at {a},{b}", show_long(&s)));
            }
        }
        Err(e) => return fail("C14:hasher-error", e),
    }
    Ok(())
}

fn first_diff(a: &[u8], b: &[u8]) -> Option<usize> {
    a.iter().zip(b.iter()).position(|(x, y)| x != y).or(if a.len() != b.len() { Some(a.len().min(b.len())) } else { None })
}

/// builder (text signature) + message reader: both sides' digests equal the reference
fn message_case(t: &mut Tape, rec: &mut Rec) -> CaseResult {
    let big = t.chance(60);
    let s: Vec<u8> = if big {
        let edge = 8192usize;
        let total = edge + t.range(0, 40);
        let mut s = vec![b'y'; total];
        let plen = t.range(1, 4);
        let start = edge - t.range(0, plen + 1).min(edge);
        for i in 0..plen {
            if start + i < total {
                s[start + i] = SYM[t.below(3)];
            }
        }
        s
    } else {
        let n = t.range(0, 12);
        (0..n).map(|_| SYM[t.below(3)]).collect()
    };
    rec.label(if big { "msg:8k-edge" } else { "msg:short" });
    if s.last() == Some(&b'\r') {
        rec.label("ends-with-CR");
    }
    rec.nontrivial(s.clone());
    rec.describe(|| format!("builder sign_text over \"{}\"", show_long(&s)));
    let z = zoo::get(Kind::Ed25519V4);
    let key = &z.secret.primary_key;
    let signer = RecordingSigner::new(key, true);
    let sched = Sched::draw(t, s.len(), &[8192, 512]);
    let mut b = MessageBuilder::from_reader("", SchedRead::new(s.clone(), sched));
    b.sign_text();
    b.sign_with_subpackets(&signer, Password::empty(), HashAlgorithm::Sha256, SubpacketConfig::UserDefined { hashed: vec![], unhashed: vec![] });
    let rng = ChaCha8Rng::seed_from_u64(7);
    let bytes = match b.to_vec(rng) {
        Ok(b) => b,
        Err(e) => return fail("C14:builder-error", e.to_string()),
    };
    let pk = u8::from(key.algorithm());
    let want = ref_text_digest_v4(&s, pk);
    let got = signer.last();
    if got.as_deref() != Some(&want[..]) {
        let sig = if s.last() == Some(&b'\r') && got.as_deref() == Some(&ref_text_digest_v4(&[&s[..], b"\n"].concat(), pk)[..]) { "C14:hasher-appends-LF-after-trailing-CR" } else { "C14:builder-text-digest-differs-from-canon" };
        rec.soft_fail(sig, format!("sign side, text \"{}\"", show_long(&s)));
    }
    // reader side
    let mut msg = match Message::from_bytes(&bytes[..]) {
        Ok(m) => m,
        Err(e) => return fail("C14:message-parse-error", e.to_string()),
    };
    let cons = Consumer::draw(t);
    let (data, res) = cons.drive(&mut msg);
    if let Err(e) = res {
        return fail("C14:message-read-error", e.to_string());
    }
    crate::ensure_prop!(data == s, "C14:message-payload-changed", "literal payload must not be normalised");
    let ver = RecordingVerifier::new(&z.public.primary_key, false);
    if let Err(e) = msg.verify(&ver) {
        return fail("C14:message-verify-error", e.to_string());
    }
    let got = ver.last();
    if got.as_deref() != Some(&want[..]) {
        let sig = if s.last() == Some(&b'\r') && got.as_deref() == Some(&ref_text_digest_v4(&[&s[..], b"\n"].concat(), pk)[..]) { "C14:hasher-appends-LF-after-trailing-CR" } else { "C14:reader-text-digest-differs-from-canon" };
        rec.soft_fail(sig, format!("verify side, text \"{}\" cons={cons:?}", show_long(&s)));
    }
    Ok(())
}

/// consequence: a text signature is invariant under LF<->CRLF conversion and under nothing else
fn invariance_case(t: &mut Tape, rec: &mut Rec) -> CaseResult {
    let idx = t.u64();
    let s = nth_string(idx);
    rec.describe(|| format!("detached text signature over \"{}\" vs LF/CRLF conversions and all single-symbol edits", show(&s)));
    if s.iter().any(|&b| b != b'x') {
        rec.nontrivial(idx);
    }
    let z = zoo::get(Kind::Ed25519V4);
    let rng = ChaCha8Rng::seed_from_u64(idx);
    let sig = match DetachedSignature::sign_text_data(rng, &z.secret.primary_key, &Password::empty(), HashAlgorithm::Sha256, &s[..]) {
        Ok(s) => s,
        Err(e) => return fail("C14:sign-error", e.to_string()),
    };
    let pubk = &z.public.primary_key;
    let c = canon(&s);
    // variants with the same canonical form must verify
    let lf: Vec<u8> = {
        // CRLF -> LF
        let mut o = vec![];
        let mut i = 0;
        while i < s.len() {
            if s[i] == b'\r' && s.get(i + 1) == Some(&b'\n') {
                o.push(b'\n');
                i += 2;
            } else {
                o.push(s[i]);
                i += 1;
            }
        }
        o
    };
    let mut evals = 0;
    for (name, v) in [("original", s.clone()), ("canon (LF->CRLF)", c.clone()), ("CRLF->LF", lf)] {
        if canon(&v) != c {
            continue;
        }
        evals += 1;
        if let Err(e) = sig.verify(pubk, &v) {
            let sigs = if s.last() == Some(&b'\r') { "C14:text-signature-over-trailing-CR-does-not-verify" } else { "C14:text-signature-not-invariant-under-line-ending-conversion" };
            rec.soft_fail(sigs, format!("s=\"{}\" variant {name} \"{}\": {e}", show(&s), show(&v)));
        }
    }
    // single-symbol edits that change the canonical form must not verify
    let mut edits: Vec<Vec<u8>> = vec![];
    for i in 0..=s.len() {
        for &sym in &SYM {
            let mut v = s.clone();
            v.insert(i, sym);
            edits.push(v);
        }
        if i < s.len() {
            let mut v = s.clone();
            v.remove(i);
            edits.push(v);
            for &sym in &SYM {
                if sym != s[i] {
                    let mut v = s.clone();
                    v[i] = sym;
                    edits.push(v);
                }
            }
        }
    }
    for v in edits {
        if canon(&v) == c {
            continue;
        }
        evals += 1;
        if sig.verify(pubk, &v).is_ok() {
            // the known trailing-CR defect makes s+"\n" verify for s ending in CR
            let sigs = if s.last() == Some(&b'\r') && canon(&v) == canon(&[&s[..], b"\n"].concat()) { "C14:text-signature-over-trailing-CR-verifies-other-text" } else { "C14:text-signature-verifies-different-canonical-text" };
            rec.soft_fail(sigs, format!("signed \"{}\", verified \"{}\"", show(&s), show(&v)));
        }
    }
    rec.add_evals(evals);
    Ok(())
}

/// Utf8/CRLF check of the builder accepts exactly canonical inputs, independent of chunking
fn crlf_check_case(t: &mut Tape, rec: &mut Rec) -> CaseResult {
    let idx = t.u64();
    let s = nth_string(idx);
    let n = s.len();
    let ok_expected = canon(&s) == s; // no bare LF
    rec.describe(|| format!("DataMode::Utf8 builder over \"{}\" under all source chunkings: expected {}", show(&s), if ok_expected { "accepted" } else { "rejected" }));
    if s.iter().any(|&b| b != b'x') {
        rec.nontrivial(idx);
    }
    rec.label(if ok_expected { "utf8mode:accept" } else { "utf8mode:reject" });
    let masks: u64 = if n <= 1 { 1 } else { 1u64 << (n - 1) };
    for mask in 0..masks {
        for from_bytes in [false, true] {
            if from_bytes && mask != 0 {
                continue;
            }
            let res = if from_bytes {
                let mut b = MessageBuilder::from_bytes("", s.clone());
                b.data_mode(DataMode::Utf8).map_err(|e| e.to_string()).and_then(|b2| {
                    let _ = b2;
                    Ok(())
                }).and_then(|_| b.to_vec(ChaCha8Rng::seed_from_u64(1)).map_err(|e| e.to_string()))
            } else {
                let mut b = MessageBuilder::from_reader("", SchedRead::new(s.clone(), Sched::composition(n, mask)));
                match b.data_mode(DataMode::Utf8) {
                    Err(e) => Err(e.to_string()),
                    Ok(_) => b.to_vec(ChaCha8Rng::seed_from_u64(1)).map_err(|e| e.to_string()),
                }
            };
            match (res, ok_expected) {
                (Ok(bytes), true) => {
                    // payload must come back unchanged
                    let mut m = Message::from_bytes(&bytes[..]).map_err(|e| crate::engine::Fail { sig: "C14:utf8-mode-output-unparseable".into(), detail: e.to_string() })?;
                    let mut out = vec![];
                    m.read_to_end(&mut out).map_err(|e| crate::engine::Fail { sig: "C14:utf8-mode-output-unreadable".into(), detail: e.to_string() })?;
                    crate::ensure_prop!(out == s, "C14:utf8-mode-payload-changed", "\"{}\" -> \"{}\"", show(&s), show(&out));
                }
                (Err(_), false) => {}
                (Ok(_), false) => return fail("C14:utf8-mode-accepts-bare-LF", format!("s=\"{}\" cuts={mask:b} from_bytes={from_bytes}", show(&s))),
                (Err(e), true) => return fail("C14:utf8-mode-rejects-canonical-text", format!("s=\"{}\" cuts={mask:b} from_bytes={from_bytes}: {e}", show(&s))),
            }
        }
    }
    rec.add_evals(masks);
    Ok(())
}

pub fn run(ctx: &Ctx) {
    ctx.set_rule("exhaustive: every string over {CR, LF, x} up to length L, each under every chunking (2^(n-1)) of source reads and hasher writes, three consumer patterns, plus the in-memory path; random long strings with CR/LF patterns planted on the 512/1024/8192-byte internal buffer edges; non-trivial = string contains CR or LF; distinct = the string (exhaustive groups) or (edge, offset, pattern, tail length)");
    ctx.assume("reference canon(): every LF not preceded by CR becomes CRLF, nothing else changes; reference digest = SHA-256(canon(s) || v4 trailer) computed with the sha2 crate directly");
    zoo::warm(&[Kind::Ed25519V4]);
    let lmax = ctx.tier.pick(8u32, 10);
    let climit = 9usize;
    ctx.group("exhaustive-reader-hasher-memory", Source::Indexed { count: count_strings(lmax) }, |t, rec| exhaustive_case(t, rec, climit));
    ctx.note("exhaustive_scope", serde_json::json!(format!("all {} strings over {{CR,LF,x}} of length 0..={}, all chunkings", count_strings(lmax), lmax)));
    let n = ctx.tier.pick(4000u64, 600_000);
    ctx.group("long-buffer-edges", Source::Random { n, tape_len: 96 }, long_case);
    let n = ctx.tier.pick(1500u64, 200_000);
    ctx.group("message-builder-and-reader-digests", Source::Random { n, tape_len: 64 }, message_case);
    let l2 = ctx.tier.pick(5u32, 7);
    ctx.group("signature-invariance", Source::Indexed { count: count_strings(l2) }, invariance_case);
    let l3 = ctx.tier.pick(7u32, 9);
    ctx.group("utf8-mode-crlf-check", Source::Indexed { count: count_strings(l3) }, crlf_check_case);
    let _ = Tier::Quick;
}
