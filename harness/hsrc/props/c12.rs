//! C12 — symmetric and KDF constructions match RFC 9580 (bidirectional differential against
//! R-crypto, which is anchored to the RFC 9580 appendix sample messages).

use std::io::Read;

use pgp::composed::{Message, PlainSessionKey, RawSessionKey};
use pgp::crypto::hash::HashAlgorithm;
use pgp::crypto::sym::SymmetricKeyAlgorithm;
use pgp::ser::Serialize;
use pgp::types::{Password, S2kParams, Seipdv1ReadMode, StringToKey};
use rand::{RngCore, SeedableRng};
use rand_chacha::ChaCha8Rng;

use crate::engine::{expand, fail, CaseResult, Ctx, Fail, Rec, Source, Tape};
use crate::io::Consumer;
use crate::msg::{Enc, MsgConfig, PwSpec, S2kKind, AEADS, AES, CIPHERS};
use crate::refimpl::crypto::{self as rc, S2k};
use crate::refimpl::keys::{self, Protection};
use crate::refimpl::pkesk;
use crate::refimpl::text::b64_decode_strict;
use crate::refimpl::wire;
use crate::zoo::{self, Kind};

fn f(sig: &str, d: impl Into<String>) -> Fail {
    Fail { sig: sig.to_string(), detail: d.into() }
}

/// anchor the reference to the RFC 9580 sample messages (A.9 - A.11): password "password"
fn selftest() {
    for (name, text) in [("eax", include_str!("../../../corpus/vectors/eax.msg")), ("ocb", include_str!("../../../corpus/vectors/ocb.msg")), ("gcm", include_str!("../../../corpus/vectors/gcm.msg"))] {
        let b64: String = text.lines().filter(|l| !l.starts_with("-----") && !l.is_empty() && !l.contains(':') && !l.starts_with('=')).collect();
        let bytes = b64_decode_strict(&b64).unwrap_or_else(|| panic!("vector {name}: base64"));
        let pk = wire::split_packets(&bytes).unwrap_or_else(|e| panic!("vector {name}: {e}"));
        assert_eq!(pk[0].tag, 3, "vector {name}");
        assert_eq!(pk[1].tag, 18, "vector {name}");
        let sk = rc::skesk_v6_decrypt(&pk[0].body, b"password").unwrap_or_else(|e| panic!("reference SKESKv6 fails on RFC vector {name}: {e}"));
        let pt = rc::seipdv2_decrypt(&sk, &pk[1].body).unwrap_or_else(|e| panic!("reference SEIPDv2 fails on RFC vector {name}: {e}"));
        let inner = wire::split_packets(&pt).unwrap();
        let (_, _, _, data) = wire::parse_literal(&inner[0].body).unwrap();
        assert_eq!(data, b"Hello, world!", "vector {name}");
    }
    // RFC 3394 4.1
    let kek: Vec<u8> = (0u8..16).collect();
    let data = hex::decode("00112233445566778899AABBCCDDEEFF").unwrap();
    let w = rc::aes_kw_wrap(7, &kek, &data);
    assert_eq!(hex::encode_upper(&w), "1FA68B0A8112B447AEF34BD8FB5A7B829D3E862371D2CFE5");
    assert_eq!(rc::aes_kw_unwrap(7, &kek, &w).unwrap(), data);
}

fn hash_alg(id: u8) -> HashAlgorithm {
    HashAlgorithm::from(id)
}

fn s2k_pair(t: &mut Tape, allow_argon: bool, max_coded: u8) -> (S2k, StringToKey) {
    let hash = *t.pick(&[8u8, 9, 10, 11, 2, 1, 3, 12, 14]);
    let mut salt = [0u8; 8];
    salt.copy_from_slice(&expand(t.u64(), 8));
    match t.below(if allow_argon { 5 } else { 4 }) {
        0 => (S2k::Simple { hash }, StringToKey::Simple { hash_alg: hash_alg(hash) }),
        1 => (S2k::Salted { hash, salt }, StringToKey::Salted { hash_alg: hash_alg(hash), salt }),
        2 | 3 => {
            let coded = t.below(max_coded as usize + 1) as u8;
            (S2k::Iterated { hash, salt, coded }, StringToKey::IteratedAndSalted { hash_alg: hash_alg(hash), salt, count: coded })
        }
        _ => {
            let mut s16 = [0u8; 16];
            s16.copy_from_slice(&expand(t.u64(), 16));
            let (tt, p) = (t.range(1, 2) as u8, t.range(1, 2) as u8);
            let m = t.range(4, 7) as u8;
            (S2k::Argon2 { salt: s16, t: tt, p, m_enc: m }, StringToKey::Argon2 { salt: s16, t: tt, p, m_enc: m })
        }
    }
}

fn draw_pw(t: &mut Tape, max: usize) -> Vec<u8> {
    match t.below(5) {
        0 => vec![],
        1 => b"password".to_vec(),
        2 => vec![0xff, 0x00, 0xfe, 0x80],
        _ => {
            let n = t.range(0, max);
            expand(t.u64(), n)
        }
    }
}

fn s2k_case(t: &mut Tape, rec: &mut Rec, coded: Option<u8>) -> CaseResult {
    let (r, p) = match coded {
        Some(c) => {
            let hash = *t.pick(&[8u8, 2, 10]);
            let mut salt = [0u8; 8];
            salt.copy_from_slice(&expand(t.u64(), 8));
            (S2k::Iterated { hash, salt, coded: c }, StringToKey::IteratedAndSalted { hash_alg: hash_alg(hash), salt, count: c })
        }
        None => s2k_pair(t, true, 40),
    };
    let ks = *t.pick(&[16usize, 24, 32]);
    // password lengths: drawn, plus (for every coded count with a modest octet count) the lengths
    // around "salt + password = octet count", where the whole-set rule of RFC 9580 3.7.1.3 kicks in
    let mut pws = vec![draw_pw(t, 200)];
    if let Some(c) = coded {
        let n = rc::decode_count(c);
        if n <= 300_000 {
            for d in [-10i64, -9, -8, -7, -1, 0, 1, 40] {
                let l = n as i64 + d;
                if l >= 0 {
                    pws.push(expand(t.u64() ^ d as u64, l as usize));
                }
            }
            rec.label("s2k:password-length-around-octet-count");
        }
    }
    rec.label(format!("s2k:{}", match r { S2k::Simple { .. } => "simple", S2k::Salted { .. } => "salted", S2k::Iterated { .. } => "iterated", S2k::Argon2 { .. } => "argon2" }));
    rec.describe(|| format!("S2K {r:?} key size {ks} password lengths {:?}", pws.iter().map(|p| p.len()).collect::<Vec<_>>()));
    for pw in &pws {
        rec.nontrivial((format!("{r:?}"), ks, pw.len()));
        let want = r.derive(pw, ks).map_err(|e| f("C12:reference-s2k-error", e))?;
        match p.derive_key(pw, ks) {
            Ok(k) => {
                crate::ensure_prop!(k.as_ref() as &[u8] == &want[..], "C12:s2k-derived-key-differs-from-rfc", "{r:?} key size {ks} password {} bytes", pw.len());
            }
            Err(e) => return fail("C12:s2k-derive-error", format!("{r:?}: {e}")),
        }
    }
    rec.add_evals(pws.len() as u64 - 1);
    Ok(())
}

fn sym_of(id: SymmetricKeyAlgorithm) -> u8 {
    u8::from(id)
}

fn seipdv1_case(t: &mut Tape, rec: &mut Rec) -> CaseResult {
    let alg = *t.pick(&CIPHERS);
    let id = sym_of(alg);
    let bs = rc::sym_block_size(id).unwrap();
    let len = match t.below(5) {
        0 => t.below(3),
        1 => bs * t.range(1, 3) + t.range(0, 2) - 1,
        2 => 8192 * t.range(1, 2) + t.range(0, 40) - 30,
        _ => t.below(3000),
    };
    let pt = expand(t.u64(), len);
    let key = expand(t.u64(), alg.key_size());
    rec.label(format!("seipdv1:{alg:?}"));
    rec.nontrivial(("v1", id, len));
    rec.describe(|| format!("SEIPDv1 {alg:?} plaintext {len} bytes"));
    let rng = ChaCha8Rng::from_seed(t.seed32());
    // rPGP -> reference (in-memory and streaming encryptors)
    let ct = alg.encrypt_protected(rng.clone(), &key, &pt).map_err(|e| f("C12:seipdv1-encrypt-error", e.to_string()))?;
    let mut body = vec![1u8];
    body.extend_from_slice(&ct);
    match rc::seipdv1_decrypt(id, &key, &body) {
        Ok(p) => crate::ensure_prop!(p == pt, "C12:seipdv1-ciphertext-not-rfc", "{alg:?} len {len}: reference decrypts to different plaintext"),
        Err(e) => return fail("C12:seipdv1-ciphertext-not-rfc", format!("encrypt_protected {alg:?} len {len}: reference cannot decrypt: {e}")),
    }
    let mut se = alg.stream_encryptor(rng, &key, &pt[..]).map_err(|e| f("C12:seipdv1-encrypt-error", e.to_string()))?;
    let cons = Consumer::draw(t);
    let (ct2, res) = cons.drive(&mut se);
    res.map_err(|e| f("C12:seipdv1-encrypt-error", e.to_string()))?;
    let mut body2 = vec![1u8];
    body2.extend_from_slice(&ct2);
    match rc::seipdv1_decrypt(id, &key, &body2) {
        Ok(p) => crate::ensure_prop!(p == pt, "C12:seipdv1-ciphertext-not-rfc", "stream {alg:?} len {len}: different plaintext"),
        Err(e) => return fail("C12:seipdv1-ciphertext-not-rfc", format!("stream_encryptor {alg:?} len {len} consumer {cons:?}: reference cannot decrypt: {e}")),
    }
    // reference -> rPGP (stream decryptor and message level)
    let rbody = rc::seipdv1_encrypt(id, &key, &expand(t.u64(), bs), &pt);
    let mut d = alg.stream_decryptor_protected(Seipdv1ReadMode::default(), &key, &rbody[1..]).map_err(|e| f("C12:seipdv1-decrypt-error", e.to_string()))?;
    let (p2, res) = Consumer::draw(t).drive(&mut d);
    if let Err(e) = res {
        return fail("C12:rfc-seipdv1-ciphertext-rejected", format!("{alg:?} len {len}: {e}"));
    }
    crate::ensure_prop!(p2 == pt, "C12:rfc-seipdv1-ciphertext-rejected", "{alg:?} len {len}: decrypted to different plaintext");
    // message level: the plaintext must be a packet stream
    let inner = wire::new_packet(11, &wire::literal_body(b'b', b"", 0, &pt));
    let mbody = rc::seipdv1_encrypt(id, &key, &expand(t.u64(), bs), &inner);
    let msg = wire::new_packet(18, &mbody);
    let m = Message::from_bytes(&msg[..]).and_then(|m| m.decrypt_with_session_key(PlainSessionKey::V3_4 { sym_alg: alg, key: RawSessionKey::from(key.clone()) }));
    match m {
        Ok(mut m) => {
            let mut out = vec![];
            if let Err(e) = m.read_to_end(&mut out) {
                return fail("C12:rfc-seipdv1-ciphertext-rejected", format!("message level {alg:?} len {len}: {e}"));
            }
            crate::ensure_prop!(out == pt, "C12:rfc-seipdv1-ciphertext-rejected", "message level: different plaintext");
        }
        Err(e) => return fail("C12:rfc-seipdv1-ciphertext-rejected", format!("message level {alg:?} len {len}: {e}")),
    }
    Ok(())
}

fn seipdv2_case(t: &mut Tape, rec: &mut Rec) -> CaseResult {
    let sym = *t.pick(&AES);
    let aead = *t.pick(&AEADS);
    let cs = if t.chance(30) { t.range(7, 16) as u8 } else { t.range(0, 6) as u8 };
    let chunk = 1usize << (cs as usize + 6);
    let unit = chunk.min(8192);
    let len = match t.below(5) {
        0 => t.below(3),
        1 | 2 => (unit * t.range(1, 3) + t.range(0, 20)).saturating_sub(12),
        _ => t.below(3 * unit + 10),
    };
    let payload = expand(t.u64(), len);
    rec.label(format!("seipdv2:{aead:?}/{sym:?}"));
    rec.label(format!("seipdv2:chunk=2^{}", cs as usize + 6));
    rec.nontrivial(("v2", sym_of(sym), u8::from(aead), cs, len));
    rec.describe(|| format!("SEIPDv2 {sym:?} {aead:?} chunk 2^{} payload {len}", cs as usize + 6));
    // rPGP -> reference
    let mut cfg = MsgConfig::plain();
    cfg.enc = Enc::V2(sym, aead, cs);
    cfg.seed = t.seed32();
    let sk = cfg.session_key();
    let bytes = cfg.build(&payload).map_err(|e| f("C12:builder-error", e.to_string()))?;
    let pk = wire::split_packets(&bytes).map_err(|e| f("C12:builder-output-does-not-deframe", e))?;
    let seipd = pk.iter().find(|p| p.tag == 18).ok_or_else(|| f("C12:builder-output-does-not-deframe", "no SEIPD"))?;
    match rc::seipdv2_decrypt(&sk, &seipd.body) {
        Ok(pt) => {
            let inner = wire::split_packets(&pt).map_err(|e| f("C12:seipdv2-ciphertext-not-rfc", format!("inner stream: {e}")))?;
            let lit = wire::parse_literal(&inner[0].body).ok_or_else(|| f("C12:seipdv2-ciphertext-not-rfc", "inner literal"))?;
            crate::ensure_prop!(lit.3 == payload, "C12:seipdv2-ciphertext-not-rfc", "reference decrypts to a different payload");
        }
        Err(e) => return fail("C12:seipdv2-ciphertext-not-rfc", format!("{sym:?} {aead:?} chunk 2^{} len {len}: reference cannot decrypt rPGP output: {e}", cs as usize + 6)),
    }
    // reference -> rPGP
    let inner = wire::new_packet(11, &wire::literal_body(b'b', b"", 0, &payload));
    let mut salt = [0u8; 32];
    salt.copy_from_slice(&expand(t.u64(), 32));
    let body = rc::seipdv2_encrypt(sym_of(sym), u8::from(aead), cs, &salt, &sk, &inner).map_err(|e| f("C12:reference-error", e))?;
    let msg = wire::new_packet(18, &body);
    let m = Message::from_bytes(&msg[..]).and_then(|m| m.decrypt_with_session_key(PlainSessionKey::V6 { key: RawSessionKey::from(sk.clone()) }));
    match m {
        Ok(mut m) => {
            let (out, res) = Consumer::draw(t).drive(&mut m);
            if let Err(e) = res {
                return fail("C12:rfc-seipdv2-ciphertext-rejected", format!("{sym:?} {aead:?} chunk 2^{} len {len}: {e}", cs as usize + 6));
            }
            crate::ensure_prop!(out == payload, "C12:rfc-seipdv2-ciphertext-rejected", "different payload");
        }
        Err(e) => return fail("C12:rfc-seipdv2-ciphertext-rejected", format!("{sym:?} {aead:?}: {e}")),
    }
    Ok(())
}

fn skesk_case(t: &mut Tape, rec: &mut Rec) -> CaseResult {
    let v6 = t.bool();
    let payload = expand(t.u64(), t.range(0, 100));
    let pw = draw_pw(t, 60);
    let mut cfg = MsgConfig::plain();
    cfg.seed = t.seed32();
    let s2k_kind = *t.pick(&[S2kKind::Salted, S2kKind::Iterated(0), S2kKind::Iterated(40), S2kKind::Argon2]);
    cfg.passwords = vec![PwSpec { pw: pw.clone(), s2k: s2k_kind }];
    let sym = if v6 { *t.pick(&AES) } else { *t.pick(&CIPHERS) };
    let aead = *t.pick(&AEADS);
    cfg.enc = if v6 { Enc::V2(sym, aead, 0) } else { Enc::V1(sym) };
    rec.label(if v6 { "skesk:v6" } else { "skesk:v4" });
    rec.label(format!("skesk:s2k={s2k_kind:?}"));
    rec.nontrivial((v6, sym_of(sym), format!("{s2k_kind:?}"), pw.len()));
    rec.describe(|| format!("SKESK v{} {sym:?} {aead:?} s2k {s2k_kind:?} password {} bytes", if v6 { 6 } else { 4 }, pw.len()));
    let sk = cfg.session_key();
    let bytes = cfg.build(&payload).map_err(|e| f("C12:builder-error", e.to_string()))?;
    let pk = wire::split_packets(&bytes).map_err(|e| f("C12:builder-output-does-not-deframe", e))?;
    let sk_pkt = pk.iter().find(|p| p.tag == 3).ok_or_else(|| f("C12:builder-output-does-not-deframe", "no SKESK"))?;
    // rPGP -> reference
    if v6 {
        match rc::skesk_v6_decrypt(&sk_pkt.body, &pw) {
            Ok(k) => crate::ensure_prop!(k == sk, "C12:skesk-v6-not-rfc", "reference unwraps a different session key"),
            Err(e) => return fail("C12:skesk-v6-not-rfc", format!("reference cannot unwrap rPGP's SKESK v6 ({sym:?} {aead:?} {s2k_kind:?}): {e}")),
        }
    } else {
        match rc::skesk_v4_decrypt(&sk_pkt.body, &pw) {
            Ok((alg, k)) => crate::ensure_prop!(alg == sym_of(sym) && k == sk, "C12:skesk-v4-not-rfc", "reference unwraps cipher {alg} / different session key"),
            Err(e) => return fail("C12:skesk-v4-not-rfc", format!("reference cannot unwrap rPGP's SKESK v4 ({sym:?} {s2k_kind:?}): {e}")),
        }
    }
    // reference -> rPGP: SKESK by the reference, container by the reference
    // rPGP's documented policy: no simple S2K and no MD5/SHA-1/RIPEMD-160 based S2K for message passwords
    // (bounded: an exhausted tape keeps drawing the same refused specifier)
    let mut tries = 0;
    let rs2k = loop {
        let (r, _) = s2k_pair(t, v6, 30);
        let weak = matches!(r, S2k::Simple { .. }) || matches!(r, S2k::Salted { hash, .. } | S2k::Iterated { hash, .. } if matches!(hash, 1 | 2 | 3));
        if !weak {
            break r;
        }
        tries += 1;
        if tries > 32 {
            break S2k::Iterated { hash: 8, salt: [7; 8], coded: 0 };
        }
    };
    let inner = wire::new_packet(11, &wire::literal_body(b'b', b"", 0, &payload));
    let msg = if v6 {
        let iv = expand(t.u64(), rc::aead_nonce_len(u8::from(aead)).unwrap());
        let skb = rc::skesk_v6_encrypt(sym_of(sym), u8::from(aead), &rs2k, &pw, &iv, &sk).map_err(|e| f("C12:reference-error", e))?;
        let mut salt = [0u8; 32];
        salt.copy_from_slice(&expand(t.u64(), 32));
        let body = rc::seipdv2_encrypt(sym_of(sym), u8::from(aead), 0, &salt, &sk, &inner).map_err(|e| f("C12:reference-error", e))?;
        [wire::new_packet(3, &skb), wire::new_packet(18, &body)].concat()
    } else {
        let with_esk = t.bool();
        let (skb, key) = if with_esk {
            (rc::skesk_v4_encrypt(sym_of(sym), &rs2k, &pw, Some((sym_of(sym), &sk))).map_err(|e| f("C12:reference-error", e))?, sk.clone())
        } else {
            let k = rs2k.derive(&pw, sym.key_size()).map_err(|e| f("C12:reference-error", e))?;
            (rc::skesk_v4_encrypt(sym_of(sym), &rs2k, &pw, None).map_err(|e| f("C12:reference-error", e))?, k)
        };
        rec.label(if with_esk { "skesk:v4-with-esk" } else { "skesk:v4-derived-key" });
        let body = rc::seipdv1_encrypt(sym_of(sym), &key, &expand(t.u64(), rc::sym_block_size(sym_of(sym)).unwrap()), &inner);
        [wire::new_packet(3, &skb), wire::new_packet(18, &body)].concat()
    };
    let m = Message::from_bytes(&msg[..]).and_then(|m| m.decrypt_with_password(&Password::from(&pw[..])));
    match m {
        Ok(mut m) => {
            let mut out = vec![];
            if let Err(e) = m.read_to_end(&mut out) {
                return fail("C12:rfc-skesk-message-rejected", format!("v{} {sym:?} s2k {rs2k:?}: {e}", if v6 { 6 } else { 4 }));
            }
            crate::ensure_prop!(out == payload, "C12:rfc-skesk-message-rejected", "different payload");
        }
        Err(e) => return fail("C12:rfc-skesk-message-rejected", format!("v{} {sym:?} s2k {rs2k:?} pw {} bytes: {e}", if v6 { 6 } else { 4 }, pw.len())),
    }
    Ok(())
}

/// unlock a protected secret key body with the reference
pub fn ref_unlock(kb: &keys::KeyBody, tag: u8, pw: &[u8]) -> Result<Vec<u8>, String> {
    match kb.protection.as_ref().ok_or("public key")? {
        Protection::Plain { .. } => keys::plain_material(kb.version, kb.protection.as_ref().unwrap()).ok_or_else(|| "short".to_string()),
        Protection::Cfb { sha1, sym, s2k, iv, ct } => {
            let key = s2k.derive(pw, rc::sym_key_size(*sym).ok_or("sym")?)?;
            rc::secret_cfb_decrypt(*sym, &key, iv, ct, *sha1)
        }
        Protection::Legacy { sym, iv, ct } => {
            use digest::Digest;
            let key = md5::Md5::digest(pw);
            rc::secret_cfb_decrypt(*sym, &key[..rc::sym_key_size(*sym).ok_or("sym")?.min(16)], iv, ct, false)
        }
        Protection::Aead { sym, aead, s2k, nonce, ct } => rc::secret_aead_crypt(0xC0 | tag, kb.version, *sym, *aead, s2k, pw, nonce, &kb.public_body, ct, false),
    }
}

fn seckey_case(t: &mut Tape, rec: &mut Rec) -> CaseResult {
    let kind = *t.pick(&[Kind::Ed25519V4, Kind::Ed25519V6, Kind::P256V4, Kind::EdLegacyV4, Kind::RsaV4, Kind::Ed448V6, Kind::RsaV6]);
    let z = zoo::get(kind);
    let v6 = kind.is_v6();
    let pw = draw_pw(t, 40);
    let mut rng = ChaCha8Rng::from_seed(t.seed32());
    let aead_mode = t.chance(if v6 { 170 } else { 90 });
    let sym = if aead_mode { *t.pick(&AES) } else { *t.pick(&CIPHERS) };
    let mut tries = 0;
    let (rs2k, ps2k) = loop {
        tries += 1;
        if tries > 32 {
            // (bounded: an exhausted tape keeps drawing the same refused specifier)
            break (S2k::Iterated { hash: 8, salt: [7; 8], coded: 0 }, StringToKey::IteratedAndSalted { hash_alg: hash_alg(8), salt: [7; 8], count: 0 });
        }
        let (r, p) = s2k_pair(t, aead_mode, 30);
        // combinations rPGP documents as refused: simple/salted with AEAD, weak hashes, v6 + simple
        let weak = matches!(r, S2k::Simple { hash, .. } | S2k::Salted { hash, .. } | S2k::Iterated { hash, .. } if matches!(hash, 1 | 2 | 3));
        if weak {
            continue;
        }
        if aead_mode && !matches!(r, S2k::Argon2 { .. } | S2k::Iterated { .. }) {
            continue;
        }
        if v6 && matches!(r, S2k::Simple { .. }) {
            continue;
        }
        break (r, p);
    };
    let aead = *t.pick(&AEADS);
    let params = if aead_mode {
        let mut nonce = vec![0u8; aead.nonce_size()];
        rng.fill_bytes(&mut nonce);
        S2kParams::Aead { sym_alg: sym, aead_mode: aead, s2k: ps2k, nonce: nonce.into() }
    } else {
        let mut iv = vec![0u8; sym.block_size()];
        rng.fill_bytes(&mut iv);
        S2kParams::Cfb { sym_alg: sym, s2k: ps2k, iv: iv.into() }
    };
    rec.label(format!("seckey:{}", if aead_mode { "usage253" } else { "usage254" }));
    rec.label(format!("seckey:key={kind:?}"));
    rec.nontrivial((format!("{kind:?}"), aead_mode, sym_of(sym), format!("{rs2k:?}").len(), pw.len()));
    rec.describe(|| format!("{kind:?} locked with {} {sym:?} {aead:?} s2k {rs2k:?}", if aead_mode { "AEAD(253)" } else { "CFB(254)" }));
    let primary = t.bool();
    // plain reference material
    let (plain_body, tag): (Vec<u8>, u8) = if primary || z.secret.secret_subkeys.is_empty() { (z.secret.primary_key.to_bytes().unwrap(), 5) } else { (z.secret.secret_subkeys[0].key.to_bytes().unwrap(), 7) };
    let plain_kb = keys::parse_key(&plain_body, true).ok_or_else(|| f("C12:reference-key-parse", "plain key body"))?;
    let plain = keys::plain_material(plain_kb.version, plain_kb.protection.as_ref().unwrap()).unwrap();
    // rPGP locks -> reference unlocks
    let locked_body = if tag == 5 {
        let mut k = z.secret.primary_key.clone();
        k.set_password_with_s2k(&Password::from(&pw[..]), params.clone()).map_err(|e| f("C12:lock-error", e.to_string()))?;
        k.to_bytes().unwrap()
    } else {
        let mut k = z.secret.secret_subkeys[0].key.clone();
        k.set_password_with_s2k(&Password::from(&pw[..]), params.clone()).map_err(|e| f("C12:lock-error", e.to_string()))?;
        k.to_bytes().unwrap()
    };
    let kb = keys::parse_key(&locked_body, true).ok_or_else(|| f("C12:locked-key-not-rfc", "reference cannot parse the locked key packet"))?;
    match ref_unlock(&kb, tag, &pw) {
        Ok(m) => crate::ensure_prop!(m == plain, "C12:locked-key-not-rfc", "reference unlocks different secret material"),
        Err(e) => return fail("C12:locked-key-not-rfc", format!("reference cannot unlock rPGP's {} protection ({sym:?} {aead:?} {rs2k:?}): {e}", if aead_mode { "AEAD" } else { "CFB" })),
    }
    // reference locks -> rPGP unlocks
    let prot = if aead_mode {
        let nonce = expand(t.u64(), rc::aead_nonce_len(u8::from(aead)).unwrap());
        let ct = rc::secret_aead_crypt(0xC0 | tag, plain_kb.version, sym_of(sym), u8::from(aead), &rs2k, &pw, &nonce, &plain_kb.public_body, &plain, true).map_err(|e| f("C12:reference-error", e))?;
        Protection::Aead { sym: sym_of(sym), aead: u8::from(aead), s2k: rs2k.clone(), nonce, ct }
    } else {
        let iv = expand(t.u64(), sym.block_size());
        let ct = rc::secret_cfb_encrypt(sym_of(sym), &rs2k, &pw, &iv, &plain, true).map_err(|e| f("C12:reference-error", e))?;
        Protection::Cfb { sha1: true, sym: sym_of(sym), s2k: rs2k.clone(), iv, ct }
    };
    let mut body = plain_kb.public_body.clone();
    body.extend_from_slice(&keys::encode_protection(plain_kb.version, &prot));
    let pkt = wire::new_packet(tag, &body);
    let parsed = pgp::packet::PacketParser::new(&pkt[..]).next();
    let unlocked = match parsed {
        Some(Ok(pgp::packet::Packet::SecretKey(mut k))) => k.remove_password(&Password::from(&pw[..])).map(|_| k.to_bytes().unwrap()).map_err(|e| e.to_string()),
        Some(Ok(pgp::packet::Packet::SecretSubkey(mut k))) => k.remove_password(&Password::from(&pw[..])).map(|_| k.to_bytes().unwrap()).map_err(|e| e.to_string()),
        Some(Ok(_)) => Err("parsed as a different packet".into()),
        Some(Err(e)) => Err(format!("parse: {e}")),
        None => Err("no packet".into()),
    };
    match unlocked {
        Ok(b) => crate::ensure_prop!(b == plain_body, "C12:rfc-locked-key-rejected", "rPGP unlocks the reference-locked key to different material"),
        Err(e) => return fail("C12:rfc-locked-key-rejected", format!("{kind:?} {} {sym:?} {aead:?} {rs2k:?}: {e}", if aead_mode { "AEAD" } else { "CFB" })),
    }
    Ok(())
}

fn pkesk_case(t: &mut Tape, rec: &mut Rec, kinds: &[Kind]) -> CaseResult {
    let kind = *t.pick(kinds);
    let z = zoo::get(kind);
    let v2 = t.bool();
    let sym = if v2 { *t.pick(&AES) } else { *t.pick(&CIPHERS) };
    let payload = expand(t.u64(), t.range(0, 50));
    let mut cfg = MsgConfig::plain();
    cfg.seed = t.seed32();
    cfg.enc = if v2 { Enc::V2(sym, pgp::crypto::aead::AeadAlgorithm::Ocb, 0) } else { Enc::V1(sym) };
    cfg.recipients = vec![(kind, t.chance(60))];
    rec.label(format!("pkesk:{kind:?}:v{}", if v2 { 6 } else { 3 }));
    rec.nontrivial((format!("{kind:?}"), v2, sym_of(sym)));
    rec.describe(|| format!("PKESK v{} to {kind:?} session key for {sym:?}", if v2 { 6 } else { 3 }));
    let sk = cfg.session_key();
    let bytes = cfg.build(&payload).map_err(|e| f("C12:builder-error", e.to_string()))?;
    let pk = wire::split_packets(&bytes).map_err(|e| f("C12:builder-output-does-not-deframe", e))?;
    let pkt = pk.iter().find(|p| p.tag == 1).ok_or_else(|| f("C12:builder-output-does-not-deframe", "no PKESK"))?;
    let sub = &z.secret.secret_subkeys[0].key;
    let sub_body = sub.to_bytes().unwrap();
    let kb = keys::parse_key(&sub_body, true).ok_or_else(|| f("C12:reference-key-parse", format!("{kind:?} subkey")))?;
    let fp = rc::fingerprint(kb.version, &kb.public_body);
    let pb = pkesk::parse_pkesk(&pkt.body).ok_or_else(|| f("C12:pkesk-not-rfc", "reference cannot parse the PKESK"))?;
    // rPGP -> reference
    match pkesk::pkesk_decrypt(&pb, &kb, &fp) {
        Ok((alg, k)) => {
            crate::ensure_prop!(k == sk, "C12:pkesk-not-rfc", "{kind:?}: reference recovers a different session key");
            if !v2 {
                crate::ensure_prop!(alg == Some(sym_of(sym)), "C12:pkesk-not-rfc", "{kind:?}: cipher octet {alg:?}");
            }
        }
        Err(e) => return fail("C12:pkesk-not-rfc", format!("{kind:?} v{}: reference cannot decrypt rPGP's PKESK: {e}", if v2 { 6 } else { 3 })),
    }
    // reference -> rPGP (where the reference implements encryption)
    if matches!(kb.alg, 25) || (kb.alg == 18 && matches!(kind, Kind::EdLegacyV4 | Kind::P256V4 | Kind::EdLegacyV4B | Kind::P256V4B)) {
        let fields = pkesk::pkesk_encrypt(if v2 { 6 } else { 3 }, &kb, &fp, sym_of(sym), &sk, t.seed32()).map_err(|e| f("C12:reference-error", e))?;
        let mut body = vec![if v2 { 6u8 } else { 3 }];
        if v2 {
            body.push((fp.len() + 1) as u8);
            body.push(kb.version);
            body.extend_from_slice(&fp);
        } else {
            body.extend_from_slice(&rc::key_id(kb.version, &fp));
        }
        body.push(kb.alg);
        body.extend_from_slice(&fields);
        let inner = wire::new_packet(11, &wire::literal_body(b'b', b"", 0, &payload));
        let container = if v2 {
            let mut salt = [0u8; 32];
            salt.copy_from_slice(&expand(t.u64(), 32));
            rc::seipdv2_encrypt(sym_of(sym), 2, 0, &salt, &sk, &inner).map_err(|e| f("C12:reference-error", e))?
        } else {
            rc::seipdv1_encrypt(sym_of(sym), &sk, &expand(t.u64(), rc::sym_block_size(sym_of(sym)).unwrap()), &inner)
        };
        let msg = [wire::new_packet(1, &body), wire::new_packet(18, &container)].concat();
        let m = Message::from_bytes(&msg[..]).and_then(|m| m.decrypt(&Password::empty(), &z.secret));
        match m {
            Ok(mut m) => {
                let mut out = vec![];
                if let Err(e) = m.read_to_end(&mut out) {
                    return fail("C12:rfc-pkesk-message-rejected", format!("{kind:?}: {e}"));
                }
                crate::ensure_prop!(out == payload, "C12:rfc-pkesk-message-rejected", "different payload");
            }
            Err(e) => return fail("C12:rfc-pkesk-message-rejected", format!("{kind:?} v{}: {e}", if v2 { 6 } else { 3 })),
        }
        rec.label("pkesk:reference-to-rpgp");
    }
    Ok(())
}

pub fn run(ctx: &Ctx) {
    ctx.set_rule("bidirectional differential against an independent composition of the RustCrypto primitives (R-crypto), itself checked at start-up against the RFC 9580 sample messages A.9-A.11 and the RFC 3394 vector: S2K (every coded count 0..255 x hash x key size x password length, simple/salted/argon2), SEIPDv1 (11 ciphers, lengths around block/8 KiB edges; in-memory, streaming and message level), SEIPDv2 (9 cipher/AEAD pairs x chunk sizes x 0..3 chunks), SKESK v4 (derived and encrypted session key) and v6, secret-key protection CFB(254)/AEAD(253), PKESK v3/v6 for RSA, ECDH (cv25519, P-256/384/521), X25519, X448; both directions wherever the reference implements them; non-trivial = every parameter point; distinct = (construction, parameter tuple)");
    ctx.assume("RustCrypto primitives (block ciphers, hashes, HKDF, AEAD modes, argon2, curves) are trusted; CFB, OpenPGP framing, key wrap, KDF parameter strings and padding are written by hand from the RFC");
    selftest();
    ctx.note("reference_selftest", serde_json::json!("RFC 9580 A.9/A.10/A.11 sample messages decrypted by the reference alone; RFC 3394 4.1 vector"));
    ctx.group("s2k-every-coded-count", Source::Indexed { count: 256 }, |t, rec| {
        let c = t.u64() as u8;
        let sub = expand(ctx.seed ^ (c as u64) << 8, 64);
        let mut t2 = Tape::new(&sub);
        s2k_case(&mut t2, rec, Some(c))
    });
    let n = ctx.tier.pick(3000u64, 300_000);
    ctx.group("s2k-random", Source::Random { n, tape_len: 96 }, |t, rec| s2k_case(t, rec, None));
    let n = ctx.tier.pick(3000u64, 300_000);
    ctx.group("seipdv1", Source::Random { n, tape_len: 128 }, seipdv1_case);
    ctx.group("seipdv2", Source::Random { n, tape_len: 128 }, seipdv2_case);
    let n = ctx.tier.pick(2000u64, 200_000);
    ctx.group("skesk", Source::Random { n, tape_len: 320 }, skesk_case);
    zoo::warm(&[Kind::Ed25519V4, Kind::Ed25519V6, Kind::P256V4, Kind::EdLegacyV4, Kind::RsaV4, Kind::Ed448V6, Kind::RsaV6]);
    ctx.group("secret-key-protection", Source::Random { n, tape_len: 400 }, seckey_case);
    zoo::warm(zoo::ALL_RECIPIENTS);
    let cheap = [Kind::EdLegacyV4, Kind::Ed25519V4, Kind::Ed25519V6, Kind::P256V4];
    ctx.group("pkesk-cheap", Source::Random { n, tape_len: 160 }, |t, rec| pkesk_case(t, rec, &cheap));
    let n = ctx.tier.pick(300u64, 30_000);
    ctx.group("pkesk-all-algorithms", Source::Random { n, tape_len: 160 }, |t, rec| pkesk_case(t, rec, zoo::ALL_RECIPIENTS));
}
