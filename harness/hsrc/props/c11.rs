//! C11 — signed digests are exactly those RFC 9580 §5.2.4 prescribes.
//!
//! Sign side: the public signing APIs are driven with a recording signer; the digest they hand to
//! the key must equal H(salt ‖ content framing ‖ hashed fields ‖ trailer) computed by the
//! reference from the *emitted* signature packet (decoded by R-wire). Verify side: the same
//! packet is verified through rPGP with a recording verifier; the digest it computes must equal
//! the reference as well. Reference-made Ed25519 signatures must verify through rPGP.

use pgp::crypto::hash::HashAlgorithm;
use pgp::packet::{Notation, Packet, PacketParser, Signature, SignatureConfig, SignatureType, Subpacket, SubpacketData, UserAttribute, UserId};
use pgp::ser::Serialize;
use pgp::types::{KeyDetails, KeyVersion, Password, SigningKey, Tag, Timestamp};
use rand::SeedableRng;
use rand_chacha::ChaCha8Rng;

use crate::engine::{expand, fail, CaseResult, Ctx, Fail, Rec, Source, Tape};
use crate::recsign::{RecordingSigner, RecordingVerifier};
use crate::refimpl::crypto as rc;
use crate::refimpl::keys;
use crate::refimpl::sigdigest::{key_framing, uid_framing};
use crate::refimpl::sigparse::{parse_sig, SigFields};
use crate::refimpl::text::canon;
use crate::refimpl::wire;
use crate::zoo::{self, Kind};

fn f(sig: &str, d: impl Into<String>) -> Fail {
    Fail { sig: sig.to_string(), detail: d.into() }
}

fn draw_hashed(t: &mut Tape, key: &impl KeyDetails, big: bool, v6: bool) -> Vec<Subpacket> {
    let mut v = vec![];
    let n = t.below(7);
    for _ in 0..n {
        let d = match t.below(12) {
            0 => SubpacketData::SignatureCreationTime(Timestamp::from_secs(t.u32())),
            1 => SubpacketData::IssuerFingerprint(key.fingerprint()),
            2 => SubpacketData::IssuerKeyId(key.legacy_key_id()),
            3 => SubpacketData::PolicyURI("https://é.example/policy".into()),
            4 => SubpacketData::PreferredKeyServer("hkps://keys.example.org".into()),
            5 => SubpacketData::IsPrimary(t.bool()),
            6 => SubpacketData::Revocable(t.bool()),
            7 => SubpacketData::ExportableCertification(t.bool()),
            8 => SubpacketData::SignersUserID(expand(t.u64(), t.range(0, 40)).into()),
            9 => SubpacketData::TrustSignature(t.u8(), t.u8()),
            10 => SubpacketData::Notation(Notation { readable: t.bool(), name: "n@example.org".into(), value: expand(t.u64(), t.range(0, 300)).into() }),
            _ => SubpacketData::Notation(Notation { readable: false, name: "big@example.org".into(), value: expand(t.u64(), if big { *t.pick(&[190usize, 16300, 16400, 40_000]) } else { 100 }).into() }),
        };
        if let Ok(mut sp) = Subpacket::regular(d) {
            sp.is_critical = t.chance(40);
            v.push(sp);
        }
    }
    if big && v6 && t.bool() {
        // push the hashed area beyond 64 KiB so that the 4-octet count of v6 is exercised
        for _ in 0..2 {
            if let Ok(sp) = Subpacket::regular(SubpacketData::Notation(Notation { readable: false, name: "huge@example.org".into(), value: expand(t.u64(), 40_000).into() })) {
                v.push(sp);
            }
        }
    }
    v
}

fn pub_body(kind: Kind, sub: bool) -> (Vec<u8>, u8) {
    let z = zoo::get(kind);
    if sub && !z.public.public_subkeys.is_empty() {
        (z.public.public_subkeys[0].key.to_bytes().unwrap(), if kind.is_v6() { 6 } else { 4 })
    } else {
        (z.public.primary_key.to_bytes().unwrap(), if kind.is_v6() { 6 } else { 4 })
    }
}

#[derive(Clone, Copy, Debug, PartialEq)]
enum What {
    Binary,
    Text,
    CertUid(u8),
    CertAttr(u8),
    SubkeyBinding,
    SubkeyRevocation,
    PrimaryBinding,
    DirectKey,
    KeyRevocation,
}

fn sig_type(w: What) -> SignatureType {
    match w {
        What::Binary => SignatureType::Binary,
        What::Text => SignatureType::Text,
        What::CertUid(t) | What::CertAttr(t) => SignatureType::from(t),
        What::SubkeyBinding => SignatureType::SubkeyBinding,
        What::SubkeyRevocation => SignatureType::SubkeyRevocation,
        What::PrimaryBinding => SignatureType::KeyBinding,
        What::DirectKey => SignatureType::Key,
        What::KeyRevocation => SignatureType::KeyRevocation,
    }
}

fn matrix_case(t: &mut Tape, rec: &mut Rec, signers: &[Kind]) -> CaseResult {
    let signer_kind = *t.pick(signers);
    let z = zoo::get(signer_kind);
    let v6 = signer_kind.is_v6();
    let what = match t.below(12) {
        0 | 1 => What::Binary,
        2 | 3 => What::Text,
        4 | 5 => What::CertUid(*t.pick(&[0x10u8, 0x11, 0x12, 0x13, 0x30])),
        6 => What::CertAttr(*t.pick(&[0x10u8, 0x13, 0x30])),
        7 => What::SubkeyBinding,
        8 => What::SubkeyRevocation,
        9 => What::PrimaryBinding,
        10 => What::DirectKey,
        _ => What::KeyRevocation,
    };
    let hash = *t.pick(signer_kind.hashes());
    let big = t.chance(20);
    let mut rng = ChaCha8Rng::from_seed(t.seed32());
    let key = &z.secret.primary_key;
    let mut cfg = if v6 { SignatureConfig::v6(&mut rng, sig_type(what), key.algorithm(), hash).map_err(|e| f("C11:config-error", e.to_string()))? } else { SignatureConfig::v4(sig_type(what), key.algorithm(), hash) };
    cfg.hashed_subpackets = draw_hashed(t, key, big, v6);
    cfg.unhashed_subpackets = if t.bool() { vec![Subpacket::regular(SubpacketData::IssuerKeyId(key.legacy_key_id())).unwrap()] } else { vec![] };
    // the other key involved (same version as the signer: cross-version framing is not asserted)
    let same_version: Vec<Kind> = zoo::ALL.iter().copied().filter(|k| k.is_v6() == v6).collect();
    let other_kind = *t.pick(&same_version);
    let other = zoo::get(other_kind);
    rec.label(format!("type:{:#04x}", u8::from(sig_type(what))));
    rec.label(format!("sigversion:{}", if v6 { 6 } else { 4 }));
    rec.label(format!("hash:{hash:?}"));
    rec.label(format!("signer:{signer_kind:?}"));
    if big {
        rec.label("hashed-area:big");
    }
    let signer = RecordingSigner::new(key, false);
    let pw = Password::empty();
    let uid_text = match t.below(4) {
        0 => String::new(),
        1 => "Ünïcödé <u@example.org>".to_string(),
        2 => "x".repeat(t.range(200, 700)),
        _ => "Alice <alice@example.org>".to_string(),
    };
    let uid = UserId::from_str(Default::default(), &uid_text).map_err(|e| f("C11:uid-error", e.to_string()))?;
    // user attribute: made by the API, or parsed from a wire form whose subpacket length uses the
    // legal five-octet encoding although a shorter one would do (the framing hashes the bytes as they are)
    let image = expand(t.u64(), t.range(1, 300));
    let (attr, attr_wire): (UserAttribute, Option<Vec<u8>>) = if t.chance(110) {
        let mut sp = vec![1u8, 0x10, 0x00, 0x01, 0x01];
        sp.extend_from_slice(&[0u8; 12]);
        sp.extend_from_slice(&image);
        let mut body = crate::refimpl::gen::subpacket_len(sp.len(), 5);
        body.extend_from_slice(&sp);
        match PacketParser::new(&wire::new_packet(17, &body)[..]).next() {
            Some(Ok(Packet::UserAttribute(a))) => {
                rec.label("attribute:parsed-with-five-octet-length");
                (a, Some(body))
            }
            _ => (UserAttribute::new_image(image.clone().into()).map_err(|e| f("C11:attr-error", e.to_string()))?, None),
        }
    } else {
        (UserAttribute::new_image(image.clone().into()).map_err(|e| f("C11:attr-error", e.to_string()))?, None)
    };
    let data = {
        let n = t.range(0, 600);
        let mut d = expand(t.u64(), n);
        for b in d.iter_mut() {
            if *b < 24 {
                *b = if *b < 12 { b'\n' } else { b'\r' };
            }
        }
        d
    };
    // content per RFC 9580 5.2.4, built by the reference
    let (signee_body, signee_ver) = pub_body(other_kind, false);
    let (own_body, own_ver) = pub_body(signer_kind, false);
    let (sub_body, sub_ver) = pub_body(other_kind, true);
    let (sig, content, objdesc): (pgp::errors::Result<Signature>, Vec<u8>, String) = match what {
        What::Binary => (cfg.clone().sign(&signer, &pw, &data[..]), data.clone(), format!("{} data bytes", data.len())),
        What::Text => (cfg.clone().sign(&signer, &pw, &data[..]), canon(&data), format!("{} text bytes", data.len())),
        What::CertUid(_) => {
            let mut c = key_framing(signee_ver, &signee_body);
            c.extend_from_slice(&uid_framing(false, uid_text.as_bytes()));
            (cfg.clone().sign_certification_third_party(&signer, &pw, &other.public.primary_key, Tag::UserId, &uid), c, format!("key {other_kind:?} + user id {} bytes", uid_text.len()))
        }
        What::CertAttr(_) => {
            let ab = attr_wire.clone().unwrap_or_else(|| attr.to_bytes().unwrap());
            let mut c = key_framing(signee_ver, &signee_body);
            c.extend_from_slice(&uid_framing(true, &ab));
            (cfg.clone().sign_certification_third_party(&signer, &pw, &other.public.primary_key, Tag::UserAttribute, &attr), c, format!("key {other_kind:?} + attribute {} bytes", ab.len()))
        }
        What::SubkeyBinding | What::SubkeyRevocation => {
            let mut c = key_framing(own_ver, &own_body);
            c.extend_from_slice(&key_framing(sub_ver, &sub_body));
            if other.public.public_subkeys.is_empty() {
                (cfg.clone().sign_subkey_binding(&signer, &z.public.primary_key, &pw, &other.public.primary_key), c, format!("primary {signer_kind:?} + (sub)key {other_kind:?}"))
            } else {
                (cfg.clone().sign_subkey_binding(&signer, &z.public.primary_key, &pw, &other.public.public_subkeys[0].key), c, format!("primary {signer_kind:?} + subkey of {other_kind:?}"))
            }
        }
        What::PrimaryBinding => {
            // signer acts as the (signing) subkey, `other` as the primary: hash order is primary, subkey
            let mut c = key_framing(signee_ver, &signee_body);
            c.extend_from_slice(&key_framing(own_ver, &own_body));
            (cfg.clone().sign_primary_key_binding(&signer, &z.public.primary_key, &pw, &other.public.primary_key), c, format!("primary {other_kind:?} + signing subkey {signer_kind:?}"))
        }
        What::DirectKey | What::KeyRevocation => (cfg.clone().sign_key(&signer, &pw, &other.public.primary_key), key_framing(signee_ver, &signee_body), format!("key {other_kind:?}")),
    };
    rec.nontrivial((format!("{what:?}"), v6, format!("{hash:?}"), format!("{signer_kind:?}{other_kind:?}"), cfg.hashed_subpackets.len(), big));
    rec.describe(|| format!("{what:?} v{} {hash:?} by {signer_kind:?} over {objdesc}; {} hashed subpackets", if v6 { 6 } else { 4 }, cfg.hashed_subpackets.len()));
    let sig = match sig {
        Ok(s) => s,
        Err(e) => {
            // hashed areas that do not fit the length field are refused by rPGP: not a digest question
            rec.label("sign-refused");
            let _ = e;
            return Ok(());
        }
    };
    let sig_digest = signer.last().ok_or_else(|| f("C11:signer-not-called", "no digest recorded"))?;
    // decode the emitted packet with R-wire
    let body = sig.to_bytes().map_err(|e| f("C11:serialize-error", e.to_string()))?;
    let sf: SigFields = parse_sig(&body).ok_or_else(|| f("C11:emitted-signature-does-not-decode", format!("{} bytes", body.len())))?;
    crate::ensure_prop!(sf.version == if v6 { 6 } else { 4 } && sf.typ == u8::from(sig_type(what)) && sf.hash == u8::from(hash), "C11:emitted-signature-fields", "version {} type {:#x} hash {}", sf.version, sf.typ, sf.hash);
    if sf.hashed.len() > 65535 {
        rec.label("hashed-area:>64KiB");
    }
    let want = sf.digest(&content).ok_or_else(|| f("C11:reference-digest-error", "hash"))?;
    if sig_digest != want {
        return fail(&format!("C11:sign-side-digest-differs-from-rfc:type-{:#04x}", sf.typ), format!("{what:?} v{} {hash:?} over {objdesc}: rPGP signed {} but RFC 9580 5.2.4 gives {}", sf.version, hex::encode(&sig_digest[..8]), hex::encode(&want[..8])));
    }
    crate::ensure_prop!(sf.left16 == want[..2], "C11:left16-differs-from-digest", "stored {:02x?}, digest starts {:02x?}", sf.left16, &want[..2]);
    // verify side
    let ver = RecordingVerifier::new(&z.public.primary_key, false);
    let vres = match what {
        What::Binary | What::Text => sig.verify(&ver, &data[..]),
        What::CertUid(_) => sig.verify_third_party_certification(&other.public.primary_key, &ver, Tag::UserId, &uid),
        What::CertAttr(_) => sig.verify_third_party_certification(&other.public.primary_key, &ver, Tag::UserAttribute, &attr),
        What::SubkeyBinding | What::SubkeyRevocation => {
            if other.public.public_subkeys.is_empty() {
                sig.verify_subkey_binding(&ver, &other.public.primary_key)
            } else {
                sig.verify_subkey_binding(&ver, &other.public.public_subkeys[0].key)
            }
        }
        What::PrimaryBinding => sig.verify_primary_key_binding(&ver, &other.public.primary_key),
        What::DirectKey | What::KeyRevocation => sig.verify_key_third_party(&other.public.primary_key, &ver),
    };
    match ver.last() {
        Some(d) => {
            if d != want {
                return fail(&format!("C11:verify-side-digest-differs-from-rfc:type-{:#04x}", sf.typ), format!("{what:?} v{} {hash:?} over {objdesc}: rPGP verified {} but RFC gives {}", sf.version, hex::encode(&d[..8]), hex::encode(&want[..8])));
            }
        }
        None => {
            // verification refused before reaching the key (e.g. issuer mismatch): must not happen for own signatures
            return fail("C11:verify-path-refuses-own-signature", format!("{what:?}: {:?}", vres.err().map(|e| e.to_string())));
        }
    }
    Ok(())
}

/// A v4/v6 Ed25519 signature packet (binary signature over `data`) assembled entirely by the
/// reference: hashed area given as raw bytes, digest per RFC 9580 5.2.4, raw ed25519-dalek signature.
pub fn reference_signature(kind: Kind, hashed: &[u8], data: &[u8], salt_seed: u64) -> Option<Vec<u8>> {
    use ed25519_dalek::Signer;
    let z = zoo::get(kind);
    let sec_body = z.secret.primary_key.to_bytes().ok()?;
    let kb = keys::parse_key(&sec_body, true)?;
    if kb.alg != 27 {
        return None;
    }
    let seed: [u8; 32] = keys::plain_material(kb.version, kb.protection.as_ref()?)?[..32].try_into().ok()?;
    let sk = ed25519_dalek::SigningKey::from_bytes(&seed);
    let v6 = kb.version == 6;
    let version = if v6 { 6u8 } else { 4 };
    let salt = if v6 { expand(salt_seed, 16) } else { vec![] };
    let sf = SigFields { version, typ: 0, pk: 27, hash: 8, hashed: hashed.to_vec(), unhashed: vec![], left16: [0, 0], salt: salt.clone(), v3_created: 0, v3_keyid: vec![], value: vec![] };
    let digest = sf.digest(data)?;
    let sigv = sk.sign(&digest).to_bytes();
    let mut body = vec![version, 0, 27, 8];
    if v6 {
        body.extend_from_slice(&(hashed.len() as u32).to_be_bytes());
        body.extend_from_slice(hashed);
        body.extend_from_slice(&0u32.to_be_bytes());
    } else {
        body.extend_from_slice(&(hashed.len() as u16).to_be_bytes());
        body.extend_from_slice(hashed);
        body.extend_from_slice(&0u16.to_be_bytes());
    }
    body.extend_from_slice(&digest[..2]);
    if v6 {
        body.push(salt.len() as u8);
        body.extend_from_slice(&salt);
    }
    body.extend_from_slice(&sigv);
    Some(wire::new_packet(2, &body))
}

/// signatures assembled entirely by the reference (Ed25519, raw primitive) must verify in rPGP
fn reference_made_case(t: &mut Tape, rec: &mut Rec) -> CaseResult {
    use ed25519_dalek::Signer;
    let kind = if t.bool() { Kind::Ed25519V4 } else { Kind::Ed25519V6 };
    let z = zoo::get(kind);
    let v6 = kind.is_v6();
    let sec_body = z.secret.primary_key.to_bytes().unwrap();
    let kb = keys::parse_key(&sec_body, true).ok_or_else(|| f("C11:reference-key-parse", "secret key"))?;
    let seed: [u8; 32] = keys::plain_material(kb.version, kb.protection.as_ref().unwrap()).unwrap()[..32].try_into().unwrap();
    let sk = ed25519_dalek::SigningKey::from_bytes(&seed);
    let fp = rc::fingerprint(kb.version, &kb.public_body);
    let version = if v6 { 6u8 } else { 4 };
    let v3 = !v6 && t.chance(50);
    let hash_id = *t.pick(&[8u8, 10, 9, 12, 14]);
    let text = t.bool();
    let typ = if text { 1u8 } else { 0 };
    let data = {
        let n = t.range(0, 300);
        let mut d = expand(t.u64(), n);
        for b in d.iter_mut() {
            if *b < 30 {
                *b = if *b < 15 { b'\n' } else { b'\r' };
            }
        }
        d
    };
    // hashed area: issuer fingerprint + creation time, optionally an unknown non-critical subpacket
    let mut hashed = vec![];
    let mut fpsp = vec![version];
    fpsp.extend_from_slice(&fp);
    hashed.extend_from_slice(&crate::refimpl::gen::subpacket(33, false, &fpsp, true));
    hashed.extend_from_slice(&crate::refimpl::gen::subpacket(2, t.bool(), &t.u32().to_be_bytes(), true));
    if t.bool() {
        hashed.extend_from_slice(&crate::refimpl::gen::subpacket(100, false, &expand(t.u64(), t.range(0, 300)), t.bool()));
    }
    let salt_len = crate::refimpl::sigdigest::salt_len(hash_id).unwrap();
    let salt = if v6 { expand(t.u64(), salt_len) } else { vec![] };
    let created = t.u32();
    let sf = SigFields { version: if v3 { 3 } else { version }, typ, pk: 27, hash: hash_id, hashed: hashed.clone(), unhashed: vec![], left16: [0, 0], salt: salt.clone(), v3_created: created, v3_keyid: rc::key_id(kb.version, &fp), value: vec![] };
    let content = if text { canon(&data) } else { data.clone() };
    let digest = sf.digest(&content).unwrap();
    let sigv = sk.sign(&digest).to_bytes();
    let mut body = vec![sf.version];
    if v3 {
        body.push(5);
        body.push(typ);
        body.extend_from_slice(&created.to_be_bytes());
        body.extend_from_slice(&sf.v3_keyid);
        body.push(27);
        body.push(hash_id);
        body.extend_from_slice(&digest[..2]);
    } else {
        body.extend_from_slice(&[typ, 27, hash_id]);
        if v6 {
            body.extend_from_slice(&(hashed.len() as u32).to_be_bytes());
            body.extend_from_slice(&hashed);
            body.extend_from_slice(&0u32.to_be_bytes());
        } else {
            body.extend_from_slice(&(hashed.len() as u16).to_be_bytes());
            body.extend_from_slice(&hashed);
            body.extend_from_slice(&0u16.to_be_bytes());
        }
        body.extend_from_slice(&digest[..2]);
        if v6 {
            body.push(salt.len() as u8);
            body.extend_from_slice(&salt);
        }
    }
    body.extend_from_slice(&sigv);
    rec.label(format!("reference-made:v{}", sf.version));
    rec.nontrivial((sf.version, hash_id, text, data.len(), hashed.len()));
    rec.describe(|| format!("reference-made Ed25519 v{} {} signature, hash id {hash_id}, over {} bytes", sf.version, if text { "text" } else { "binary" }, data.len()));
    let pkt = wire::new_packet(2, &body);
    let parsed = pgp::packet::PacketParser::new(&pkt[..]).next();
    let sig = match parsed {
        Some(Ok(pgp::packet::Packet::Signature(s))) => s,
        other => return fail("C11:rfc-signature-rejected-by-parser", format!("v{}: {:?}", sf.version, other.map(|r| r.map(|_| ()).map_err(|e| e.to_string())))),
    };
    if let Err(e) = sig.verify(&z.public.primary_key, &data[..]) {
        return fail("C11:rfc-signature-does-not-verify", format!("v{} {} hash id {hash_id}, {} bytes: {e}", sf.version, if text { "text" } else { "binary" }, data.len()));
    }
    // as a prefixed signed message through the streaming reader
    let mut msg = pkt.clone();
    msg.extend_from_slice(&wire::new_packet(11, &wire::literal_body(b'b', b"", 0, &data)));
    match pgp::composed::Message::from_bytes(&msg[..]) {
        Ok(mut m) => {
            use std::io::Read;
            let mut out = vec![];
            if let Err(e) = m.read_to_end(&mut out) {
                return fail("C11:rfc-signed-message-rejected", e.to_string());
            }
            if let Err(e) = m.verify(&z.public.primary_key) {
                return fail("C11:rfc-signed-message-does-not-verify", format!("v{} {}: {e}", sf.version, if text { "text" } else { "binary" }));
            }
        }
        Err(e) => return fail("C11:rfc-signed-message-rejected", e.to_string()),
    }
    Ok(())
}

pub fn run(ctx: &Ctx) {
    ctx.set_rule("matrix: signature types {0x00,0x01,0x10-0x13,0x30 over user ids and attributes,0x18,0x28,0x19,0x1F,0x20} x {v4,v6} x hash algorithms x hashed-subpacket sets (empty .. >64 KiB for v6, critical bits, 1/2/5-octet subpacket lengths) x documents / keys of all zoo algorithms / user ids / attributes; sign side: digest handed to a recording signer == reference digest computed from the emitted packet decoded by R-wire; verify side: digest handed to a recording verifier == reference digest; stored left-16 == digest prefix; reference-made Ed25519 signatures (v3, v4, v6; raw ed25519-dalek over the reference digest) verify through Signature::verify and Message::verify; non-trivial = every cell; distinct = (type, version, hash, keys, subpacket shape)");
    ctx.assume("key bodies are taken from rPGP's serializer (faithfulness is C05); cross-version certifications (v4 key certifying v6 key) are not asserted because the RFC wording on framing is ambiguous there");
    zoo::warm(zoo::ALL);
    let n = ctx.tier.pick(6000u64, 4_500_000);
    ctx.group("digest-matrix", Source::Random { n, tape_len: 300 }, |t, rec| matrix_case(t, rec, zoo::ALL_SIGNERS));
    let n = ctx.tier.pick(3000u64, 1_800_000);
    ctx.group("reference-made-signatures", Source::Random { n, tape_len: 200 }, reference_made_case);
    let _ = (HashAlgorithm::Sha256, KeyVersion::V4);
    fn _unused(_: &dyn SigningKey) {}
}
