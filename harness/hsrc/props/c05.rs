//! C05 — wire fidelity: parse and serialize are mutually inverse and lengths are truthful.

use pgp::composed::{ArmorOptions, Deserializable, DetachedSignature, SignedPublicKey, SignedSecretKey};
use pgp::crypto::aead::AeadAlgorithm;
use pgp::crypto::hash::HashAlgorithm;
use pgp::crypto::sym::SymmetricKeyAlgorithm;
use pgp::packet::{Packet, PacketParser, Subpacket, SubpacketData};
use pgp::ser::Serialize;
use pgp::types::{Password, S2kParams, StringToKey};
use rand::{RngCore, SeedableRng};
use rand_chacha::ChaCha8Rng;

use crate::engine::{expand, fail, CaseResult, Ctx, Rec, Source, Tape};
use crate::pk::{packet_body, packet_with_header, tag_of};
use crate::refimpl::gen::{self, Gen};
use crate::refimpl::keys;
use crate::refimpl::wire::{self, LenKind};
use crate::zoo::{self, Kind};

fn parse_one(bytes: &[u8]) -> Result<Packet, String> {
    let mut pp = PacketParser::new(bytes);
    match pp.next() {
        None => Err("no packet".into()),
        Some(Err(e)) => Err(e.to_string()),
        Some(Ok(p)) => match pp.next() {
            None => Ok(p),
            Some(x) => Err(format!("trailing item after packet: {:?}", x.map(|p| tag_of(&p)).map_err(|e| e.to_string()))),
        },
    }
}

/// the core oracle on a canonically framed packet
fn check_canonical(rec: &mut Rec, tag: u8, body: &[u8], input: &[u8], what: &str, legacy: bool) -> CaseResult {
    check_packet(rec, tag, body, input, what, legacy, false)
}

/// `noncanonical`: the input uses a legal but non-minimal inner length form, so byte-identical
/// re-encoding is not required (truthful lengths and parse(serialize(v)) == v still are)
fn check_packet(rec: &mut Rec, tag: u8, body: &[u8], input: &[u8], what: &str, legacy: bool, noncanonical: bool) -> CaseResult {
    let p = match parse_one(input) {
        Ok(p) => p,
        Err(_) => {
            rec.label("rejected-by-parser");
            return Ok(());
        }
    };
    rec.label("accepted");
    rec.nontrivial((tag, body.len(), what.to_string()));
    if tag == 12 && !body.is_empty() {
        rec.label("trust:content-ignored-by-design");
        return Ok(());
    }
    // 1. re-serialization identical to the canonical input
    let mut out = Vec::new();
    if let Err(e) = p.to_writer(&mut out) {
        return fail("C05:accepted-packet-fails-to-serialize", format!("{what}: {e}"));
    }
    if out != input && !noncanonical {
        let fd = out.iter().zip(input.iter()).position(|(a, b)| a != b).unwrap_or(out.len().min(input.len()));
        let sig = if tag == 5 || tag == 7 {
            // locate the S2K usage octet: the first byte after the public part differing 255 -> 254
            if input.get(fd) == Some(&255) && out.get(fd) == Some(&254) { "C05:s2k-usage-255-reemitted-as-254" } else { "C05:canonical-input-reencoded-differently" }
        } else {
            "C05:canonical-input-reencoded-differently"
        };
        rec.soft_fail(sig, format!("{what}: {} vs {} bytes, first difference at offset {fd} (input {:02x?} -> output {:02x?}); legacy header {legacy}", out.len(), input.len(), &input[fd.min(input.len())..(fd + 4).min(input.len())], &out[fd.min(out.len())..(fd + 4).min(out.len())]) + &if input.len() <= 80 { format!(" input={} output={}", hex::encode(input), hex::encode(&out)) } else { String::new() });
    }
    // 2. truthful lengths
    let wl = p.write_len();
    rec.check(wl == out.len(), "C05:packet-write-len-differs-from-bytes-written", || format!("{what}: write_len() = {wl}, {} bytes written", out.len()));
    match packet_body(&p) {
        Ok((b, bl)) => {
            rec.check(b.len() == bl, "C05:body-write-len-differs-from-bytes-written", || format!("{what}: body write_len() = {bl}, {} bytes written", b.len()));
        }
        Err(e) => rec.soft_fail("C05:accepted-packet-fails-to-serialize", format!("{what}: body: {e}")),
    }
    match packet_with_header(&p) {
        Ok((w, announced)) => {
            rec.check(w.len() == announced, "C05:write-len-with-header-differs-from-bytes-written", || format!("{what}: write_len_with_header() = {announced}, {} bytes written", w.len()));
            // header announces exactly the body that follows
            match wire::split_packets(&w) {
                Ok(ps) if ps.len() == 1 => {}
                Ok(ps) => rec.soft_fail("C05:written-header-does-not-match-body", format!("{what}: de-frames to {} packets", ps.len())),
                Err(e) => rec.soft_fail("C05:written-header-does-not-match-body", format!("{what}: {e}")),
            }
        }
        Err(e) => rec.soft_fail("C05:accepted-packet-fails-to-serialize", format!("{what}: with header: {e}")),
    }
    // Trust packets: rPGP documents that their content is ignored ("Trust packet detected,
    // ignoring"; RFC 9580 5.10 says they SHOULD be ignored on input) - lossy by design
    if tag == 12 {
        rec.label("trust:content-ignored-by-design");
        return Ok(());
    }
    // 3. parse(serialize(v)) == v
    match parse_one(&out) {
        Ok(p2) => {
            rec.check(p2 == p, "C05:reparsed-value-differs", || format!("{what}: parse(serialize(v)) != v"));
        }
        Err(e) => rec.soft_fail("C05:own-serialization-rejected", format!("{what}: {e}")),
    }
    Ok(())
}

struct KeyParts {
    version: u8,
    created: u32,
    alg: u8,
    public: Vec<u8>,
    /// plain secret material incl. checksum as found after the usage octet 0 (v4: with 2-octet checksum)
    secret: Option<Vec<u8>>,
}

/// decode a public or unprotected secret key body into parts (R-wire side)
fn key_parts(body: &[u8], secret: bool, public_len_hint: Option<usize>) -> Option<KeyParts> {
    let version = *body.first()?;
    let created = u32::from_be_bytes(body.get(1..5)?.try_into().ok()?);
    let (alg, rest) = if version == 6 {
        let alg = *body.get(5)?;
        let l = u32::from_be_bytes(body.get(6..10)?.try_into().ok()?) as usize;
        (alg, (10usize, Some(l)))
    } else {
        (*body.get(5)?, (6usize, None))
    };
    let (start, l) = rest;
    let plen = l.or(public_len_hint)?;
    let public = body.get(start..start + plen)?.to_vec();
    let sec = if secret {
        let s = body.get(start + plen..)?;
        if s.first() == Some(&0) {
            Some(s[1..].to_vec())
        } else {
            None
        }
    } else {
        None
    };
    Some(KeyParts { version, created, alg, public, secret: sec })
}

fn harvest_keys() -> Vec<KeyParts> {
    let mut out = vec![];
    for k in zoo::ALL {
        if matches!(k, Kind::DsaV4) {
            // included: DSA public parameters are large but fine
        }
        let z = zoo::get(*k);
        let pubs = wire::split_packets(&z.public.to_bytes().unwrap()).unwrap();
        let secs = wire::split_packets(&z.secret.to_bytes().unwrap()).unwrap();
        let pub_keys: Vec<_> = pubs.iter().filter(|p| p.tag == 6 || p.tag == 14).collect();
        let sec_keys: Vec<_> = secs.iter().filter(|p| p.tag == 5 || p.tag == 7).collect();
        for (p, s) in pub_keys.iter().zip(sec_keys.iter()) {
            // public length = pub body minus its fixed part
            let fixed = if p.body[0] == 6 { 10 } else { 6 };
            let plen = p.body.len() - fixed;
            if let Some(kp) = key_parts(&s.body, true, Some(plen)) {
                out.push(kp);
            }
        }
    }
    out
}

fn gen_key(t: &mut Tape, keys: &[KeyParts]) -> Gen {
    let kp = &keys[t.below(keys.len())];
    let secret = t.chance(150);
    let sub = t.bool();
    // keep the version (v4 <-> v6 material is not always interchangeable), vary everything else
    let version = kp.version;
    let created = match t.below(4) {
        0 => kp.created,
        1 => 0,
        2 => u32::MAX,
        _ => t.u32(),
    };
    let mut labels = vec![format!("key:v{version}:alg={}", kp.alg)];
    let mut body = gen::public_key_body(version, created, kp.alg, &kp.public);
    let tag = match (secret, sub) {
        (false, false) => 6,
        (false, true) => 14,
        (true, false) => 5,
        (true, true) => 7,
    };
    let mut what = format!("{} v{version} alg {} created {created}", ["public key", "public subkey", "secret key", "secret subkey"][(secret as usize) * 2 + sub as usize], kp.alg);
    if secret {
        let usage_class = t.below(6);
        match usage_class {
            0 => {
                body.push(0);
                body.extend_from_slice(kp.secret.as_ref().unwrap());
                labels.push("s2k-usage:0".into());
                what += " unprotected";
            }
            1 | 2 | 3 => {
                let usage = [254u8, 255, 253][usage_class - 1];
                if version == 6 && usage == 255 {
                    // must be rejected for v6 by RFC 9580; generate 254 instead
                }
                let usage = if version == 6 && usage == 255 { 254 } else { usage };
                let sym = *t.pick(&[7u8, 8, 9, 3, 2, 10, 11, 13]);
                let block = match sym {
                    2 | 3 | 1 | 4 => 8,
                    _ => 16,
                };
                let aead = *t.pick(&[1u8, 2, 3]);
                let s2k = gen::s2k(t);
                let ivl = if usage == 253 { [16usize, 15, 12][(aead - 1) as usize] } else { block };
                let iv = expand(t.u64(), ivl);
                let ct = { let n_ = t.range(20, 120); expand(t.u64(), n_) };
                let mut params = vec![sym];
                if usage == 253 {
                    params.push(aead);
                }
                if version == 6 {
                    params.push(s2k.len() as u8);
                }
                params.extend_from_slice(&s2k);
                params.extend_from_slice(&iv);
                body.push(usage);
                if version == 6 {
                    body.push(params.len() as u8);
                }
                body.extend_from_slice(&params);
                body.extend_from_slice(&ct);
                labels.push(format!("s2k-usage:{usage}"));
                labels.push(format!("s2k-type:{}", s2k[0]));
                what += &format!(" usage {usage} sym {sym} s2k type {}", s2k[0]);
            }
            _ => {
                // legacy: usage octet is the cipher id (v4 and earlier only)
                if version == 6 {
                    body.push(0);
                    body.extend_from_slice(kp.secret.as_ref().unwrap());
                    labels.push("s2k-usage:0".into());
                } else {
                    let sym = *t.pick(&[7u8, 8, 9, 3, 2, 1, 4]);
                    let block = match sym {
                        2 | 3 | 1 | 4 => 8,
                        _ => 16,
                    };
                    body.push(sym);
                    body.extend_from_slice(&expand(t.u64(), block));
                    body.extend_from_slice(&{ let n_ = t.range(20, 120); expand(t.u64(), n_) });
                    labels.push("s2k-usage:legacy-cipher-octet".into());
                    what += &format!(" legacy usage (cipher {sym})");
                }
            }
        }
    }
    labels.push(gen::len_class(body.len()));
    Gen { tag, body, what, labels }
}

fn generated_case(t: &mut Tape, rec: &mut Rec, keys: &[KeyParts]) -> CaseResult {
    let g = match t.below(10) {
        0..=2 => gen::gen_signature(t),
        3 => gen::gen_skesk(t),
        4 => gen::gen_pkesk(t),
        5 => gen::gen_ops(t),
        6 | 7 => gen::gen_simple(t),
        _ => gen_key(t, keys),
    };
    for l in &g.labels {
        rec.label(l.clone());
    }
    rec.label(format!("tag:{}", g.tag));
    // canonical framing: new format minimal, or legacy with the minimal length type
    let legacy = g.tag <= 15 && t.chance(60);
    let input = if legacy {
        let lt = if g.body.len() < 256 { 0 } else if g.body.len() < 65536 { 1 } else { 2 };
        wire::old_packet(g.tag, &g.body, lt).unwrap()
    } else {
        wire::new_packet(g.tag, &g.body)
    };
    rec.describe(|| format!("{} ({} body bytes{})", g.what, g.body.len(), if legacy { ", legacy header" } else { "" }));
    let noncanonical = g.labels.iter().any(|l| l == "noncanonical-length-form");
    check_packet(rec, g.tag, &g.body, &input, &g.what, legacy, noncanonical)
}

/// API-built and API-mutated composite objects
fn api_case(t: &mut Tape, rec: &mut Rec) -> CaseResult {
    let kind = *t.pick(zoo::ALL);
    let z = zoo::get(kind);
    let which = t.below(8);
    let mut rng = ChaCha8Rng::from_seed(t.seed32());
    rec.label(format!("api:key={kind:?}"));
    macro_rules! lens {
        ($name:expr, $obj:expr) => {{
            let o = $obj;
            match o.to_bytes() {
                Ok(b) => {
                    let wl = o.write_len();
                    if wl != b.len() {
                        rec.soft_fail(format!("C05:{}-write-len-differs-from-bytes-written", $name), format!("{kind:?}: write_len() = {wl}, {} bytes written", b.len()));
                    }
                    Some(b)
                }
                Err(e) => {
                    rec.soft_fail(format!("C05:{}-fails-to-serialize", $name), format!("{kind:?}: {e}"));
                    None
                }
            }
        }};
    }
    match which {
        0 => {
            rec.label("api:signed-public-key");
            rec.nontrivial(("spk", kind));
            rec.describe(|| format!("SignedPublicKey {kind:?}: write_len vs bytes, binary and armored re-import"));
            if let Some(b) = lens!("SignedPublicKey", &z.public) {
                match SignedPublicKey::from_bytes(&b[..]) {
                    Ok(k2) => {
                        rec.check(k2 == z.public, "C05:reimported-public-key-differs", || format!("{kind:?}"));
                    }
                    Err(e) => rec.soft_fail("C05:own-serialization-rejected", format!("public key {kind:?}: {e}")),
                }
            }
            for sk in &z.public.public_subkeys {
                lens!("SignedPublicSubKey", sk);
            }
            lens!("SignedKeyDetails", &z.public.details);
            for u in &z.public.details.users {
                lens!("SignedUser", u);
            }
            match z.public.to_armored_string(ArmorOptions::default()).map_err(|e| e.to_string()).and_then(|s| SignedPublicKey::from_string(&s).map_err(|e| e.to_string())) {
                Ok((k2, _)) => {
                    rec.check(k2 == z.public, "C05:reimported-public-key-differs", || format!("{kind:?} (armored)"));
                }
                Err(e) => rec.soft_fail("C05:own-serialization-rejected", format!("armored public key {kind:?}: {e}")),
            }
        }
        1 => {
            rec.label("api:signed-secret-key");
            rec.nontrivial(("ssk", kind));
            rec.describe(|| format!("SignedSecretKey {kind:?} (unlocked and locked): write_len vs bytes, re-import"));
            for (nm, k) in [("unlocked", &z.secret), ("locked", &z.locked)] {
                if let Some(b) = lens!("SignedSecretKey", k) {
                    match SignedSecretKey::from_bytes(&b[..]) {
                        Ok(k2) => {
                            if &k2 != k {
                                let sig = if nm == "locked" { "C05:locked-key-differs-from-its-reimport" } else { "C05:reimported-secret-key-differs" };
                                rec.soft_fail(sig, format!("{kind:?} {nm}"));
                            }
                        }
                        Err(e) => rec.soft_fail("C05:own-serialization-rejected", format!("secret key {kind:?} {nm}: {e}")),
                    }
                }
                for sk in &k.secret_subkeys {
                    lens!("SignedSecretSubKey", sk);
                }
                // the individual key packets: header announced == bytes written
                let p: Packet = k.primary_key.clone().into();
                if let Ok((w, ann)) = packet_with_header(&p) {
                    if w.len() != ann {
                        rec.soft_fail("C05:write-len-with-header-differs-from-bytes-written", format!("{kind:?} {nm} primary secret key packet: announced {ann}, written {}", w.len()));
                    }
                }
            }
        }
        2 => {
            // lock / unlock through the API with explicit S2K parameters, then lengths + re-import
            rec.label("api:set-password");
            let mut k = z.secret.clone();
            let pw = Password::from("pw-é");
            let cfb = t.bool() || kind.is_v6() && t.bool();
            let s2k = match t.below(3) {
                0 => StringToKey::new_iterated(&mut rng, HashAlgorithm::Sha256, *t.pick(&[0u8, 96, 255])),
                1 => StringToKey::new_argon2(&mut rng, 1, 1, 4),
                _ => {
                    let mut salt = [0u8; 8];
                    rng.fill_bytes(&mut salt);
                    StringToKey::Salted { hash_alg: HashAlgorithm::Sha256, salt }
                }
            };
            let sym = *t.pick(&[SymmetricKeyAlgorithm::AES128, SymmetricKeyAlgorithm::AES256, SymmetricKeyAlgorithm::CAST5, SymmetricKeyAlgorithm::Twofish]);
            let params = if cfb {
                let mut iv = vec![0u8; sym.block_size()];
                rng.fill_bytes(&mut iv);
                S2kParams::Cfb { sym_alg: sym, s2k: s2k.clone(), iv: iv.into() }
            } else {
                let sym = SymmetricKeyAlgorithm::AES256;
                let aead = *t.pick(&[AeadAlgorithm::Ocb, AeadAlgorithm::Eax, AeadAlgorithm::Gcm]);
                let mut nonce = vec![0u8; aead.nonce_size()];
                rng.fill_bytes(&mut nonce);
                S2kParams::Aead { sym_alg: sym, aead_mode: aead, s2k: s2k.clone(), nonce: nonce.into() }
            };
            rec.nontrivial(("setpw", kind, cfb, format!("{s2k:?}").len(), format!("{sym:?}")));
            rec.describe(|| format!("{kind:?}: set_password_with_s2k({}) then write_len / header / re-import", if cfb { "Cfb" } else { "Aead" }));
            if let Err(e) = k.primary_key.set_password_with_s2k(&pw, params.clone()) {
                rec.label("api:set-password-refused");
                let _ = e;
                return Ok(());
            }
            for sk in k.secret_subkeys.iter_mut() {
                let _ = sk.key.set_password_with_s2k(&pw, params.clone());
            }
            if let Some(b) = lens!("SignedSecretKey", &k) {
                match wire::split_packets(&b) {
                    Ok(_) => {}
                    Err(e) => rec.soft_fail("C05:written-header-does-not-match-body", format!("{kind:?} after set_password: {e}")),
                }
                match SignedSecretKey::from_bytes(&b[..]) {
                    Ok(k2) => {
                        if k2 != k {
                            rec.soft_fail("C05:locked-key-differs-from-its-reimport", format!("{kind:?} after set_password_with_s2k"));
                        }
                    }
                    Err(e) => rec.soft_fail("C05:own-serialization-rejected", format!("{kind:?} after set_password: {e}")),
                }
            }
            let p: Packet = k.primary_key.clone().into();
            if let Ok((w, ann)) = packet_with_header(&p) {
                if w.len() != ann {
                    rec.soft_fail("C05:write-len-with-header-differs-from-bytes-written:after-set-password", format!("{kind:?}: announced {ann}, written {}", w.len()));
                }
            }
            // and back
            let mut k3 = k.clone();
            if k3.primary_key.remove_password(&pw).is_ok() {
                let p: Packet = k3.primary_key.clone().into();
                if let Ok((w, ann)) = packet_with_header(&p) {
                    if w.len() != ann {
                        rec.soft_fail("C05:write-len-with-header-differs-from-bytes-written:after-remove-password", format!("{kind:?}: announced {ann}, written {}", w.len()));
                    }
                }
                rec.check(k3.primary_key == z.secret.primary_key, "C05:remove-password-does-not-restore-the-key", || format!("{kind:?}"));
            } else {
                let e = k.clone().primary_key.remove_password(&pw).err().map(|e| e.to_string()).unwrap_or_default();
                rec.soft_fail("C05:remove-password-fails", format!("{kind:?} cfb={cfb} s2k={s2k:?} sym={sym:?}: {e}"));
            }
        }
        3 => {
            // subpacket constructors: announced length == written length
            rec.label("api:subpacket-regular");
            let s = match t.below(5) {
                0 => "hkps://é.example".to_string(),
                1 => String::new(),
                2 => "ascii".to_string(),
                3 => "€".repeat(t.range(1, 80)),
                _ => "x".repeat(t.range(180, 200)),
            };
            let datas = vec![
                SubpacketData::PreferredKeyServer(s.clone()),
                SubpacketData::PolicyURI(s.clone()),
                SubpacketData::SignersUserID(s.clone().into_bytes().into()),
                SubpacketData::RegularExpression(s.clone().into_bytes().into()),
            ];
            rec.nontrivial(("subpacket", s.clone()));
            rec.describe(|| format!("Subpacket::regular over string {s:?} ({} bytes, {} chars)", s.len(), s.chars().count()));
            for d in datas {
                let name = format!("{d:?}").split('(').next().unwrap_or("?").to_string();
                match Subpacket::regular(d) {
                    Ok(sp) => {
                        let mut w = vec![];
                        if sp.to_writer(&mut w).is_ok() {
                            let wl = sp.write_len();
                            if wl != w.len() {
                                rec.soft_fail(format!("C05:subpacket-{name}-write-len-differs-from-bytes-written"), format!("{s:?}: write_len {wl}, written {}", w.len()));
                            }
                            // announced length field inside the subpacket
                            let announced = sp.len.len();
                            let lenlen = w.len() - announced.min(w.len());
                            if !(1..=5).contains(&lenlen) {
                                rec.soft_fail(format!("C05:subpacket-{name}-announced-length-differs-from-bytes-written"), format!("{s:?}: announces {announced} after the length octets, {} bytes written in total", w.len()));
                            }
                        }
                    }
                    Err(e) => rec.soft_fail("C05:subpacket-regular-error", format!("{name}: {e}")),
                }
            }
        }
        4 => {
            // unhashed area modification on a real signature, then lengths + round trip
            rec.label("api:unhashed-subpacket-edit");
            let Some(sig) = z.public.details.users.first().and_then(|u| u.signatures.first()).cloned().or_else(|| z.public.details.direct_signatures.first().cloned()) else {
                rec.discard();
                return Ok(());
            };
            let mut sig = sig;
            let n_ops = t.range(1, 4);
            let mut desc = vec![];
            for _ in 0..n_ops {
                match t.below(3) {
                    0 => {
                        let sp = Subpacket::regular(SubpacketData::Notation(pgp::packet::Notation { readable: true, name: "n@example.org".into(), value: { let n_ = t.range(0, 300); expand(t.u64(), n_) }.into() })).unwrap();
                        let _ = sig.unhashed_subpacket_push(sp);
                        desc.push("push");
                    }
                    1 => {
                        let sp = Subpacket::regular(SubpacketData::PolicyURI("https://é.example/policy".into())).unwrap();
                        let _ = sig.unhashed_subpacket_insert(0, sp);
                        desc.push("insert0");
                    }
                    _ => {
                        let _ = sig.unhashed_subpacket_remove(0);
                        desc.push("remove0");
                    }
                }
            }
            rec.nontrivial(("unhashed", kind, desc.clone()));
            rec.describe(|| format!("{kind:?} self-signature after unhashed ops {desc:?}"));
            let p: Packet = sig.clone().into();
            match packet_with_header(&p) {
                Ok((w, ann)) => {
                    rec.check(w.len() == ann, "C05:write-len-with-header-differs-from-bytes-written:after-unhashed-edit", || format!("announced {ann}, written {}", w.len()));
                    match parse_one(&w) {
                        Ok(p2) => {
                            rec.check(p2 == p, "C05:reparsed-value-differs", || format!("signature after {desc:?}"));
                        }
                        Err(e) => rec.soft_fail("C05:own-serialization-rejected", format!("signature after {desc:?}: {e}")),
                    }
                }
                Err(e) => rec.soft_fail("C05:accepted-packet-fails-to-serialize", e.to_string()),
            }
        }
        5 => {
            // detached signature composite
            rec.label("api:detached-signature");
            let data = { let n_ = t.range(0, 100); expand(t.u64(), n_) };
            rec.nontrivial(("det", kind, data.len()));
            rec.describe(|| format!("DetachedSignature by {kind:?}: write_len vs bytes, re-import"));
            match DetachedSignature::sign_binary_data(&mut rng, &z.secret.primary_key, &Password::empty(), kind.hashes()[0], &data[..]) {
                Ok(d) => {
                    if let Some(b) = lens!("DetachedSignature", &d) {
                        match DetachedSignature::from_bytes(&b[..]) {
                            Ok(d2) => {
                                rec.check(d2 == d, "C05:reparsed-value-differs", || "detached signature".into());
                            }
                            Err(e) => rec.soft_fail("C05:own-serialization-rejected", format!("detached signature: {e}")),
                        }
                    }
                }
                Err(e) => rec.soft_fail("C05:sign-error", e.to_string()),
            }
        }
        6 => {
            // odd but legal framings of a data packet: parse, then announced vs written
            rec.label("api:reframed-data-packet");
            let n = t.range(512, 30_000);
            let body = wire::literal_body(b'b', b"", 0, &expand(t.u64(), n));
            let exps: Vec<u8> = vec![*t.pick(&[9u8, 10, 11, 12, 13])].into_iter().filter(|e| (1usize << e) <= body.len()).collect();
            let framed = match t.below(3) {
                0 if !exps.is_empty() => wire::partial_packet(11, &body, &exps, 5).unwrap(),
                1 => wire::new_packet_with(11, &body, 5).unwrap(),
                _ => wire::old_packet(11, &body, 2).unwrap(),
            };
            let kinddesc = wire::split_packets(&framed).unwrap()[0].len_kind.clone();
            rec.nontrivial(("reframed", n, format!("{kinddesc:?}")));
            rec.describe(|| format!("literal packet, body {} bytes, framing {kinddesc:?}: write_len_with_header vs bytes written", body.len()));
            match parse_one(&framed) {
                Ok(p) => match packet_with_header(&p) {
                    Ok((w, ann)) => {
                        if w.len() != ann {
                            let sig = match kinddesc {
                                LenKind::Partial { .. } => "C05:write-len-with-header-differs-from-bytes-written:partial-framed-input",
                                _ => "C05:write-len-with-header-differs-from-bytes-written:non-minimal-framed-input",
                            };
                            rec.soft_fail(sig, format!("announced {ann}, written {}", w.len()));
                        }
                    }
                    Err(e) => rec.soft_fail("C05:accepted-packet-fails-to-serialize", e.to_string()),
                },
                Err(e) => rec.soft_fail("C05:legal-framing-rejected", e),
            }
        }
        _ => {
            // every packet of a serialized certificate: announced == written, canonical re-encode
            rec.label("api:certificate-packets");
            let bytes = if t.bool() { z.public.to_bytes().unwrap() } else { z.locked.to_bytes().unwrap() };
            rec.nontrivial(("certpk", kind, bytes.len()));
            rec.describe(|| format!("every packet of {kind:?}'s serialized certificate re-encodes identically"));
            let raws = wire::split_packets(&bytes).map_err(|e| crate::engine::Fail { sig: "C05:written-header-does-not-match-body".into(), detail: e })?;
            for rp in raws {
                let input = &bytes[rp.offset..rp.offset + rp.encoded_len];
                check_canonical(rec, rp.tag, &rp.body, input, &format!("{kind:?} certificate packet tag {}", rp.tag), !rp.new_format)?;
            }
        }
    }
    Ok(())
}


// ---------------------------------------------------------------------------------------------
// subpacket values built and modified through the public API, carried by a freshly made signature
// ---------------------------------------------------------------------------------------------

fn api_subpacket_value(t: &mut Tape) -> (SubpacketData, String) {
    use pgp::packet::{Features, KeyFlags, Notation, RevocationCode};
    use pgp::types::{Duration, Fingerprint, KeyId, KeyVersion, RevocationKey, RevocationKeyClass, Timestamp};
    let bytes = |t: &mut Tape, max: usize| -> Vec<u8> {
        let n = t.range(0, max);
        expand(t.u64(), n)
    };
    match t.below(26) {
        0 | 1 | 2 => {
            // Key Flags: default or parsed from 0..3 octets, then any sequence of setters
            let start = t.below(5);
            let mut kf = match start {
                0 => KeyFlags::default(),
                n => {
                    let raw = expand(t.u64(), n - 1);
                    KeyFlags::try_from_reader(&raw[..]).unwrap_or_default()
                }
            };
            let mut ops = vec![];
            for _ in 0..t.below(5) {
                let v = t.chance(190);
                let which = t.below(10);
                match which {
                    0 => kf.set_certify(v),
                    1 => kf.set_encrypt_comms(v),
                    2 => kf.set_encrypt_storage(v),
                    3 => kf.set_sign(v),
                    4 => kf.set_shared(v),
                    5 => kf.set_authentication(v),
                    6 => kf.set_shared(v),
                    7 => kf.set_group(v),
                    8 => kf.set_adsk(v),
                    _ => kf.set_timestamping(v),
                }
                ops.push(format!("{}={v}", ["certify", "encrypt_comms", "encrypt_storage", "sign", "shared", "authentication", "shared", "group", "adsk", "timestamping"][which]));
            }
            (SubpacketData::KeyFlags(kf), format!("KeyFlags from {} then {ops:?}", if start == 0 { "default()".to_string() } else { format!("{} parsed octets", start - 1) }))
        }
        3 | 4 => {
            let start = t.below(4);
            let mut f = match start {
                0 => Features::new(),
                n => Features::from(&expand(t.u64(), n - 1)[..]),
            };
            let mut ops = vec![];
            for _ in 0..t.below(3) {
                let v = t.bool();
                if t.bool() {
                    f.set_seipd_v1(v);
                    ops.push(format!("seipd_v1={v}"));
                } else {
                    f.set_seipd_v2(v);
                    ops.push(format!("seipd_v2={v}"));
                }
            }
            (SubpacketData::Features(f), format!("Features from {} then {ops:?}", if start == 0 { "new()".to_string() } else { format!("{} octets", start - 1) }))
        }
        5 => (SubpacketData::PreferredSymmetricAlgorithms(bytes(t, 12).into_iter().map(SymmetricKeyAlgorithm::from).collect()), "PreferredSymmetricAlgorithms".into()),
        6 => (SubpacketData::PreferredHashAlgorithms(bytes(t, 12).into_iter().map(HashAlgorithm::from).collect()), "PreferredHashAlgorithms".into()),
        7 => (SubpacketData::PreferredCompressionAlgorithms(bytes(t, 12).into_iter().map(pgp::types::CompressionAlgorithm::from).collect()), "PreferredCompressionAlgorithms".into()),
        8 => (SubpacketData::KeyServerPreferences(bytes(t, 7).into_iter().collect()), "KeyServerPreferences".into()),
        9 => (SubpacketData::RevocationReason(RevocationCode::from(t.u8()), bytes(t, 60).into()), "RevocationReason".into()),
        10 => (SubpacketData::IsPrimary(t.bool()), "IsPrimary".into()),
        11 => (SubpacketData::Revocable(t.bool()), "Revocable".into()),
        12 => (SubpacketData::Notation(Notation { readable: t.bool(), name: bytes(t, 40).into(), value: bytes(t, 300).into() }), "Notation".into()),
        13 => {
            // RFC 9580 5.2.3.23: the fingerprint of a Revocation Key subpacket is a 20-octet v4 fingerprint
            let fp = expand(t.u64(), 20);
            (SubpacketData::RevocationKey(RevocationKey::new(if t.bool() { RevocationKeyClass::Default } else { RevocationKeyClass::Sensitive }, pgp::crypto::public_key::PublicKeyAlgorithm::from(t.u8()), &fp)), format!("RevocationKey with a {}-octet fingerprint", fp.len()))
        }
        14 => (SubpacketData::TrustSignature(t.u8(), t.u8()), "TrustSignature".into()),
        15 => (SubpacketData::ExportableCertification(t.bool()), "ExportableCertification".into()),
        16 => {
            let v6 = t.bool();
            let fp = Fingerprint::new(if v6 { KeyVersion::V6 } else { KeyVersion::V4 }, &expand(t.u64(), if v6 { 32 } else { 20 })).expect("fingerprint");
            if t.bool() {
                (SubpacketData::IntendedRecipientFingerprint(fp), "IntendedRecipientFingerprint".into())
            } else {
                (SubpacketData::IssuerFingerprint(fp), "IssuerFingerprint".into())
            }
        }
        17 => (SubpacketData::PreferredEncryptionModes(bytes(t, 5).into_iter().map(AeadAlgorithm::from).collect()), "PreferredEncryptionModes".into()),
        18 => {
            let b = bytes(t, 12);
            (SubpacketData::PreferredAeadAlgorithms(b.chunks_exact(2).map(|c| (SymmetricKeyAlgorithm::from(c[0]), AeadAlgorithm::from(c[1]))).collect()), "PreferredAeadAlgorithms".into())
        }
        19 => (SubpacketData::Experimental(100 + t.below(11) as u8, bytes(t, 40).into()), "Experimental".into()),
        20 => (SubpacketData::Other(*t.pick(&[0u8, 1, 8, 13, 36, 38, 41, 60, 99, 111, 127]), bytes(t, 40).into()), "Other".into()),
        21 => (SubpacketData::SignatureTarget(pgp::crypto::public_key::PublicKeyAlgorithm::from(t.u8()), HashAlgorithm::from(t.u8()), bytes(t, 64).into()), "SignatureTarget".into()),
        22 => (SubpacketData::SignatureExpirationTime(Duration::from_secs(t.u32())), "SignatureExpirationTime".into()),
        23 => (SubpacketData::KeyExpirationTime(Duration::from_secs(t.u32())), "KeyExpirationTime".into()),
        24 => (SubpacketData::IssuerKeyId(KeyId::from(<[u8; 8]>::try_from(&expand(t.u64(), 8)[..]).expect("8"))), "IssuerKeyId".into()),
        _ => (SubpacketData::SignatureCreationTime(Timestamp::from_secs(t.u32())), "SignatureCreationTime (second)".into()),
    }
}

fn api_subpacket_case(t: &mut Tape, rec: &mut Rec) -> CaseResult {
    use pgp::packet::{SignatureConfig, SignatureType};
    use pgp::types::{KeyDetails, Timestamp};
    let (data, what) = api_subpacket_value(t);
    let name = format!("{data:?}").split(['(', ' ', '{']).next().unwrap_or("?").to_string();
    rec.label(format!("api-subpacket:{name}"));
    rec.nontrivial((what.clone(), format!("{data:?}")));
    rec.describe(|| format!("{what}: {data:?}"));
    // (1) the subpacket alone
    let sp = match Subpacket::regular(data.clone()) {
        Ok(sp) => sp,
        Err(e) => {
            // values the constructor refuses are not objects the library can construct
            rec.label("api-subpacket:refused-by-constructor");
            let _ = e;
            return Ok(());
        }
    };
    let mut w = vec![];
    if let Err(e) = sp.to_writer(&mut w) {
        return fail("C05:api-subpacket-fails-to-serialize", format!("{what}: {e}"));
    }
    if sp.write_len() != w.len() {
        return fail(format!("C05:subpacket-{name}-write-len-differs-from-bytes-written"), format!("{what}: write_len {}, written {}", sp.write_len(), w.len()));
    }
    // (2) carried in the hashed (or unhashed) area of a signature made now
    let kind = if t.bool() { Kind::Ed25519V4 } else { Kind::Ed25519V6 };
    let z = zoo::get(kind);
    let key = &z.secret.primary_key;
    let mut rng = ChaCha8Rng::from_seed(t.seed32());
    let mut cfg = if kind.is_v6() { SignatureConfig::v6(&mut rng, SignatureType::Binary, key.algorithm(), HashAlgorithm::Sha512).map_err(|e| crate::engine::Fail { sig: "C05:sign-error".into(), detail: e.to_string() })? } else { SignatureConfig::v4(SignatureType::Binary, key.algorithm(), HashAlgorithm::Sha256) };
    let base = vec![Subpacket::regular(SubpacketData::SignatureCreationTime(Timestamp::from_secs(1_700_000_123))).expect("subpacket"), Subpacket::regular(SubpacketData::IssuerFingerprint(key.fingerprint())).expect("subpacket")];
    let in_hashed = t.chance(180);
    if in_hashed {
        cfg.hashed_subpackets = [base, vec![sp.clone()]].concat();
    } else {
        cfg.hashed_subpackets = base;
        cfg.unhashed_subpackets = vec![sp.clone()];
    }
    rec.label(if in_hashed { "api-subpacket:in-hashed-area" } else { "api-subpacket:in-unhashed-area" });
    let sig = match cfg.sign(key, &Password::empty(), &b"data"[..]) {
        Ok(s) => s,
        Err(_) => {
            rec.label("api-subpacket:refused-at-sign-time");
            return Ok(());
        }
    };
    let p: Packet = sig.clone().into();
    let (w, ann) = packet_with_header(&p).map_err(|e| crate::engine::Fail { sig: "C05:accepted-packet-fails-to-serialize".into(), detail: format!("{what}: {e}") })?;
    if w.len() != ann {
        return fail("C05:write-len-with-header-differs-from-bytes-written:api-built-signature", format!("{what}: announced {ann}, written {}", w.len()));
    }
    // the header must de-frame to exactly one packet (independent de-framer)
    match wire::split_packets(&w) {
        Ok(ps) if ps.len() == 1 => {}
        other => return fail("C05:api-built-signature-header-does-not-match-body", format!("{what}: de-framer says {:?}", other.map(|v| v.len()))),
    }
    match parse_one(&w) {
        Ok(p2) => {
            let mut w2 = vec![];
            let _ = pgp::packet::PacketTrait::to_writer_with_header(&p2, &mut w2);
            if w2 != w {
                return fail("C05:api-built-signature-reencoded-differently", format!("{what}: {} bytes written, {} after parse and re-serialization", w.len(), w2.len()));
            }
            if p2 != p {
                return fail("C05:reparsed-value-differs:api-built-subpacket", format!("{what}: the signature parsed back from its own serialization is not equal to the signature that was serialized"));
            }
            if let Packet::Signature(s2) = &p2 {
                if s2.verify(&z.public.primary_key, &b"data"[..]).is_err() {
                    return fail("C05:api-built-signature-does-not-verify-after-round-trip", what);
                }
            }
        }
        Err(e) => return fail("C05:own-serialization-rejected", format!("signature carrying {what}: {e}")),
    }
    Ok(())
}


// ---------------------------------------------------------------------------------------------
// packets built through the public constructors
// ---------------------------------------------------------------------------------------------

fn api_built_packet(t: &mut Tape) -> Result<(Packet, String), String> {
    use pgp::composed::RawSessionKey;
    use pgp::crypto::aead::ChunkSize;
    use pgp::crypto::public_key::PublicKeyAlgorithm;
    use pgp::types::PacketHeaderVersion;
    use pgp::packet::{LiteralData, OnePassSignature, Padding, PublicKeyEncryptedSessionKey, SignatureType, SymEncryptedProtectedData, SymKeyEncryptedSessionKey, UserAttribute, UserId};
    use pgp::types::KeyId;
    let mut rng = ChaCha8Rng::from_seed(t.seed32());
    let e = |e: pgp::errors::Error| e.to_string();
    let sig_types = [SignatureType::Binary, SignatureType::Text, SignatureType::Standalone, SignatureType::CertGeneric, SignatureType::SubkeyBinding, SignatureType::Timestamp];
    let pv = if t.chance(40) { PacketHeaderVersion::Old } else { PacketHeaderVersion::New };
    Ok(match t.below(13) {
        12 => {
            // a v6 SKESK assembled from its public fields with an S2K specifier of a reserved, private
            // or unassigned type (opaque octets, delimited by the packet's S2K length octet)
            use pgp::packet::AeadProps;
            use pgp::types::Tag;
            let unknown: bytes::Bytes = { let n = t.range(0, 24); expand(t.u64(), n) }.into();
            let s2k = match t.below(3) {
                0 => StringToKey::Reserved { unknown: unknown.clone() },
                1 => StringToKey::Private { typ: 100 + t.below(11) as u8, unknown: unknown.clone() },
                _ => StringToKey::Other { typ: *t.pick(&[5u8, 9, 99, 111, 200, 255]), unknown: unknown.clone() },
            };
            let aead = match t.below(3) {
                0 => AeadProps::Eax { iv: [0x41; 16] },
                1 => AeadProps::Ocb { iv: [0x42; 15] },
                _ => AeadProps::Gcm { iv: [0x43; 12] },
            };
            let ivl = match aead {
                AeadProps::Eax { .. } => 16,
                AeadProps::Ocb { .. } => 15,
                AeadProps::Gcm { .. } => 12,
            };
            let encrypted_key: bytes::Bytes = expand(t.u64(), 16 + 16).into();
            let len = 5 + s2k.write_len() + ivl + encrypted_key.len();
            let what = format!("SymKeyEncryptedSessionKey::V6 from fields with {s2k:?}");
            let p = SymKeyEncryptedSessionKey::V6 { packet_header: pgp::packet::PacketHeader::new_fixed(Tag::SymKeyEncryptedSessionKey, len as u32), sym_algorithm: SymmetricKeyAlgorithm::AES128, s2k, aead, encrypted_key };
            (Packet::from(p), what)
        }
        0 => {
            let name = { let n = *t.pick(&[0usize, 1, 8, 200, 255]); expand(t.u64(), n) };
            let n = *t.pick(&[0usize, 1, 100, 191, 192, 8383, 8384, 70_000]);
            let data = expand(t.u64(), n);
            (Packet::from(LiteralData::from_bytes(name.clone(), data.into()).map_err(e)?), format!("LiteralData::from_bytes(name {} bytes, {n} data bytes)", name.len()))
        }
        1 => {
            let text = ["", "line\n", "a\r\nb\rc\n", "ü€\n\n", "no newline"][t.below(5)].repeat(t.range(1, 40));
            (Packet::from(LiteralData::from_str("näme.txt", &text).map_err(e)?), format!("LiteralData::from_str({} bytes)", text.len()))
        }
        2 => {
            let typ = *t.pick(&sig_types);
            let p = OnePassSignature::v3(typ, HashAlgorithm::from(t.u8()), PublicKeyAlgorithm::from(t.u8()), KeyId::from(<[u8; 8]>::try_from(&expand(t.u64(), 8)[..]).expect("8")));
            (Packet::from(p), "OnePassSignature::v3".into())
        }
        3 => {
            let typ = *t.pick(&sig_types);
            let hash = *t.pick(&[HashAlgorithm::Sha256, HashAlgorithm::Sha384, HashAlgorithm::Sha512, HashAlgorithm::Sha3_256, HashAlgorithm::Sha3_512, HashAlgorithm::Sha224]);
            let salt_len = if t.chance(200) { hash.salt_len().unwrap_or(16) } else { t.range(0, 40) };
            let p = OnePassSignature::v6(typ, hash, PublicKeyAlgorithm::from(t.u8()), expand(t.u64(), salt_len), <[u8; 32]>::try_from(&expand(t.u64(), 32)[..]).expect("32"));
            (Packet::from(p), format!("OnePassSignature::v6 ({hash:?}, salt {salt_len})"))
        }
        4 | 5 => {
            let kind = *t.pick(zoo::ALL_RECIPIENTS);
            let z = zoo::get(kind);
            let sub = &z.public.public_subkeys[0];
            let alg = *t.pick(&[SymmetricKeyAlgorithm::AES128, SymmetricKeyAlgorithm::AES192, SymmetricKeyAlgorithm::AES256, SymmetricKeyAlgorithm::Camellia256, SymmetricKeyAlgorithm::TripleDES]);
            let sk = RawSessionKey::from(&expand(t.u64(), alg.key_size())[..]);
            if t.bool() || kind.is_v6() && t.bool() {
                (Packet::from(PublicKeyEncryptedSessionKey::from_session_key_v6(&mut rng, &sk, sub).map_err(e)?), format!("PublicKeyEncryptedSessionKey::from_session_key_v6 to {kind:?}"))
            } else {
                (Packet::from(PublicKeyEncryptedSessionKey::from_session_key_v3(&mut rng, &sk, alg, sub).map_err(e)?), format!("PublicKeyEncryptedSessionKey::from_session_key_v3 to {kind:?} ({alg:?})"))
            }
        }
        6 => {
            let alg = *t.pick(&[SymmetricKeyAlgorithm::AES128, SymmetricKeyAlgorithm::AES256, SymmetricKeyAlgorithm::Twofish, SymmetricKeyAlgorithm::CAST5]);
            let sk = RawSessionKey::from(&expand(t.u64(), alg.key_size())[..]);
            let pw = Password::from(&expand(t.u64(), t.range(0, 40))[..]);
            let s2k = match t.below(3) {
                0 => StringToKey::new_iterated(&mut rng, HashAlgorithm::Sha256, t.u8()),
                1 => StringToKey::Salted { hash_alg: HashAlgorithm::Sha512, salt: [5; 8] },
                _ => StringToKey::new_argon2(&mut rng, 1, 1, 5),
            };
            if t.bool() {
                (Packet::from(SymKeyEncryptedSessionKey::encrypt_v4(&pw, &sk, s2k.clone(), alg).map_err(e)?), format!("SymKeyEncryptedSessionKey::encrypt_v4 ({alg:?}, {s2k:?})"))
            } else {
                let aead = *t.pick(&[AeadAlgorithm::Eax, AeadAlgorithm::Ocb, AeadAlgorithm::Gcm]);
                let alg = *t.pick(&[SymmetricKeyAlgorithm::AES128, SymmetricKeyAlgorithm::AES192, SymmetricKeyAlgorithm::AES256]);
                let sk = RawSessionKey::from(&expand(t.u64(), alg.key_size())[..]);
                (Packet::from(SymKeyEncryptedSessionKey::encrypt_v6(&mut rng, &pw, &sk, s2k.clone(), alg, aead).map_err(e)?), format!("SymKeyEncryptedSessionKey::encrypt_v6 ({alg:?}, {aead:?}, {s2k:?})"))
            }
        }
        7 => {
            let alg = *t.pick(&[SymmetricKeyAlgorithm::AES128, SymmetricKeyAlgorithm::AES256, SymmetricKeyAlgorithm::Blowfish, SymmetricKeyAlgorithm::Camellia192]);
            let n = *t.pick(&[0usize, 1, 15, 16, 17, 189, 190, 8000, 9000]);
            let key = expand(t.u64(), alg.key_size());
            (Packet::from(SymEncryptedProtectedData::encrypt_seipdv1(&mut rng, alg, &key, &expand(t.u64(), n)).map_err(e)?), format!("SymEncryptedProtectedData::encrypt_seipdv1 ({alg:?}, {n} bytes)"))
        }
        8 => {
            let alg = *t.pick(&[SymmetricKeyAlgorithm::AES128, SymmetricKeyAlgorithm::AES192, SymmetricKeyAlgorithm::AES256]);
            let aead = *t.pick(&[AeadAlgorithm::Eax, AeadAlgorithm::Ocb, AeadAlgorithm::Gcm]);
            let cs = *t.pick(&[ChunkSize::C64B, ChunkSize::C128B, ChunkSize::C4KiB]);
            let n = *t.pick(&[0usize, 1, 63, 64, 65, 127, 128, 129, 150, 4095, 4096, 4097, 8191, 8192, 9000]);
            let key = expand(t.u64(), alg.key_size());
            (Packet::from(SymEncryptedProtectedData::encrypt_seipdv2(&mut rng, alg, aead, cs, &key, &expand(t.u64(), n)).map_err(e)?), format!("SymEncryptedProtectedData::encrypt_seipdv2 ({alg:?}, {aead:?}, {cs:?}, {n} bytes)"))
        }
        9 => {
            let s = if t.chance(90) { "x".repeat(*t.pick(&[191usize, 192, 255, 256, 8383, 8384, 65_535, 65_536, 65_537])) } else { ["", "Alice <alice@example.org>", "ü", "x"][t.below(4)].repeat(*t.pick(&[1usize, 1, 50, 200, 3000])) };
            (Packet::from(UserId::from_str(pv, &s).map_err(e)?), format!("UserId::from_str({pv:?}, {} bytes)", s.len()))
        }
        10 => {
            let n = *t.pick(&[0usize, 1, 170, 174, 175, 176, 177, 16000, 16302, 16303, 16304, 17000]);
            (Packet::from(UserAttribute::new_image(expand(t.u64(), n).into()).map_err(e)?), format!("UserAttribute::new_image({n} bytes)"))
        }
        _ => {
            let n = *t.pick(&[0usize, 1, 191, 192, 8383, 8384, 65535, 65536]);
            (Packet::from(Padding::new(&mut rng, pv, n).map_err(e)?), format!("Padding::new({pv:?}, {n})"))
        }
    })
}

fn api_built_packet_case(t: &mut Tape, rec: &mut Rec) -> CaseResult {
    let (p, what) = match api_built_packet(t) {
        Ok(x) => x,
        Err(e) => {
            // a constructor refusing its arguments builds nothing
            rec.label("api-packet:refused-by-constructor");
            rec.describe(|| e.clone());
            return Ok(());
        }
    };
    let name = what.split(['(', ' ']).next().unwrap_or("?").to_string();
    rec.label(format!("api-packet:{name}"));
    rec.nontrivial(what.clone());
    rec.describe(|| what.clone());
    let body = packet_body(&p).map_err(|e| crate::engine::Fail { sig: "C05:api-built-packet-fails-to-serialize".into(), detail: format!("{what}: {e}") })?;
    if body.1 != body.0.len() {
        return fail("C05:body-write-len-differs-from-bytes-written:api-built-packet", format!("{what}: write_len {} but {} bytes written", body.1, body.0.len()));
    }
    let (w, ann) = packet_with_header(&p).map_err(|e| crate::engine::Fail { sig: "C05:api-built-packet-fails-to-serialize".into(), detail: format!("{what}: {e}") })?;
    if w.len() != ann {
        return fail("C05:write-len-with-header-differs-from-bytes-written:api-built-packet", format!("{what}: announced {ann}, written {}", w.len()));
    }
    match wire::split_packets(&w) {
        Ok(ps) if ps.len() == 1 && ps[0].body == body.0 && ps[0].tag == tag_of(&p) => {}
        Ok(ps) => return fail("C05:api-built-packet-header-does-not-match-body", format!("{what}: de-framer sees {} packet(s), first body {} bytes, serialized body {} bytes", ps.len(), ps.first().map_or(0, |p| p.body.len()), body.0.len())),
        Err(e) => return fail("C05:api-built-packet-header-does-not-match-body", format!("{what}: {e}")),
    }
    match parse_one(&w) {
        Ok(p2) => {
            let mut w2 = vec![];
            let _ = pgp::packet::PacketTrait::to_writer_with_header(&p2, &mut w2);
            if w2 != w {
                return fail("C05:api-built-packet-reencoded-differently", format!("{what}: {} bytes written, {} after parse and re-serialization", w.len(), w2.len()));
            }
            if p2 != p {
                return fail("C05:reparsed-value-differs:api-built-packet", format!("{what}: the packet parsed back from its own serialization is not equal to the packet that was serialized"));
            }
        }
        Err(e) => return fail("C05:own-serialization-rejected", format!("{what}: {e}")),
    }
    Ok(())
}


// ---------------------------------------------------------------------------------------------
// freshly generated keys: value-dependent encodings of secret and public material
// ---------------------------------------------------------------------------------------------

fn fresh_key_case(t: &mut Tape, rec: &mut Rec) -> CaseResult {
    use pgp::composed::{EncryptionCaps, KeyType, SecretKeyParamsBuilder, SubkeyParamsBuilder};
    use pgp::crypto::ecc_curve::ECCCurve;
    use pgp::types::{KeyVersion, Timestamp};
    let idx = t.u64();
    let (version, prim, sub, name) = match idx % 4 {
        0 | 1 => (KeyVersion::V4, KeyType::Ed25519Legacy, KeyType::ECDH(ECCCurve::Curve25519Legacy), "EdDSA-legacy + Curve25519-legacy (v4)"),
        2 => (KeyVersion::V4, KeyType::ECDSA(ECCCurve::P256), KeyType::ECDH(ECCCurve::P256), "ECDSA/ECDH P-256 (v4)"),
        _ => (KeyVersion::V6, KeyType::Ed25519, KeyType::X25519, "Ed25519 + X25519 (v6)"),
    };
    let mut rng = ChaCha8Rng::seed_from_u64(0xF4E5_0000_0000 ^ idx);
    let mut b = SecretKeyParamsBuilder::default();
    b.version(version).key_type(prim).can_certify(true).can_sign(true).created_at(Timestamp::from_secs(1_650_000_000 + (idx % 1000) as u32)).primary_user_id(format!("fresh {idx}"));
    b.subkey(SubkeyParamsBuilder::default().version(version).key_type(sub).can_encrypt(EncryptionCaps::All).created_at(Timestamp::from_secs(1_650_000_001)).build().map_err(|e| crate::engine::Fail { sig: "C05:fresh-key-params".into(), detail: e.to_string() })?);
    let key = b.build().map_err(|e| crate::engine::Fail { sig: "C05:fresh-key-params".into(), detail: e.to_string() })?.generate(&mut rng).map_err(|e| crate::engine::Fail { sig: "C05:fresh-key-generate".into(), detail: e.to_string() })?;
    rec.label(format!("fresh-key:{name}"));
    rec.nontrivial(idx);
    rec.describe(|| format!("freshly generated {name} key #{idx}"));
    let check = |rec: &mut Rec, what: &str, k: &SignedSecretKey| {
        let bytes = match k.to_bytes() {
            Ok(b) => b,
            Err(e) => {
                rec.soft_fail("C05:fresh-key-fails-to-serialize", format!("{what} {name} #{idx}: {e}"));
                return;
            }
        };
        if k.write_len() != bytes.len() {
            rec.soft_fail("C05:SignedSecretKey-write-len-differs-from-bytes-written", format!("{what} {name} #{idx}: write_len {} but {} bytes written", k.write_len(), bytes.len()));
        }
        // the emitted stream de-frames into packets whose announced lengths are right
        match wire::split_packets(&bytes) {
            Ok(ps) => {
                let expected = if version == KeyVersion::V6 { 6 } else { 5 };
                if ps.len() != expected {
                    rec.soft_fail("C05:written-header-does-not-match-body", format!("{what} {name} #{idx}: certificate of {expected} packets de-frames into {}", ps.len()));
                }
                for p in &ps {
                    if p.tag == 5 || p.tag == 7 {
                        let short = keys::parse_key(&p.body, true).is_none();
                        if short {
                            rec.soft_fail("C05:written-key-packet-does-not-decode", format!("{what} {name} #{idx}: tag {} body {} bytes", p.tag, p.body.len()));
                        }
                    }
                }
            }
            Err(e) => rec.soft_fail("C05:written-header-does-not-match-body", format!("{what} {name} #{idx}: {e}")),
        }
        match SignedSecretKey::from_bytes(&bytes[..]) {
            Ok(k2) => {
                if &k2 != k {
                    rec.soft_fail("C05:reparsed-value-differs", format!("{what} {name} #{idx}"));
                }
                match k2.to_bytes() {
                    Ok(b2) if b2 == bytes => {}
                    _ => rec.soft_fail("C05:canonical-input-reencoded-differently", format!("{what} {name} #{idx}")),
                }
            }
            Err(e) => rec.soft_fail("C05:own-serialization-rejected", format!("{what} {name} #{idx}: {e}")),
        }
    };
    check(rec, "generated", &key);
    // value-dependent widths: count the cases that exercise them
    for p in wire::split_packets(&key.to_bytes().unwrap_or_default()).unwrap_or_default() {
        if (p.tag == 5 || p.tag == 7) && p.body.len() >= 2 {
            if let Some(kb) = keys::parse_key(&p.body, true) {
                if let Some(keys::Protection::Plain { material_and_checksum }) = &kb.protection {
                    if material_and_checksum.len() >= 2 {
                        let bits = u16::from_be_bytes([material_and_checksum[0], material_and_checksum[1]]) as usize;
                        if kb.alg == 22 || kb.alg == 18 || kb.alg == 19 {
                            if bits <= 248 {
                                rec.label("fresh-key:secret-scalar-with-leading-zero-octet");
                            }
                        }
                    }
                }
            }
        }
    }
    // lock and unlock through the API, lengths and round trip again
    let mut locked = key.clone();
    let pw = Password::from("fresh");
    let mut ok = locked.primary_key.set_password_with_s2k(&pw, S2kParams::Cfb { sym_alg: SymmetricKeyAlgorithm::AES128, s2k: StringToKey::new_iterated(&mut rng, HashAlgorithm::Sha256, 0), iv: vec![7u8; 16].into() }).is_ok();
    for s in locked.secret_subkeys.iter_mut() {
        ok &= s.key.set_password_with_s2k(&pw, S2kParams::Cfb { sym_alg: SymmetricKeyAlgorithm::AES128, s2k: StringToKey::new_iterated(&mut rng, HashAlgorithm::Sha256, 0), iv: vec![9u8; 16].into() }).is_ok();
    }
    if ok {
        check(rec, "locked", &locked);
        let mut unlocked = locked.clone();
        let mut ok2 = unlocked.primary_key.remove_password(&pw).is_ok();
        for s in unlocked.secret_subkeys.iter_mut() {
            ok2 &= s.key.remove_password(&pw).is_ok();
        }
        if ok2 {
            check(rec, "unlocked again", &unlocked);
            if unlocked.to_bytes().ok() != key.to_bytes().ok() {
                rec.soft_fail("C05:unlocked-key-differs-from-original", format!("{name} #{idx}"));
            }
        } else {
            rec.soft_fail("C05:fresh-key-does-not-unlock", format!("{name} #{idx}"));
        }
    } else {
        rec.soft_fail("C05:fresh-key-does-not-lock", format!("{name} #{idx}"));
    }
    Ok(())
}

pub fn run(ctx: &Ctx) {
    ctx.set_rule("generated: packet bodies produced field by field by the harness' own RFC 9580 encoder (signatures v3/v4/v6 with all subpacket types incl. critical/unknown/long/embedded, SKESK v4/v5/v6, PKESK v3/v6, OPS v3/v6, literal/compressed/SEIPD/SED/marker/padding/trust/user id/user attribute, public and secret (sub)keys of all zoo algorithms with every S2K usage/type/cipher) under canonical new-format or legacy headers, every one-octet id drawn from the listed values or 0..255; oracle on every accepted packet: re-serialization identical to the input, write_len == bytes written (packet, body, with header), header de-frames to exactly the body, parse(serialize(v)) == v; API group: zoo certificates (public/secret/locked), set_password_with_s2k/remove_password, Subpacket::regular over multi-byte strings, unhashed subpacket push/insert/remove, detached signatures, re-framed literal packets; freshly-generated-keys: 4000 (thorough 100000) EdDSA-legacy/Curve25519-legacy, P-256 and v6 Ed25519/X25519 keys from distinct seeds so that leading-zero scalars occur (counted per run), exported, de-framed, re-imported, locked and unlocked through the API, each time with the length and equality oracle; api-built-packets: LiteralData::from_bytes/from_str, OnePassSignature::v3/v6, PublicKeyEncryptedSessionKey::from_session_key_v3/v6 to every zoo recipient, SymKeyEncryptedSessionKey::encrypt_v4/v6, SymEncryptedProtectedData::encrypt_seipdv1/v2 at chunk edges, UserId::from_str, UserAttribute::new_image at length-class edges, Padding::new, under new and legacy headers - same oracle; api-subpacket-values: every SubpacketData variant built through constructors and setters (KeyFlags/Features from default or parsed 0..3 octets then any setter sequence, preference lists of arbitrary ids and lengths, notations, revocation keys, fingerprints, experimental/other ids, ...) carried in the hashed or unhashed area of a freshly made v4/v6 signature: subpacket and packet write_len == bytes written, header de-frames, parse(serialize(v)) == v, identical re-encoding, still verifies; non-trivial = packet accepted by the parser / API object built; distinct = (tag, body length, description)");
    ctx.assume("the harness' encoder emits only canonical encodings (minimal lengths, canonical MPIs); inputs rPGP rejects are counted, not judged");
    zoo::warm(zoo::ALL);
    let keys = harvest_keys();
    ctx.note("harvested_key_materials", serde_json::json!(keys.len()));
    let n = ctx.tier.pick(60_000u64, 1_500_000);
    ctx.group("generated-packets", Source::Random { n, tape_len: 1200 }, |t, rec| generated_case(t, rec, &keys));
    let n = ctx.tier.pick(4_000u64, 60_000);
    ctx.group("api-objects", Source::Random { n, tape_len: 120 }, api_case);
    let n = ctx.tier.pick(20_000u64, 400_000);
    ctx.group("api-subpacket-values", Source::Random { n, tape_len: 260 }, api_subpacket_case);
    let n = ctx.tier.pick(6_000u64, 150_000);
    ctx.group("api-built-packets", Source::Random { n, tape_len: 200 }, api_built_packet_case);
    let n = ctx.tier.pick(4_000u64, 100_000);
    ctx.group("freshly-generated-keys", Source::Indexed { count: n }, fresh_key_case);
}
