//! C08 — secret-key locking: the right password restores the key, nothing else does.

use pgp::crypto::aead::AeadAlgorithm;
use pgp::crypto::hash::HashAlgorithm;
use pgp::crypto::sym::SymmetricKeyAlgorithm;
use pgp::packet::{Packet, PacketParser};
use pgp::ser::Serialize;
use pgp::types::{Password, S2kParams, StringToKey};
use rand::{RngCore, SeedableRng};
use rand_chacha::ChaCha8Rng;

use crate::engine::{expand, fail, CaseResult, Ctx, Fail, Rec, Source, Tape};
use crate::msg::{AEADS, AES, CIPHERS};
use crate::refimpl::crypto::{self as rc, S2k};
use crate::refimpl::keys::{self, Protection};
use crate::refimpl::wire;
use crate::zoo::{self, Kind};

fn f(sig: &str, d: impl Into<String>) -> Fail {
    Fail { sig: sig.to_string(), detail: d.into() }
}

fn draw_pw(t: &mut Tape) -> Vec<u8> {
    match t.below(6) {
        0 => vec![],
        1 => b"correct horse battery staple".to_vec(),
        2 => vec![0xff, 0xfe, 0x00, 0x80, 0x01],
        3 => expand(t.u64(), 1024),
        4 => "pässwörd €".as_bytes().to_vec(),
        _ => {
            let n = t.range(1, 40);
            expand(t.u64(), n)
        }
    }
}

fn wrong_pws(t: &mut Tape, pw: &[u8]) -> Vec<Vec<u8>> {
    let mut v = vec![];
    if !pw.is_empty() {
        let mut a = pw.to_vec();
        let i = t.below(a.len());
        a[i] ^= 1 << t.below(8);
        v.push(a);
        v.push(pw[..pw.len() - 1].to_vec());
        v.push(vec![]);
    } else {
        v.push(vec![0]);
        v.push(b" ".to_vec());
    }
    let mut b = pw.to_vec();
    b.push(0);
    v.push(b);
    v
}

/// parse a single secret key packet and try to unlock it; returns the serialized unlocked body
fn rpgp_unlock(tag: u8, body: &[u8], pw: &[u8]) -> Result<Vec<u8>, String> {
    let pkt = wire::new_packet(tag, body);
    match PacketParser::new(&pkt[..]).next() {
        Some(Ok(Packet::SecretKey(mut k))) => {
            k.remove_password(&Password::from(pw)).map_err(|e| format!("unlock: {e}"))?;
            k.to_bytes().map_err(|e| e.to_string())
        }
        Some(Ok(Packet::SecretSubkey(mut k))) => {
            k.remove_password(&Password::from(pw)).map_err(|e| format!("unlock: {e}"))?;
            k.to_bytes().map_err(|e| e.to_string())
        }
        Some(Ok(_)) => Err("parse: different packet type".into()),
        Some(Err(e)) => Err(format!("parse: {e}")),
        None => Err("parse: nothing".into()),
    }
}

fn pick_key(t: &mut Tape) -> (Kind, u8, Vec<u8>) {
    let kind = if t.chance(200) { *t.pick(&[Kind::Ed25519V4, Kind::Ed25519V6, Kind::EdLegacyV4, Kind::P256V4]) } else { *t.pick(zoo::ALL_SIGNERS) };
    let z = zoo::get(kind);
    if t.bool() || z.secret.secret_subkeys.is_empty() {
        (kind, 5, z.secret.primary_key.to_bytes().unwrap())
    } else {
        (kind, 7, z.secret.secret_subkeys[0].key.to_bytes().unwrap())
    }
}

/// (i) lock through the API
fn api_case(t: &mut Tape, rec: &mut Rec) -> CaseResult {
    let (kind, tag, plain_body) = pick_key(t);
    let v6 = kind.is_v6();
    let pw = draw_pw(t);
    let mut rng = ChaCha8Rng::from_seed(t.seed32());
    let aead_mode = t.chance(if v6 { 170 } else { 90 });
    let hash = *t.pick(&[HashAlgorithm::Sha256, HashAlgorithm::Sha512, HashAlgorithm::Sha224, HashAlgorithm::Sha3_256]);
    let mut salt = [0u8; 8];
    rng.fill_bytes(&mut salt);
    let s2k = match t.below(if aead_mode { 2 } else { 3 }) {
        0 => StringToKey::IteratedAndSalted { hash_alg: hash, salt, count: if t.chance(6) { 255 } else { *t.pick(&[0u8, 1, 96, 30, 17, 64]) } },
        1 if aead_mode => {
            let mut s16 = [0u8; 16];
            rng.fill_bytes(&mut s16);
            StringToKey::Argon2 { salt: s16, t: t.range(1, 2) as u8, p: t.range(1, 2) as u8, m_enc: t.range(4, 6) as u8 }
        }
        1 => StringToKey::Salted { hash_alg: hash, salt },
        _ => {
            if v6 {
                StringToKey::Salted { hash_alg: hash, salt }
            } else {
                StringToKey::Simple { hash_alg: hash }
            }
        }
    };
    let sym = if aead_mode { *t.pick(&AES) } else { *t.pick(&CIPHERS) };
    let aead = *t.pick(&AEADS);
    let params = if aead_mode {
        let mut nonce = vec![0u8; aead.nonce_size()];
        rng.fill_bytes(&mut nonce);
        S2kParams::Aead { sym_alg: sym, aead_mode: aead, s2k: s2k.clone(), nonce: nonce.into() }
    } else {
        let mut iv = vec![0u8; sym.block_size()];
        rng.fill_bytes(&mut iv);
        S2kParams::Cfb { sym_alg: sym, s2k: s2k.clone(), iv: iv.into() }
    };
    rec.label(format!("api:{}", if aead_mode { "usage253" } else { "usage254" }));
    rec.label(format!("key:{kind:?}:tag{tag}"));
    rec.label(format!("s2k:{}", format!("{s2k:?}").split([' ', '{']).next().unwrap_or("?")));
    rec.label(format!("cipher:{sym:?}"));
    rec.label(match pw.len() {
        0 => "pw:empty",
        1024 => "pw:1KiB",
        _ => "pw:other",
    });
    // lock
    let pkt = wire::new_packet(tag, &plain_body);
    let locked_body = match PacketParser::new(&pkt[..]).next() {
        Some(Ok(Packet::SecretKey(mut k))) => k.set_password_with_s2k(&Password::from(&pw[..]), params.clone()).map(|_| k.to_bytes().unwrap()),
        Some(Ok(Packet::SecretSubkey(mut k))) => k.set_password_with_s2k(&Password::from(&pw[..]), params.clone()).map(|_| k.to_bytes().unwrap()),
        _ => return fail("C08:plain-key-does-not-parse", format!("{kind:?}")),
    };
    let locked_body = match locked_body {
        Ok(b) => b,
        Err(_) => {
            rec.label("api:lock-refused");
            return Ok(());
        }
    };
    rec.nontrivial((format!("{kind:?}{tag}"), aead_mode, format!("{s2k:?}").len(), format!("{sym:?}{aead:?}"), pw.len()));
    rec.describe(|| format!("{kind:?} tag {tag} locked via API with {} {sym:?} {aead:?} {s2k:?}, password {} bytes", if aead_mode { "AEAD" } else { "CFB" }, pw.len()));
    crate::ensure_prop!(locked_body != plain_body, "C08:locked-key-equals-plain-key", "{kind:?}");
    // right password (after serialize -> parse)
    match rpgp_unlock(tag, &locked_body, &pw) {
        Ok(b) => crate::ensure_prop!(b == plain_body, "C08:unlock-returns-different-material", "{kind:?} {} {sym:?} {s2k:?}", if aead_mode { "AEAD" } else { "CFB" }),
        Err(e) => return fail("C08:right-password-does-not-unlock", format!("{e}; {kind:?} {} {sym:?} {aead:?} {s2k:?} pw {} bytes", if aead_mode { "AEAD" } else { "CFB" }, pw.len())),
    }
    // usage octet and S2K parameters as requested (differential via R-wire)
    match keys::parse_key(&locked_body, true).and_then(|k| k.protection) {
        Some(Protection::Aead { sym: s, aead: a, .. }) => {
            rec.check(aead_mode && s == u8::from(sym) && a == u8::from(aead), "C08:emitted-protection-parameters-differ", || format!("253 {s} {a}"));
        }
        Some(Protection::Cfb { sha1, sym: s, .. }) => {
            rec.check(!aead_mode && sha1 && s == u8::from(sym), "C08:emitted-protection-parameters-differ", || format!("cfb sha1={sha1} {s}"));
        }
        other => rec.soft_fail("C08:emitted-protection-parameters-differ", format!("{other:?}")),
    }
    // wrong passwords
    for w in wrong_pws(t, &pw) {
        rec.add_evals(1);
        if let Ok(b) = rpgp_unlock(tag, &locked_body, &w) {
            return fail("C08:wrong-password-unlocks", format!("{kind:?}: password {} bytes instead of {} bytes unlocked (material equal: {})", w.len(), pw.len(), b == plain_body));
        }
    }
    // tampering
    tamper(t, rec, tag, &locked_body, &plain_body, &pw, false)
}

/// single-bit flips of the protected blob / parameters / (AEAD) bound public fields / packet tag
/// does this (possibly damaged) secret key body ask for an Argon2 derivation that is not tiny?
fn expensive_argon2(body: &[u8]) -> bool {
    match keys::parse_key(body, true).and_then(|k| k.protection) {
        Some(Protection::Aead { s2k: S2k::Argon2 { t, p, m_enc, .. }, .. }) | Some(Protection::Cfb { s2k: S2k::Argon2 { t, p, m_enc, .. }, .. }) => m_enc > 12 || t > 8 || p > 8,
        _ => false,
    }
}

fn tamper(t: &mut Tape, rec: &mut Rec, tag: u8, locked_body: &[u8], plain_body: &[u8], pw: &[u8], weak_mode: bool) -> CaseResult {
    let kb = keys::parse_key(locked_body, true).ok_or_else(|| f("C08:reference-key-parse", "locked body"))?;
    let pub_len = kb.public_body.len();
    let aead = matches!(kb.protection, Some(Protection::Aead { .. }));
    let n = locked_body.len();
    for _ in 0..4 {
        let class = t.below(5);
        let (pos, what) = match class {
            0 | 1 => (pub_len + t.below(n - pub_len), "protection parameters / protected blob"),
            2 => (n - 1 - t.below((n - pub_len).min(40)), "tail of the protected blob"),
            3 => (pub_len + t.below(((n - pub_len) / 2).max(1)), "protection parameters"),
            _ => {
                if aead {
                    (t.below(pub_len), "public key fields bound as associated data")
                } else {
                    (pub_len + t.below(n - pub_len), "protected blob")
                }
            }
        };
        let bit = t.below(8);
        let mut b = locked_body.to_vec();
        b[pos] ^= 1 << bit;
        if expensive_argon2(&b) {
            // the flip turned the S2K parameters into an Argon2 setting inside rPGP's documented
            // ceiling (up to 2 GiB, t and p up to 32): running it is C19's business, not a tamper case
            rec.label("tamper:skipped-expensive-argon2");
            continue;
        }
        rec.add_evals(1);
        rec.label(format!("tamper:{}", what.split(' ').next().unwrap()));
        match rpgp_unlock(tag, &b, pw) {
            Err(_) => {}
            Ok(m) => {
                // the mutated packet unlocked: compare with the plain packet carrying the same public fields
                let mut expect = plain_body.to_vec();
                if pos < pub_len {
                    expect[pos] ^= 1 << bit;
                }
                if m == expect && pos >= pub_len {
                    rec.label("tamper:no-semantic-effect");
                    continue;
                }
                if pos < pub_len && m == plain_body {
                    // the parser normalised the change away (e.g. a non-canonical MPI bit count):
                    // the public key value, and with it the associated data, is unchanged
                    rec.label("tamper:public-field-change-normalised-by-parser");
                    continue;
                }
                if weak_mode {
                    // 16-bit checksum only: a collision is legitimate with probability 2^-16
                    rec.label("weak_mode_collision");
                    continue;
                }
                return fail(if pos < pub_len { "C08:aead-protection-does-not-bind-public-fields" } else { "C08:tampered-key-unlocks" }, format!("bit {bit} of body byte {pos}/{n} ({what}) flipped, unlock succeeded (material equal to original: {})", m == expect));
            }
        }
    }
    // packet tag swap (primary <-> subkey) for AEAD: tag is bound
    if aead {
        let other = if tag == 5 { 7 } else { 5 };
        rec.add_evals(1);
        if rpgp_unlock(other, locked_body, pw).is_ok() {
            return fail("C08:aead-protection-does-not-bind-packet-tag", format!("locked as tag {tag}, unlocked as tag {other}"));
        }
    }
    Ok(())
}

/// (ii) locked by the reference with every S2K usage octet
fn wire_case(t: &mut Tape, rec: &mut Rec) -> CaseResult {
    let (kind, tag, plain_body) = pick_key(t);
    let v6 = kind.is_v6();
    let pw = draw_pw(t);
    let plain_kb = keys::parse_key(&plain_body, true).ok_or_else(|| f("C08:reference-key-parse", "plain"))?;
    let plain = keys::plain_material(plain_kb.version, plain_kb.protection.as_ref().unwrap()).unwrap();
    let usage = *t.pick(&[253u8, 254, 254, 255, 255, 1]);
    let hash = *t.pick(&[8u8, 10, 11, 12]);
    let salt: [u8; 8] = expand(t.u64(), 8).try_into().unwrap();
    let s2k = match t.below(4) {
        0 if usage == 253 => S2k::Argon2 { salt: expand(t.u64(), 16).try_into().unwrap(), t: 1, p: 1, m_enc: 4 },
        1 if usage != 253 => S2k::Salted { hash, salt },
        2 if usage != 253 && !v6 => S2k::Simple { hash },
        _ => S2k::Iterated { hash, salt, coded: if t.chance(6) { 200 } else { *t.pick(&[0u8, 7, 96, 40]) } },
    };
    let sym = if usage == 253 { *t.pick(&[7u8, 8, 9]) } else { *t.pick(&[7u8, 8, 9, 3, 2, 10, 11, 13, 4, 1]) };
    let aead = *t.pick(&[1u8, 2, 3]);
    let bs = rc::sym_block_size(sym).unwrap();
    let prot = match usage {
        253 => {
            let nonce = expand(t.u64(), rc::aead_nonce_len(aead).unwrap());
            let ct = rc::secret_aead_crypt(0xC0 | tag, plain_kb.version, sym, aead, &s2k, &pw, &nonce, &plain_kb.public_body, &plain, true).map_err(|e| f("C08:reference-error", e))?;
            Protection::Aead { sym, aead, s2k: s2k.clone(), nonce, ct }
        }
        254 | 255 => {
            let iv = expand(t.u64(), bs);
            let ct = rc::secret_cfb_encrypt(sym, &s2k, &pw, &iv, &plain, usage == 254).map_err(|e| f("C08:reference-error", e))?;
            Protection::Cfb { sha1: usage == 254, sym, s2k: s2k.clone(), iv, ct }
        }
        _ => {
            // legacy: usage octet is the cipher id, key = MD5(password), 16-bit checksum
            use digest::Digest;
            let key = md5::Md5::digest(&pw);
            let ks = rc::sym_key_size(sym).unwrap();
            if ks > 16 {
                rec.discard();
                return Ok(());
            }
            let iv = expand(t.u64(), bs);
            let mut buf = plain.clone();
            buf.extend_from_slice(&rc::checksum16(&plain));
            rc::cfb_encrypt(sym, &key[..ks], &iv, &mut buf);
            Protection::Legacy { sym, iv, ct: buf }
        }
    };
    let mut body = plain_kb.public_body.clone();
    body.extend_from_slice(&keys::encode_protection(plain_kb.version, &prot));
    let legal_for_v6 = matches!(usage, 253 | 254);
    let uname = match usage {
        253 => "253",
        254 => "254",
        255 => "255",
        _ => "legacy-cipher-octet",
    };
    rec.label(format!("wire:usage-{uname}:{}", if v6 { "v6" } else { "v4" }));
    rec.label(format!("wire:s2k-{}", match s2k { S2k::Simple { .. } => "simple", S2k::Salted { .. } => "salted", S2k::Iterated { .. } => "iterated", S2k::Argon2 { .. } => "argon2" }));
    rec.nontrivial((format!("{kind:?}{tag}"), usage, sym, format!("{s2k:?}").len(), pw.len()));
    rec.describe(|| format!("{kind:?} tag {tag} locked by the reference: usage {uname}, cipher {sym}, aead {aead}, {s2k:?}, password {} bytes", pw.len()));
    let res = rpgp_unlock(tag, &body, &pw);
    if v6 && !legal_for_v6 {
        // RFC 9580: v6 secret keys must not use usage 255 / legacy: must be refused, never unlocked to other material
        if let Ok(m) = res {
            crate::ensure_prop!(m == plain_body, "C08:unlock-returns-different-material", "v6 usage {uname}");
            rec.label("wire:v6-weak-usage-accepted");
        }
        return Ok(());
    }
    match res {
        Ok(m) => crate::ensure_prop!(m == plain_body, "C08:unlock-returns-different-material", "usage {uname} cipher {sym} {s2k:?}"),
        Err(e) => {
            let sig = format!("C08:wire-locked-key-does-not-unlock:usage-{uname}");
            return fail(&sig, format!("{e}; {kind:?} tag {tag} cipher {sym} aead {aead} {s2k:?} password {} bytes", pw.len()));
        }
    }
    // the usage octet is reported and re-emitted unchanged
    let pkt = wire::new_packet(tag, &body);
    if let Some(Ok(p)) = PacketParser::new(&pkt[..]).next() {
        let out = p.to_bytes().unwrap_or_default();
        rec.check(out == pkt, "C08:locked-key-re-emitted-differently", || format!("usage {uname}"));
    }
    for w in wrong_pws(t, &pw) {
        rec.add_evals(1);
        if let Ok(m) = rpgp_unlock(tag, &body, &w) {
            if matches!(usage, 253 | 254) || m == plain_body {
                return fail("C08:wrong-password-unlocks", format!("usage {uname}: password {} bytes instead of {} bytes", w.len(), pw.len()));
            }
            rec.label("weak_mode_collision");
        }
    }
    tamper(t, rec, tag, &body, &plain_body, &pw, !matches!(usage, 253 | 254))
}

pub fn run(ctx: &Ctx) {
    ctx.set_rule("keys: primary and subkey secret packets of all zoo algorithms (v4 and v6); (i) locked through set_password_with_s2k with S2kParams::{Cfb x 11 ciphers, Aead x AES x {EAX,OCB,GCM}} x S2K {simple, salted, iterated (counts 0,1,17,30,96,255), argon2 small} x hash x passwords {empty, ASCII, non-UTF-8, UTF-8, 1 KiB}; (ii) locked by the reference (R-crypto + own key-packet encoder) with usage 253, 254, 255 and the legacy cipher octet; oracle: right password (after serialize -> parse) restores exactly the original key packet; wrong passwords (one bit off, prefix, empty, extended) fail; single-bit flips of the protected blob, IV/nonce, S2K parameters, cipher octet, and for AEAD the bound public fields and the packet tag make unlocking fail; emitted usage/cipher/AEAD octets equal the request and wire-locked keys re-emit unchanged; 16-bit-checksum modes may collide with probability 2^-16 (counted as weak_mode_collision, not judged); non-trivial = every locked key; distinct = (key, usage, cipher, s2k shape, password length)");
    ctx.assume("v6 keys with usage 255 / legacy octet must not unlock to different material; whether they are refused outright is not asserted");
    zoo::warm(zoo::ALL_SIGNERS);
    let n = ctx.tier.pick(3000u64, 300_000);
    ctx.group("locked-through-api", Source::Random { n, tape_len: 200 }, api_case);
    ctx.group("locked-by-reference", Source::Random { n, tape_len: 200 }, wire_case);
    let _ = (AeadAlgorithm::Ocb, SymmetricKeyAlgorithm::AES128);
}
