//! C17 — packet framing: the reader accepts every legal framing, the writer emits only legal ones.

use std::io::Read;

use pgp::composed::Message;
use pgp::crypto::hash::HashAlgorithm;
use pgp::packet::{Packet, PacketParser};
use pgp::ser::Serialize;

use crate::engine::{expand, fail, CaseResult, Ctx, Rec, Source, Tape, Tier};
use crate::io::{Consumer, Sched, SchedRead};
use crate::msg::{Enc, MsgConfig, PwSpec, S2kKind};
use crate::pk::{packet_body, packet_with_header, tag_of};
use crate::refimpl::wire::{self, LenKind};
use crate::zoo::{self, Kind};

const SENTINEL: &[u8] = b"sentinel <after@the.packet>";
const LENS: [usize; 16] = [0, 1, 2, 190, 191, 192, 193, 255, 256, 8382, 8383, 8384, 8385, 65535, 65536, 70000];

/// fixed-content bodies harvested from real artifacts (keys, signatures, ESKs, OPS ...)
fn harvest() -> Vec<(u8, Vec<u8>)> {
    let mut out = vec![];
    for k in [Kind::Ed25519V4, Kind::Ed25519V6, Kind::RsaV4, Kind::P256V4] {
        let z = zoo::get(k);
        for bytes in [z.public.to_bytes().unwrap(), z.secret.to_bytes().unwrap(), z.locked.to_bytes().unwrap()] {
            for p in wire::split_packets(&bytes).unwrap() {
                out.push((p.tag, p.body));
            }
        }
    }
    let mut cfg = MsgConfig::plain();
    cfg.enc = Enc::V1(pgp::crypto::sym::SymmetricKeyAlgorithm::AES128);
    cfg.passwords = vec![PwSpec { pw: b"pw".to_vec(), s2k: S2kKind::Iterated(0) }];
    cfg.recipients = vec![(Kind::Ed25519V4, false), (Kind::RsaV4, true)];
    for p in wire::split_packets(&cfg.build(b"hello").unwrap()).unwrap() {
        out.push((p.tag, p.body));
    }
    cfg.enc = Enc::V2(pgp::crypto::sym::SymmetricKeyAlgorithm::AES128, pgp::crypto::aead::AeadAlgorithm::Ocb, 0);
    cfg.recipients = vec![(Kind::Ed25519V6, false)];
    for p in wire::split_packets(&cfg.build(b"hello").unwrap()).unwrap() {
        out.push((p.tag, p.body));
    }
    let mut cfg = MsgConfig::plain();
    cfg.signers = vec![(Kind::Ed25519V4, HashAlgorithm::Sha256), (Kind::Ed25519V6, HashAlgorithm::Sha512)];
    for p in wire::split_packets(&cfg.build(b"hello").unwrap()).unwrap() {
        out.push((p.tag, p.body));
    }
    out.push((10, b"PGP".to_vec()));
    out.push((19, vec![0x11; 20]));
    // dedup
    out.sort();
    out.dedup();
    out
}

/// variable-length body of a given tag
fn var_body(tag: u8, len: usize, seed: u64) -> Vec<u8> {
    match tag {
        13 => {
            // user id: printable
            expand(seed, len).into_iter().map(|b| b'a' + b % 26).collect()
        }
        11 => wire::literal_body(b'b', b"", 0, &expand(seed, len.saturating_sub(6))),
        8 => {
            let mut v = vec![0u8];
            v.extend_from_slice(&expand(seed, len.saturating_sub(1)));
            v
        }
        18 => {
            let mut v = vec![1u8];
            v.extend_from_slice(&expand(seed, len.saturating_sub(1)));
            v
        }
        _ => expand(seed, len),
    }
}

#[derive(Clone, Debug)]
enum Framing {
    New(u8),
    Old(u8),
    Indeterminate,
    Partial(Vec<u8>, u8),
}

fn frame(tag: u8, body: &[u8], f: &Framing) -> Option<Vec<u8>> {
    match f {
        Framing::New(o) => wire::new_packet_with(tag, body, *o),
        Framing::Old(t) => wire::old_packet(tag, body, *t),
        Framing::Indeterminate => wire::old_packet(tag, body, 3),
        Framing::Partial(exps, last) => wire::partial_packet(tag, body, exps, *last),
    }
}

fn draw_partial(t: &mut Tape, len: usize, first_min: u8) -> Option<(Vec<u8>, u8)> {
    // exponents sequence with sum <= len; first >= first_min
    let mut exps = vec![];
    let mut used = 0usize;
    let n = t.range(1, 6);
    for i in 0..n {
        let lo = if i == 0 { first_min } else { 0 };
        let mut cands: Vec<u8> = (lo..=17).filter(|e| used + (1usize << e) <= len).collect();
        if cands.is_empty() {
            break;
        }
        // prefer larger or boundary ones sometimes
        let e = if t.bool() { *cands.last().unwrap() } else { cands.remove(t.below(cands.len())) };
        exps.push(e);
        used += 1usize << e;
    }
    if exps.is_empty() {
        return None;
    }
    let rest = len - used;
    let mut forms: Vec<u8> = vec![5];
    if rest < 192 {
        forms.push(1);
    } else if rest < 8384 {
        forms.push(2);
    }
    // empty last chunk when the exponents consumed everything is included naturally (rest == 0)
    let last = *t.pick(&forms);
    Some((exps, last))
}

fn parse_all(bytes: &[u8], sched: Sched) -> Vec<Result<Packet, String>> {
    PacketParser::new(SchedRead::new(bytes.to_vec(), sched)).map(|r| r.map_err(|e| e.to_string())).take(8).collect()
}

fn sentinel_ok(items: &[Result<Packet, String>], idx: usize) -> bool {
    matches!(items.get(idx), Some(Ok(Packet::UserId(u))) if u.id() == SENTINEL) && items.len() == idx + 1
}

fn legal_case(t: &mut Tape, rec: &mut Rec, bodies: &[(u8, Vec<u8>)]) -> CaseResult {
    // choose body
    let (tag, body): (u8, Vec<u8>) = if t.chance(110) {
        let (tg, b) = &bodies[t.below(bodies.len())];
        (*tg, b.clone())
    } else {
        let tag = *t.pick(&[13u8, 11, 8, 18, 9, 21, 12, 13, 11, 40, 63, 22]);
        let len = if t.chance(190) { *t.pick(&LENS) } else { t.below(70_001) };
        let len = if tag == 11 { len.max(6) } else if tag == 8 || tag == 18 { len.max(1) } else { len };
        (tag, var_body(tag, len, t.u64()))
    };
    let n = body.len();
    let known = !matches!(tag, 0 | 7 | 15 | 16 | 22..=63) || tag == 21;
    // choose framing
    let data_tag = wire::partial_allowed(tag);
    let framing = match t.below(10) {
        0 | 1 => Framing::New(5),
        2 => Framing::New(if n < 192 { 1 } else if n < 8384 { 2 } else { 5 }),
        3 | 4 if tag <= 15 => {
            let mut ts: Vec<u8> = vec![2];
            if n < 65536 {
                ts.push(1);
            }
            if n < 256 {
                ts.push(0);
            }
            Framing::Old(*t.pick(&ts))
        }
        5 if tag <= 15 => Framing::Indeterminate,
        6..=9 if data_tag && n >= 512 => match draw_partial(t, n, 9) {
            Some((e, l)) => Framing::Partial(e, l),
            None => Framing::New(5),
        },
        _ => Framing::New(5),
    };
    let framed = match frame(tag, &body, &framing) {
        Some(f) => f,
        None => {
            rec.discard();
            return Ok(());
        }
    };
    let canonical = wire::new_packet(tag, &body);
    let with_sentinel = !matches!(framing, Framing::Indeterminate);
    let mut stream = framed.clone();
    let mut cstream = canonical.clone();
    if with_sentinel {
        stream.extend_from_slice(&wire::new_packet(13, SENTINEL));
    }
    cstream.extend_from_slice(&wire::new_packet(13, SENTINEL));
    rec.label(format!("tag:{tag}"));
    rec.label(match &framing {
        Framing::New(o) => format!("framing:new-{o}-octet"),
        Framing::Old(o) => format!("framing:legacy-type{o}"),
        Framing::Indeterminate => "framing:indeterminate".to_string(),
        Framing::Partial(e, l) => format!("framing:partial-{}chunks-last{l}{}", e.len().min(4), if e.iter().map(|x| 1usize << x).sum::<usize>() == n { "-empty" } else { "" }),
    });
    rec.label(match n {
        0 => "body:0",
        1..=191 => "body:<192",
        192..=8383 => "body:<8384",
        _ => "body:>=8384",
    });
    rec.nontrivial((tag, n, format!("{framing:?}")));
    rec.describe(|| format!("tag {tag} body {n} bytes framing {framing:?}"));
    let sched = Sched::draw(t, stream.len(), &[1, 2, 3, 6, 512 + 2, 8192]);
    let got = parse_all(&stream, sched.clone());
    let reference = parse_all(&cstream, Sched::whole());
    let ctxs = || format!("tag {tag} body {n} bytes framing {framing:?} source {}", sched.describe());
    // the canonical framing must itself be handled: one item for the packet, then the sentinel
    if !sentinel_ok(&reference, 1) {
        return fail("C17:canonical-framing-loses-following-packet", format!("{}; items: {:?}", ctxs(), reference.iter().map(|r| r.as_ref().map(|p| tag_of(p)).map_err(|e| e.clone())).collect::<Vec<_>>()));
    }
    if with_sentinel && !sentinel_ok(&got, 1) {
        return fail("C17:legal-framing-loses-following-packet", format!("{}; items: {:?}", ctxs(), got.iter().map(|r| r.as_ref().map(|p| tag_of(p)).map_err(|e| e.clone())).collect::<Vec<_>>()));
    }
    match (&reference[0], got.first()) {
        (Ok(pc), Some(Ok(pg))) => {
            let (bc, _) = packet_body(pc).map_err(|e| crate::engine::Fail { sig: "C17:serialize-error".into(), detail: e.to_string() })?;
            let (bg, _) = packet_body(pg).map_err(|e| crate::engine::Fail { sig: "C17:serialize-error".into(), detail: e.to_string() })?;
            crate::ensure_prop!(tag_of(pc) == tag_of(pg) && bc == bg, "C17:legal-framing-parsed-to-different-value", "{}: body {} vs {} bytes", ctxs(), bg.len(), bc.len());
            // writer side: what rPGP writes for this packet is legally framed and truthful
            for (nm, p) in [("canonical", pc), ("reframed", pg)] {
                let (w, announced) = packet_with_header(p).map_err(|e| crate::engine::Fail { sig: "C17:serialize-error".into(), detail: e.to_string() })?;
                match wire::split_packets(&w) {
                    Ok(ps) if ps.len() == 1 => {
                        let rp = &ps[0];
                        if let Err(e) = wire::framing_is_legal(rp) {
                            rec.soft_fail("C17:writer-emits-illegal-framing", format!("{nm} {}: {e}", ctxs()));
                        }
                        if rp.tag != tag || rp.body != bc {
                            rec.soft_fail("C17:writer-header-does-not-match-body", format!("{nm} {}: written packet de-frames to tag {} body {} bytes (kind {:?}), expected {} bytes; written: {}", ctxs(), rp.tag, rp.body.len(), rp.len_kind, bc.len(), hex::encode(&w[..w.len().min(24)])));
                        }
                        if matches!(framing, Framing::Indeterminate) && nm == "reframed" {
                            // indeterminate headers are kept as they are
                        } else if rp.len_kind == LenKind::Indeterminate && nm == "canonical" {
                            rec.soft_fail("C17:writer-emits-illegal-framing", format!("indeterminate length written for {}", ctxs()));
                        }
                    }
                    Ok(ps) => rec.soft_fail("C17:writer-header-does-not-match-body", format!("{nm} {}: written bytes de-frame to {} packets", ctxs(), ps.len())),
                    Err(e) => rec.soft_fail("C17:writer-header-does-not-match-body", format!("{nm} {}: written bytes do not de-frame: {e}", ctxs())),
                }
                // announced length is checked by C05 (write_len_with_header has a recorded defect for re-framed packets)
                let _ = announced;
            }
        }
        (Err(_), Some(Err(_))) => {
            rec.label("unknown-or-unsupported-body");
        }
        (Err(_), None) if matches!(framing, Framing::Indeterminate) => {}
        (r, g) => {
            return fail("C17:legal-framing-judged-differently-from-canonical", format!("{}: canonical {:?}, this framing {:?}", ctxs(), r.as_ref().map(|p| tag_of(p)).map_err(|e| e.clone()), g.map(|x| x.as_ref().map(|p| tag_of(p)).map_err(|e| e.clone()))));
        }
    }
    let _ = known;
    // message level for literal packets: body bytes equal
    if tag == 11 {
        if let Some((_, _, _, data)) = wire::parse_literal(&body) {
            let m = Message::from_bytes(SchedRead::new(framed.clone(), sched.clone()));
            match m {
                Ok(mut m) => {
                    let cons = Consumer::draw(t);
                    let (d, res) = cons.drive(&mut m);
                    if res.is_err() || d != data {
                        return fail("C17:message-reader-mis-splits-legal-framing", format!("{}: {:?}, {} of {} bytes, consumer {cons:?}", ctxs(), res.err().map(|e| e.to_string()), d.len(), data.len()));
                    }
                }
                Err(e) => return fail("C17:message-reader-rejects-legal-framing", format!("{}: {e}", ctxs())),
            }
        }
    }
    Ok(())
}

fn illegal_case(t: &mut Tape, rec: &mut Rec) -> CaseResult {
    let class = t.below(5);
    let (stream, what, tag, body_len): (Vec<u8>, String, u8, usize) = match class {
        0 => {
            // partial on a non-data tag
            let tag = *t.pick(&[13u8, 2, 6, 12, 21, 10, 1, 3, 4, 14, 17, 40]);
            let n = t.range(512, 5000);
            let body = var_body(tag, n, t.u64());
            let (e, l) = draw_partial(t, n, 9).unwrap();
            (wire::partial_packet(tag, &body, &e, l).unwrap(), format!("partial body length on non-data tag {tag}"), tag, n)
        }
        1 => {
            // first chunk < 512
            let tag = *t.pick(&[11u8, 8, 18, 9]);
            let n = t.range(1, 3000);
            let body = var_body(tag, n.max(7), t.u64());
            let n = body.len();
            let mut cands: Vec<u8> = (0..9).filter(|e| (1usize << e) <= n).collect();
            let e0 = cands.remove(t.below(cands.len()));
            let mut exps = vec![e0];
            let mut used = 1usize << e0;
            // optionally more chunks
            while t.bool() && exps.len() < 4 {
                let c: Vec<u8> = (0..12).filter(|e| used + (1usize << e) <= n).collect();
                if c.is_empty() {
                    break;
                }
                let e = *t.pick(&c);
                exps.push(e);
                used += 1usize << e;
            }
            (wire::partial_packet(tag, &body, &exps, 5).unwrap(), format!("first partial chunk 2^{e0} < 512 on tag {tag}"), tag, n)
        }
        2 => {
            // declared fixed length longer than what follows (truncated)
            let tag = *t.pick(&[13u8, 11, 8, 18, 21, 2, 12]);
            let n = t.range(1, 9000);
            let body = var_body(tag, n.max(7), t.u64());
            let n = body.len();
            let full = match t.below(3) {
                0 => wire::new_packet(tag, &body),
                2 if tag <= 15 => wire::old_packet(tag, &body, 2).unwrap(),
                _ => wire::new_packet_with(tag, &body, 5).unwrap(),
            };
            let hdr = full.len() - n;
            let cut = hdr + t.below(n);
            (full[..cut].to_vec(), format!("declared {n} body bytes, {} supplied, tag {tag}", cut - hdr), tag, n)
        }
        3 => {
            // partial sequence cut after an intermediate chunk / inside the final one
            let tag = *t.pick(&[11u8, 8, 18]);
            let n = t.range(600, 9000);
            let body = var_body(tag, n, t.u64());
            let (e, l) = draw_partial(t, n, 9).unwrap();
            let full = wire::partial_packet(tag, &body, &e, l).unwrap();
            let first = 1 + 1 + (1usize << e[0]);
            let cut = if t.bool() { first.min(full.len() - 1) } else { first + t.below((full.len() - first).max(1)) };
            let cut = cut.min(full.len() - 1);
            (full[..cut].to_vec(), format!("partial sequence {e:?}+last cut at {cut} of {}", full.len()), tag, n)
        }
        _ => {
            // length octets themselves truncated
            let tag = *t.pick(&[13u8, 11, 2]);
            let n = t.range(200, 9000);
            let body = var_body(tag, n, t.u64());
            let full = wire::new_packet_with(tag, &body, 5).unwrap();
            let cut = t.range(1, 5);
            (full[..cut].to_vec(), format!("header cut after {cut} octets"), tag, n)
        }
    };
    rec.label(format!("illegal:{}", ["partial-on-non-data-tag", "first-chunk-under-512", "truncated-fixed", "truncated-partial", "truncated-header"][class]));
    rec.nontrivial((class, what.clone()));
    rec.describe(|| format!("{what} ({} bytes)", stream.len()));
    let sched = Sched::draw(t, stream.len(), &[2, 3, 6]);
    let items = parse_all(&stream, sched.clone());
    match items.first() {
        None | Some(Err(_)) => {}
        Some(Ok(p)) => {
            let (b, _) = packet_body(p).unwrap_or((vec![], 0));
            return fail("C17:illegal-framing-accepted", format!("{what}: parser returned Ok(tag {}, body {} bytes) (declared body {body_len}); source {}", tag_of(p), b.len(), sched.describe()));
        }
    }
    // data packets through the message reader: never a clean read
    if matches!(tag, 11) {
        if let Ok(mut m) = Message::from_bytes(&stream[..]) {
            let mut out = vec![];
            if m.read_to_end(&mut out).is_ok() {
                return fail("C17:illegal-framing-read-cleanly-by-message-reader", format!("{what}: {} bytes read to a clean end", out.len()));
            }
        }
    }
    Ok(())
}

/// exhaustive: every sequence of partial chunk exponents (first >= 9) fitting a body of given length
fn exhaustive_partial(t: &mut Tape, rec: &mut Rec, seqs: &[(usize, Vec<u8>, u8)]) -> CaseResult {
    let (n, exps, last) = &seqs[t.u64() as usize];
    let data = expand(*n as u64, n - 6);
    let body = wire::literal_body(b'b', b"", 0, &data);
    let framed = wire::partial_packet(11, &body, exps, *last).unwrap();
    rec.nontrivial((*n, exps.clone(), *last));
    rec.describe(|| format!("literal body {n} bytes, partial exponents {exps:?}, last length in {last} octets"));
    let mut m = Message::from_bytes(&framed[..]).map_err(|e| crate::engine::Fail { sig: "C17:message-reader-rejects-legal-framing".into(), detail: format!("exps {exps:?} last {last}: {e}") })?;
    let mut out = vec![];
    if let Err(e) = m.read_to_end(&mut out) {
        return fail("C17:message-reader-rejects-legal-framing", format!("exps {exps:?} last {last}: {e}"));
    }
    crate::ensure_prop!(out == data, "C17:message-reader-mis-splits-legal-framing", "exps {exps:?} last {last}: {} of {} bytes", out.len(), data.len());
    let items = parse_all(&framed, Sched::whole());
    crate::ensure_prop!(items.len() == 1 && items[0].is_ok(), "C17:legal-framing-judged-differently-from-canonical", "packet parser on exps {exps:?}: {:?}", items.iter().map(|r| r.is_ok()).collect::<Vec<_>>());
    Ok(())
}

fn enumerate_partials(max_len: usize, lens: &[usize]) -> Vec<(usize, Vec<u8>, u8)> {
    fn rec(remaining: usize, first: bool, cur: &mut Vec<u8>, out: &mut Vec<Vec<u8>>, depth: usize) {
        if !cur.is_empty() {
            out.push(cur.clone());
        }
        if depth == 0 {
            return;
        }
        let lo = if first { 9 } else { 0 };
        for e in lo..=13u8 {
            if (1usize << e) <= remaining {
                cur.push(e);
                rec(remaining - (1usize << e), false, cur, out, depth - 1);
                cur.pop();
            }
        }
    }
    let mut v = vec![];
    for &n in lens {
        if n > max_len {
            continue;
        }
        let mut seqs = vec![];
        rec(n, true, &mut vec![], &mut seqs, 3);
        for s in seqs {
            let used: usize = s.iter().map(|e| 1usize << e).sum();
            let rest = n - used;
            let mut forms = vec![5u8];
            if rest < 192 {
                forms.push(1);
            } else if rest < 8384 {
                forms.push(2);
            }
            for f in forms {
                v.push((n, s.clone(), f));
            }
        }
    }
    v
}

pub fn run(ctx: &Ctx) {
    ctx.set_rule("bodies: real packet bodies harvested from zoo keys/messages (all key, signature, ESK, OPS, SEIPD types) and generated bodies (user id, literal, compressed, SEIPD, SED, padding, trust, unknown tags) with lengths at 0,1,191/192/193,255/256,8382..8385,65535/65536,70000 and random; framings by the harness' own framer: new-format 1/2/5-octet, legacy types 0/1/2, indeterminate, partial sequences (first >= 512, later chunks 2^0..2^17, final chunk in 1/2/5 octets, possibly empty); oracle: parse equals the parse of the canonical framing (body bytes), a following sentinel packet is found, literal data through the message reader equals the data; illegal framings (partial on non-data tags, first chunk < 512, truncated bodies/sequences/headers) never yield an Ok packet; writer: every parsed packet re-serializes to a legally framed packet whose header matches its body; exhaustive group: every partial exponent sequence of up to 3 chunks (2^9..2^13) for the listed body lengths; non-trivial = every case; distinct = (tag, body length, framing)");
    ctx.assume("the harness' own framer/de-framer (RFC 9580 4.2) is the reference");
    zoo::warm(&[Kind::Ed25519V4, Kind::Ed25519V6, Kind::RsaV4, Kind::P256V4]);
    let bodies = harvest();
    ctx.note("harvested_bodies", serde_json::json!(bodies.len()));
    let n = ctx.tier.pick(30_000u64, 4_800_000);
    ctx.group("legal-framings", Source::Random { n, tape_len: 160 }, |t, rec| legal_case(t, rec, &bodies));
    let n = ctx.tier.pick(10_000u64, 1_600_000);
    ctx.group("illegal-framings", Source::Random { n, tape_len: 120 }, illegal_case);
    let lens: Vec<usize> = if ctx.tier == Tier::Thorough { vec![518, 600, 1024 + 6, 1536, 2048 + 6, 2054, 3000, 4102, 8198, 8200, 9000, 12000, 16390, 20000] } else { vec![518, 1030, 1536, 2054, 4102, 8198, 9000] };
    let seqs = enumerate_partials(20000, &lens);
    ctx.note("exhaustive_scope", serde_json::json!(format!("all partial exponent sequences (<=3 chunks, exponents 9..13 first, 0..13 later) x final length forms for literal bodies of lengths {lens:?}: {} framings", seqs.len())));
    ctx.group("exhaustive-partial-sequences", Source::Indexed { count: seqs.len() as u64 }, |t, rec| exhaustive_partial(t, rec, &seqs));
}
