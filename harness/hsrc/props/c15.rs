//! C15 — version-alignment and criticality rules are enforced on every path (decision tables).

use std::io::Read;

use pgp::composed::{DecryptionOptions, Deserializable, Message, PlainSessionKey, RawSessionKey, SignedPublicKey, SignedSecretKey, TheRing};
use pgp::crypto::hash::HashAlgorithm;
use pgp::crypto::sym::SymmetricKeyAlgorithm;
use pgp::packet::{KeyFlags, Packet, PacketParser, Signature, SignatureConfig, SignatureType, Subpacket, SubpacketData};
use pgp::ser::Serialize;
use pgp::types::{KeyDetails, KeyVersion, Password, Timestamp};
use rand::SeedableRng;
use rand_chacha::ChaCha8Rng;

use crate::engine::{expand, fail, CaseResult, Ctx, Fail, Rec, Source, Tape};
use crate::msg::MsgConfig;
use crate::recsign::RecordingSigner;
use crate::refimpl::crypto::{self as rc, S2k};
use crate::refimpl::keys;
use crate::refimpl::pkesk;
use crate::refimpl::wire;
use crate::zoo::{self, Kind};

fn f(sig: &str, d: impl Into<String>) -> Fail {
    Fail { sig: sig.to_string(), detail: d.into() }
}

// ---------------------------------------------------------------------------------------------
// (a)/(f) ESK version x container x options
// ---------------------------------------------------------------------------------------------

#[derive(Clone, Copy, Debug, PartialEq)]
enum EskKind {
    Pkesk3,
    Pkesk6,
    Skesk4,
    Skesk5,
    Skesk6,
}
#[derive(Clone, Copy, Debug, PartialEq)]
enum Container {
    Sed,
    Seipd1,
    Seipd2,
    GnupgAead,
}
#[derive(Clone, Copy, Debug, PartialEq)]
enum Opt {
    Default,
    Legacy,
    Gnupg,
    Both,
}

const ESKS: [EskKind; 5] = [EskKind::Pkesk3, EskKind::Pkesk6, EskKind::Skesk4, EskKind::Skesk5, EskKind::Skesk6];
const CONTAINERS: [Container; 4] = [Container::Sed, Container::Seipd1, Container::Seipd2, Container::GnupgAead];
const OPTS: [Opt; 4] = [Opt::Default, Opt::Legacy, Opt::Gnupg, Opt::Both];

fn aligned(e: EskKind, c: Container) -> bool {
    match c {
        Container::Sed | Container::Seipd1 => matches!(e, EskKind::Pkesk3 | EskKind::Skesk4),
        Container::Seipd2 => matches!(e, EskKind::Pkesk6 | EskKind::Skesk6),
        Container::GnupgAead => matches!(e, EskKind::Pkesk3 | EskKind::Skesk4 | EskKind::Skesk5),
    }
}

fn enabled(c: Container, e: EskKind, o: Opt) -> bool {
    let legacy = matches!(o, Opt::Legacy | Opt::Both);
    let gnupg = matches!(o, Opt::Gnupg | Opt::Both);
    (match c {
        Container::Sed => legacy,
        Container::GnupgAead => gnupg,
        _ => true,
    }) && (e != EskKind::Skesk5 || gnupg)
}

const PW: &[u8] = b"table-password";

fn make_esk(e: EskKind, sym: u8, sk: &[u8], seed: u64) -> Result<Vec<u8>, String> {
    let s2k = S2k::Iterated { hash: 8, salt: expand(seed, 8).try_into().unwrap(), coded: 0 };
    Ok(match e {
        EskKind::Skesk4 => wire::new_packet(3, &rc::skesk_v4_encrypt(sym, &s2k, PW, Some((sym, sk)))?),
        EskKind::Skesk5 => wire::new_packet(3, &rc::skesk_v5_encrypt(sym, 2, &s2k, PW, &expand(seed ^ 5, 15), sk)?),
        EskKind::Skesk6 => wire::new_packet(3, &rc::skesk_v6_encrypt(sym, 2, &s2k, PW, &expand(seed ^ 6, 15), sk)?),
        EskKind::Pkesk3 | EskKind::Pkesk6 => {
            // to the X25519 subkey of a zoo key (any key version works for both PKESK versions)
            let z = zoo::get(Kind::Ed25519V4);
            let sub = z.secret.secret_subkeys[0].key.to_bytes().map_err(|e| e.to_string())?;
            let kb = keys::parse_key(&sub, true).ok_or("subkey")?;
            let fp = rc::fingerprint(kb.version, &kb.public_body);
            let v = if e == EskKind::Pkesk3 { 3u8 } else { 6 };
            let mut seed32 = [0u8; 32];
            seed32[..8].copy_from_slice(&seed.to_le_bytes());
            let fields = pkesk::pkesk_encrypt(v, &kb, &fp, sym, sk, seed32)?;
            let mut body = vec![v];
            if v == 6 {
                body.push((fp.len() + 1) as u8);
                body.push(kb.version);
                body.extend_from_slice(&fp);
            } else {
                body.extend_from_slice(&rc::key_id(kb.version, &fp));
            }
            body.push(kb.alg);
            body.extend_from_slice(&fields);
            wire::new_packet(1, &body)
        }
    })
}

fn make_container(c: Container, sym: SymmetricKeyAlgorithm, sk: &[u8], inner: &[u8], seed: u64) -> Result<Vec<u8>, String> {
    let id = u8::from(sym);
    Ok(match c {
        Container::Sed => {
            let ct = sym.encrypt(ChaCha8Rng::seed_from_u64(seed), sk, inner).map_err(|e| e.to_string())?;
            wire::new_packet(9, &ct)
        }
        Container::Seipd1 => wire::new_packet(18, &rc::seipdv1_encrypt(id, sk, &expand(seed, 16), inner)),
        Container::Seipd2 => {
            let salt: [u8; 32] = expand(seed, 32).try_into().unwrap();
            wire::new_packet(18, &rc::seipdv2_encrypt(id, 2, 0, &salt, sk, inner)?)
        }
        Container::GnupgAead => wire::new_packet(20, &rc::gnupg_aead_encrypt(id, 2, 0, &expand(seed, 15), sk, inner)?),
    })
}

fn opts(o: Opt) -> DecryptionOptions {
    let mut d = DecryptionOptions::new();
    if matches!(o, Opt::Legacy | Opt::Both) {
        d = d.enable_legacy();
    }
    if matches!(o, Opt::Gnupg | Opt::Both) {
        d = d.enable_gnupg_aead();
    }
    d
}

fn try_open(msg: &[u8], e: Option<EskKind>, psk: Option<PlainSessionKey>, o: Opt) -> Result<Vec<u8>, String> {
    let m = Message::from_bytes(msg).map_err(|e| format!("parse: {e}"))?;
    let pw = Password::from(PW);
    let kpw = Password::empty();
    let z = zoo::get(Kind::Ed25519V4);
    let mut ring = TheRing { decrypt_options: opts(o), ..Default::default() };
    match e {
        Some(EskKind::Pkesk3 | EskKind::Pkesk6) => {
            ring.secret_keys = vec![&z.secret];
            ring.key_passwords = vec![&kpw];
        }
        Some(_) => ring.message_password = vec![&pw],
        None => ring.session_keys = vec![psk.unwrap()],
    }
    let (m, _) = m.decrypt_the_ring(ring, true).map_err(|e| format!("decrypt: {e}"))?;
    let mut m = m;
    let mut out = vec![];
    m.read_to_end(&mut out).map_err(|e| format!("read: {e}"))?;
    Ok(out)
}

fn esk_table_case(t: &mut Tape, rec: &mut Rec) -> CaseResult {
    let idx = t.u64() as usize;
    let total = ESKS.len() * CONTAINERS.len() * OPTS.len() * 2;
    let with_decoy = idx >= total / 2;
    let i = idx % (total / 2);
    let e = ESKS[i % ESKS.len()];
    let c = CONTAINERS[(i / ESKS.len()) % CONTAINERS.len()];
    let o = OPTS[i / (ESKS.len() * CONTAINERS.len())];
    let sym = SymmetricKeyAlgorithm::AES128;
    let sk = expand(ctx_seed() ^ idx as u64, 16);
    let payload = b"aligned or not, that is the question".to_vec();
    let inner = wire::new_packet(11, &wire::literal_body(b'b', b"", 0, &payload));
    let esk = make_esk(e, 7, &sk, idx as u64).map_err(|x| f("C15:reference-error", x))?;
    let cont = make_container(c, sym, &sk, &inner, idx as u64 + 99).map_err(|x| f("C15:reference-error", x))?;
    let mut msg = vec![];
    let mut decoy = None;
    if with_decoy {
        // an ESK of an aligned version for another secret (a password nobody presents / the other kind)
        let d = match c {
            Container::Seipd2 => EskKind::Skesk6,
            _ => EskKind::Skesk4,
        };
        if d != e {
            let wrong_sk = expand(idx as u64 ^ 0xDEC0, 16);
            // wraps a *different* session key under a different password: must not matter
            let s2k = S2k::Iterated { hash: 8, salt: [9; 8], coded: 0 };
            let body = if d == EskKind::Skesk6 { rc::skesk_v6_encrypt(7, 2, &s2k, b"decoy-password", &expand(3, 15), &wrong_sk) } else { rc::skesk_v4_encrypt(7, &s2k, b"decoy-password", Some((7, &wrong_sk))) }.map_err(|x| f("C15:reference-error", x))?;
            msg.extend_from_slice(&wire::new_packet(3, &body));
            decoy = Some(d);
        }
    }
    msg.extend_from_slice(&esk);
    msg.extend_from_slice(&cont);
    let expect = aligned(e, c) && enabled(c, e, o);
    rec.label(format!("esk:{e:?}"));
    rec.label(format!("container:{c:?}"));
    rec.label(format!("options:{o:?}"));
    rec.label(if expect { "expect:decrypts" } else { "expect:refused" });
    rec.nontrivial((i, with_decoy));
    rec.describe(|| format!("{e:?} wrapping the correct session key + {c:?}, options {o:?}{}: expected {}", decoy.map(|d| format!(", aligned decoy {d:?} present")).unwrap_or_default(), if expect { "decrypts" } else { "refused" }));
    let got = try_open(&msg, Some(e), None, o);
    match (&got, expect) {
        (Ok(p), true) => crate::ensure_prop!(*p == payload, "C15:aligned-esk-decrypts-to-different-plaintext", "{e:?}/{c:?}/{o:?}"),
        (Err(_), false) => {}
        (Ok(_), false) => {
            let why = if !aligned(e, c) { "misaligned-esk-used" } else { "disabled-container-or-esk-accepted" };
            return fail(&format!("C15:{why}"), format!("{e:?} + {c:?} with options {o:?} decrypted although it must be refused"));
        }
        (Err(err), true) => return fail("C15:aligned-esk-refused", format!("{e:?} + {c:?} with options {o:?}: {err}")),
    }
    Ok(())
}

fn ctx_seed() -> u64 {
    0x5EED
}

/// explicit session key kinds against each container
fn session_key_table_case(t: &mut Tape, rec: &mut Rec) -> CaseResult {
    let idx = t.u64() as usize;
    let kind = idx % 3;
    let c = CONTAINERS[(idx / 3) % 4];
    let o = OPTS[idx / 12];
    let sym = SymmetricKeyAlgorithm::AES128;
    let sk = expand(idx as u64 ^ 77, 16);
    let payload = b"explicit session key".to_vec();
    let inner = wire::new_packet(11, &wire::literal_body(b'b', b"", 0, &payload));
    let msg = make_container(c, sym, &sk, &inner, idx as u64 + 5).map_err(|x| f("C15:reference-error", x))?;
    let psk = match kind {
        0 => PlainSessionKey::V3_4 { sym_alg: sym, key: RawSessionKey::from(sk.clone()) },
        1 => PlainSessionKey::V5 { key: RawSessionKey::from(sk.clone()) },
        _ => PlainSessionKey::V6 { key: RawSessionKey::from(sk.clone()) },
    };
    let kind_aligned = match c {
        Container::Sed | Container::Seipd1 => kind == 0,
        Container::Seipd2 => kind == 2,
        Container::GnupgAead => kind == 0 || kind == 1,
    };
    let expect = kind_aligned && enabled(c, EskKind::Skesk4, o);
    rec.label(format!("session-key-kind:{}", ["V3_4", "V5", "V6"][kind]));
    rec.label(format!("container:{c:?}"));
    rec.nontrivial(idx);
    rec.describe(|| format!("PlainSessionKey::{} against {c:?}, options {o:?}: expected {}", ["V3_4", "V5", "V6"][kind], if expect { "decrypts" } else { "refused" }));
    let got = try_open(&msg, None, Some(psk), o);
    match (&got, expect) {
        (Ok(p), true) => crate::ensure_prop!(*p == payload, "C15:aligned-session-key-decrypts-to-different-plaintext", "{c:?}"),
        (Err(_), false) => {}
        (Ok(_), false) => return fail("C15:misaligned-session-key-kind-accepted", format!("PlainSessionKey::{} decrypts {c:?} with options {o:?}", ["V3_4", "V5", "V6"][kind])),
        (Err(e), true) => return fail("C15:aligned-session-key-refused", format!("PlainSessionKey::{} vs {c:?} options {o:?}: {e}", ["V3_4", "V5", "V6"][kind])),
    }
    Ok(())
}

// ---------------------------------------------------------------------------------------------
// (b) key version x signature version
// ---------------------------------------------------------------------------------------------

fn version_pairs_case(t: &mut Tape, rec: &mut Rec) -> CaseResult {
    let idx = t.u64() as usize;
    let key_v6 = idx & 1 == 1;
    let text = idx & 2 == 2;
    let kind = if key_v6 { Kind::Ed25519V6 } else { Kind::Ed25519V4 };
    let z = zoo::get(kind);
    let key = &z.secret.primary_key;
    let typ = if text { SignatureType::Text } else { SignatureType::Binary };
    let data = b"version alignment\r\n".to_vec();
    let pw = Password::empty();
    let mut rng = ChaCha8Rng::seed_from_u64(idx as u64);
    let hashed = |k: &dyn KeyDetails| vec![Subpacket::regular(SubpacketData::SignatureCreationTime(Timestamp::from_secs(1_700_000_009))).unwrap(), Subpacket::regular(SubpacketData::IssuerFingerprint(k.fingerprint())).unwrap()];
    rec.nontrivial(idx);
    rec.describe(|| format!("{kind:?}: making and accepting a v{} {} signature", if key_v6 { 4 } else { 6 }, if text { "text" } else { "binary" }));
    // making: the honest key must be refused for the other signature version
    let mut wrong_cfg = if key_v6 { SignatureConfig::v4(typ, key.algorithm(), HashAlgorithm::Sha256) } else { SignatureConfig::v6(&mut rng, typ, key.algorithm(), HashAlgorithm::Sha256).map_err(|e| f("C15:config", e.to_string()))? };
    wrong_cfg.hashed_subpackets = hashed(key);
    if wrong_cfg.clone().sign(key, &pw, &data[..]).is_ok() {
        rec.soft_fail("C15:signing-api-makes-cross-version-signature", format!("{kind:?} made a v{} signature", if key_v6 { 4 } else { 6 }));
    }
    if let Ok(h) = wrong_cfg.clone().into_hasher() {
        if h.sign(key, &pw).is_ok() {
            rec.soft_fail("C15:signing-api-makes-cross-version-signature", format!("SignatureHasher::sign, {kind:?}"));
        }
    }
    // accepting: a cross-version signature with a *correct* digest and a cryptographically valid
    // signature value, produced by a signer that lies about its key version
    let mut liar = RecordingSigner::new(key, true);
    liar.lie_version = Some(if key_v6 { KeyVersion::V4 } else { KeyVersion::V6 });
    // (no issuer fingerprint subpacket: its version would be a second, separate mismatch)
    wrong_cfg.hashed_subpackets = vec![Subpacket::regular(SubpacketData::SignatureCreationTime(Timestamp::from_secs(1_700_000_009))).unwrap()];
    let forged = wrong_cfg.clone().sign(&liar, &pw, &data[..]);
    let Ok(sig) = forged else {
        rec.label("forgery-not-constructible-through-the-api");
        return Ok(());
    };
    rec.label(format!("forged:v{}-signature-by-v{}-key", if key_v6 { 4 } else { 6 }, if key_v6 { 6 } else { 4 }));
    let pubk = &z.public.primary_key;
    if sig.verify(pubk, &data[..]).is_ok() {
        rec.soft_fail("C15:cross-version-signature-accepted:Signature::verify", format!("{kind:?}"));
    }
    if sig.verify(&z.public, &data[..]).is_ok() {
        rec.soft_fail("C15:cross-version-signature-accepted:Signature::verify(SignedPublicKey)", format!("{kind:?}"));
    }
    // inline path: prefixed message
    let mut m = wire::new_packet(2, &sig.to_bytes().unwrap());
    m.extend_from_slice(&wire::new_packet(11, &wire::literal_body(b'b', b"", 0, &data)));
    let parsed = Message::from_bytes(&m[..]);
    if let Ok(mut msg) = parsed {
        let mut out = vec![];
        if msg.read_to_end(&mut out).is_ok() {
            if msg.verify(pubk).is_ok() {
                rec.soft_fail("C15:cross-version-signature-accepted:Message::verify", format!("v{} signature verified inline under the {kind:?} key", if key_v6 { 4 } else { 6 }));
            }
            if let Ok(v) = msg.verify_nested(&[pubk]) {
                if v.iter().any(|r| matches!(r, pgp::composed::VerificationResult::Valid(_))) {
                    rec.soft_fail("C15:cross-version-signature-accepted:Message::verify_nested", format!("{kind:?}"));
                }
            }
        }
    };
    Ok(())
}

// ---------------------------------------------------------------------------------------------
// (b') signer version x signee version x signature version x {third-party user id certification, third-party key signature, subkey binding, primary key binding}: aligned with the signer => made by the API and verifies, not aligned => refused, independent of the signee's version; (c)/(g) certificates: mixed versions, path equivalence
// ---------------------------------------------------------------------------------------------

struct Cert {
    what: String,
    secret_bytes: Vec<u8>,
    /// expected verdict of import + verify_bindings when the statement fixes it
    expect_ok: Option<bool>,
}

fn packets_of(bytes: &[u8]) -> Vec<(u8, Vec<u8>)> {
    wire::split_packets(bytes).unwrap().into_iter().map(|p| (p.tag, wire::new_packet(p.tag, &p.body))).collect()
}

fn binding(primary: Kind, sub_secret: &pgp::packet::SecretSubkey, sign_flag: bool, with_backsig: bool, seed: u64) -> Result<Vec<u8>, String> {
    let z = zoo::get(primary);
    let key = &z.secret.primary_key;
    let mut rng = ChaCha8Rng::seed_from_u64(seed);
    let pw = Password::empty();
    let mut cfg = if primary.is_v6() { SignatureConfig::v6(&mut rng, SignatureType::SubkeyBinding, key.algorithm(), primary.hashes()[0]).map_err(|e| e.to_string())? } else { SignatureConfig::v4(SignatureType::SubkeyBinding, key.algorithm(), primary.hashes()[0]) };
    let mut flags = KeyFlags::default();
    if sign_flag {
        flags.set_sign(true);
    } else {
        flags.set_encrypt_comms(true);
    }
    let mut hashed = vec![
        Subpacket::regular(SubpacketData::SignatureCreationTime(Timestamp::from_secs(1_700_000_100))).map_err(|e| e.to_string())?,
        Subpacket::regular(SubpacketData::IssuerFingerprint(key.fingerprint())).map_err(|e| e.to_string())?,
        Subpacket::regular(SubpacketData::KeyFlags(flags)).map_err(|e| e.to_string())?,
    ];
    if with_backsig {
        let back = sub_secret.sign_primary_key_binding(&mut rng, &z.public.primary_key, &pw).map_err(|e| format!("backsig: {e}"))?;
        hashed.push(Subpacket::regular(SubpacketData::EmbeddedSignature(Box::new(back))).map_err(|e| e.to_string())?);
    }
    cfg.hashed_subpackets = hashed;
    let sig = cfg.sign_subkey_binding(key, &z.public.primary_key, &pw, sub_secret.public_key()).map_err(|e| format!("binding: {e}"))?;
    let mut v = vec![];
    pgp::packet::PacketTrait::to_writer_with_header(&sig, &mut v).map_err(|e| e.to_string())?;
    Ok(v)
}

fn certificates() -> Vec<Cert> {
    let mut out = vec![];
    // intact zoo certificates
    for k in [Kind::Ed25519V4, Kind::Ed25519V6, Kind::P256V4, Kind::RsaV4, Kind::Ed448V6, Kind::EdLegacyV4] {
        out.push(Cert { what: format!("intact {k:?}"), secret_bytes: zoo::get(k).secret.to_bytes().unwrap(), expect_ok: Some(true) });
        out.push(Cert { what: format!("intact locked {k:?}"), secret_bytes: zoo::get(k).locked.to_bytes().unwrap(), expect_ok: Some(true) });
    }
    for (prim, other) in [(Kind::Ed25519V6, Kind::Ed25519V4), (Kind::Ed25519V4, Kind::Ed25519V6), (Kind::Ed25519V6, Kind::P256V4)] {
        let base = packets_of(&zoo::get(prim).secret.to_bytes().unwrap());
        let oz = zoo::get(other);
        // encryption subkey of the other version, validly bound by the primary
        let enc_sub = &oz.secret.secret_subkeys[0].key;
        let sub_pkt = wire::new_packet(7, &enc_sub.to_bytes().unwrap());
        let pub_sub_pkt = wire::new_packet(14, &enc_sub.public_key().to_bytes().unwrap());
        if let Ok(b) = binding(prim, enc_sub, false, false, 1) {
            let mut bytes: Vec<u8> = base.iter().flat_map(|p| p.1.clone()).collect();
            let mut with_pub = bytes.clone();
            bytes.extend_from_slice(&sub_pkt);
            bytes.extend_from_slice(&b);
            // the statement fixes the verdict only for v6 primaries ("v6 keys only carry v6 subkeys");
            // for a v4 primary with a v6 subkey only the agreement of the import paths is required
            let exp = if prim.is_v6() { Some(false) } else { None };
            out.push(Cert { what: format!("{prim:?} primary + validly bound secret subkey of {other:?} (mixed versions)"), secret_bytes: bytes, expect_ok: exp });
            // the same subkey as a Public-Subkey packet inside the transferable secret key
            with_pub.extend_from_slice(&pub_sub_pkt);
            with_pub.extend_from_slice(&b);
            out.push(Cert { what: format!("{prim:?} secret key + validly bound PUBLIC subkey packet of {other:?} (mixed versions)"), secret_bytes: with_pub, expect_ok: exp });
        }
    }
    // signing subkey without / with back signature (same version)
    for (prim, subk) in [(Kind::Ed25519V4, Kind::Ed25519V4B), (Kind::Ed25519V6, Kind::Ed25519V6B), (Kind::P256V4, Kind::P256V4B)] {
        let base = packets_of(&zoo::get(prim).secret.to_bytes().unwrap());
        // use the *primary* key material of another zoo key as a signing subkey
        let sk_body = zoo::get(subk).secret.primary_key.to_bytes().unwrap();
        let sub_pkt = wire::new_packet(7, &sk_body);
        let Some(Ok(Packet::SecretSubkey(sub))) = PacketParser::new(&sub_pkt[..]).next() else { continue };
        for backsig in [false, true] {
            if let Ok(b) = binding(prim, &sub, true, backsig, 2) {
                let mut bytes: Vec<u8> = base.iter().flat_map(|p| p.1.clone()).collect();
                bytes.extend_from_slice(&sub_pkt);
                bytes.extend_from_slice(&b);
                out.push(Cert { what: format!("{prim:?} + signing subkey {}", if backsig { "with back signature" } else { "WITHOUT back signature" }), secret_bytes: bytes, expect_ok: Some(backsig) });
            }
        }
    }
    // damaged: binding signature of the subkey replaced by the binding of another certificate
    {
        let a = packets_of(&zoo::get(Kind::Ed25519V4).secret.to_bytes().unwrap());
        let b = packets_of(&zoo::get(Kind::Ed25519V4B).secret.to_bytes().unwrap());
        let mut bytes = vec![];
        for (i, p) in a.iter().enumerate() {
            if i == a.len() - 1 && p.0 == 2 {
                bytes.extend_from_slice(&b[b.len() - 1].1);
            } else {
                bytes.extend_from_slice(&p.1);
            }
        }
        out.push(Cert { what: "Ed25519V4 with the subkey binding of another certificate".into(), secret_bytes: bytes, expect_ok: Some(false) });
        // user id certification over a different user id
        let mut bytes = vec![];
        for p in &a {
            if p.0 == 13 {
                bytes.extend_from_slice(&wire::new_packet(13, b"Mallory <mallory@example.org>"));
            } else {
                bytes.extend_from_slice(&p.1);
            }
        }
        out.push(Cert { what: "Ed25519V4 with a substituted user id under the original certification".into(), secret_bytes: bytes, expect_ok: Some(false) });
    }
    out
}

fn verdict_secret(bytes: &[u8]) -> (Result<bool, String>, Option<SignedSecretKey>) {
    match SignedSecretKey::from_bytes(bytes) {
        Ok(k) => (Ok(k.verify_bindings().is_ok()), Some(k)),
        Err(e) => (Err(e.to_string()), None),
    }
}

fn certificate_case(t: &mut Tape, rec: &mut Rec, certs: &[Cert]) -> CaseResult {
    let c = &certs[t.u64() as usize];
    rec.nontrivial(c.what.clone());
    rec.describe(|| format!("certificate: {}; expected {:?}", c.what, c.expect_ok));
    // secret path
    let (vs, key) = verdict_secret(&c.secret_bytes);
    let ok_secret = matches!(vs, Ok(true));
    // public path: the same packets with secret key packets turned into public ones by R-wire
    let mut pub_bytes = vec![];
    for p in wire::split_packets(&c.secret_bytes).map_err(|e| f("C15:deframe", e))? {
        match p.tag {
            5 | 7 => {
                let kb = keys::parse_key(&p.body, true).ok_or_else(|| f("C15:reference-key-parse", c.what.clone()))?;
                pub_bytes.extend_from_slice(&wire::new_packet(if p.tag == 5 { 6 } else { 14 }, &kb.public_body));
            }
            tag => pub_bytes.extend_from_slice(&wire::new_packet(tag, &p.body)),
        }
    }
    let vp = SignedPublicKey::from_bytes(&pub_bytes[..]).map(|k| k.verify_bindings().is_ok()).map_err(|e| e.to_string());
    let ok_public = matches!(vp, Ok(true));
    if ok_secret != ok_public {
        let sig = if c.what.contains("WITHOUT back signature") { "C15:secret-path-accepts-signing-subkey-without-back-signature" } else if c.what.contains("mixed versions") { "C15:import-paths-disagree-on-mixed-version-certificate" } else { "C15:import-paths-disagree" };
        rec.soft_fail(sig, format!("{}: secret path {:?}, public path {:?}", c.what, vs, vp));
    }
    if let Some(e) = c.expect_ok {
        if ok_public != e {
            rec.soft_fail(if e { "C15:valid-certificate-refused" } else { "C15:invalid-certificate-accepted:public-path" }, format!("{}: public path {:?}", c.what, vp));
        }
        if ok_secret != e && ok_secret == ok_public {
            rec.soft_fail(if e { "C15:valid-certificate-refused" } else { "C15:invalid-certificate-accepted:secret-path" }, format!("{}: secret path {:?}", c.what, vs));
        }
    }
    // derived public key of an accepted secret key is judged the same
    if let Some(k) = key {
        let derived = k.to_public_key().verify_bindings().is_ok();
        rec.check(derived == k.verify_bindings().is_ok(), "C15:to_public_key-judged-differently", || format!("{}: secret {} derived public {derived}", c.what, k.verify_bindings().is_ok()));
    }
    // binary vs armored vs auto-detecting import agree
    let arm = {
        let mut v = vec![];
        pgp::armor::write(&crate::props::c10::Raw(pub_bytes.clone()), pgp::armor::BlockType::PublicKey, &mut v, None, true).unwrap();
        v
    };
    let va = SignedPublicKey::from_armor_single(&arm[..]).map(|k| k.0.verify_bindings().is_ok()).unwrap_or(false);
    let vr = SignedPublicKey::from_reader_single(&pub_bytes[..]).map(|k| k.0.verify_bindings().is_ok()).unwrap_or(false);
    let vr2 = SignedPublicKey::from_reader_single(&arm[..]).map(|k| k.0.verify_bindings().is_ok()).unwrap_or(false);
    rec.check(va == ok_public && vr == ok_public && vr2 == ok_public, "C15:import-paths-disagree", || format!("{}: from_bytes {ok_public}, from_armor {va}, from_reader(binary) {vr}, from_reader(armored) {vr2}", c.what));
    Ok(())
}

// ---------------------------------------------------------------------------------------------
// (d) one-pass header vs trailing signature
// ---------------------------------------------------------------------------------------------

fn ops_case(t: &mut Tape, rec: &mut Rec) -> CaseResult {
    let v6 = t.bool();
    let kind = if v6 { Kind::Ed25519V6 } else { Kind::Ed25519V4 };
    let mut cfg = MsgConfig::plain();
    cfg.signers = vec![(kind, HashAlgorithm::Sha256)];
    cfg.sign_text = t.bool();
    cfg.seed = t.seed32();
    let payload = b"one pass\r\nsignature\r\n".to_vec();
    let bytes = cfg.build(&payload).map_err(|e| f("C15:builder-error", e.to_string()))?;
    let pk = wire::split_packets(&bytes).map_err(|e| f("C15:deframe", e))?;
    let ops = pk.iter().find(|p| p.tag == 4).ok_or_else(|| f("C15:no-ops", ""))?;
    let mut b = ops.body.clone();
    // field offsets: v3: [3, typ, hash, pk, keyid(8), nested]; v6: [6, typ, hash, pk, saltlen, salt.., fp(32), nested]
    let class = t.below(if v6 { 5 } else { 4 });
    let what = match class {
        0 => {
            b[1] ^= 1;
            "signature type"
        }
        1 => {
            b[2] = if b[2] == 8 { 10 } else { 8 };
            "hash algorithm"
        }
        2 => {
            b[3] = if b[3] == 27 { 22 } else { 27 };
            "public-key algorithm"
        }
        3 => {
            // version pairing: v3 OPS <-> v6 OPS over the other kind of signature
            if v6 {
                let salt_len = b[4] as usize;
                let nested = *b.last().unwrap();
                b = vec![3, b[1], b[2], b[3]];
                b.extend_from_slice(&[0x11; 8]);
                b.push(nested);
                let _ = salt_len;
            } else {
                let nested = *b.last().unwrap();
                b = vec![6, b[1], b[2], b[3], 16];
                b.extend_from_slice(&[0x22; 16]);
                b.extend_from_slice(&[0x33; 32]);
                b.push(nested);
            }
            "OPS version"
        }
        _ => {
            let sl = b[4] as usize;
            let p = 5 + t.below(sl);
            b[p] ^= 1 << t.below(8);
            "salt"
        }
    };
    let mut out = vec![];
    for p in &pk {
        if p.tag == 4 {
            out.extend_from_slice(&wire::new_packet(4, &b));
        } else {
            out.extend_from_slice(&bytes[p.offset..p.offset + p.encoded_len]);
        }
    }
    rec.label(format!("ops-mismatch:{}", what.replace(' ', "-")));
    rec.nontrivial((v6, cfg.sign_text, what, b.clone()));
    rec.describe(|| format!("{kind:?} one-pass message, OPS {what} altered"));
    let z = zoo::get(kind);
    // positive control
    {
        let mut m = Message::from_bytes(&bytes[..]).map_err(|e| f("C15:control", e.to_string()))?;
        let mut o = vec![];
        m.read_to_end(&mut o).map_err(|e| f("C15:control", e.to_string()))?;
        if m.verify(&z.public.primary_key).is_err() {
            return fail("C15:matching-ops-and-signature-refused", format!("{kind:?}"));
        }
    }
    match Message::from_bytes(&out[..]) {
        Err(_) => {}
        Ok(mut m) => {
            let mut o = vec![];
            if m.read_to_end(&mut o).is_ok() && m.verify(&z.public.primary_key).is_ok() {
                return fail("C15:ops-signature-mismatch-accepted", format!("OPS {what} differs from the trailing signature, verification still succeeds ({kind:?})"));
            }
        }
    }
    Ok(())
}

// ---------------------------------------------------------------------------------------------
// (e) criticality of unknown subpackets, issuer fingerprint version
// ---------------------------------------------------------------------------------------------

fn verify_all_paths(sig: &Signature, kind: Kind, data: &[u8]) -> Vec<&'static str> {
    let z = zoo::get(kind);
    let mut ok = vec![];
    if sig.verify(&z.public.primary_key, data).is_ok() {
        ok.push("Signature::verify");
    }
    let mut m = wire::new_packet(2, &sig.to_bytes().unwrap());
    m.extend_from_slice(&wire::new_packet(11, &wire::literal_body(b'b', b"", 0, data)));
    let parsed = Message::from_bytes(&m[..]);
    if let Ok(mut msg) = parsed {
        let mut out = vec![];
        if msg.read_to_end(&mut out).is_ok() && msg.verify(&z.public.primary_key).is_ok() {
            ok.push("Message::verify");
        }
    };
    ok
}

fn critical_case(t: &mut Tape, rec: &mut Rec) -> CaseResult {
    let idx = t.u64() as usize;
    let id = (idx / 4) as u8; // 0..127
    let critical = idx & 1 == 1;
    let v6 = idx & 2 == 2;
    let known = matches!(id, 2 | 3 | 4 | 5 | 6 | 7 | 9 | 11 | 12 | 16 | 20 | 21 | 22 | 23 | 24 | 25 | 26 | 27 | 28 | 29 | 30 | 31 | 32 | 33 | 34 | 35 | 39);
    if known {
        rec.discard();
        return Ok(());
    }
    let kind = if v6 { Kind::Ed25519V6 } else { Kind::Ed25519V4 };
    let z = zoo::get(kind);
    let key = &z.secret.primary_key;
    let data = b"criticality".to_vec();
    let mut rng = ChaCha8Rng::seed_from_u64(idx as u64);
    let mut cfg = if v6 { SignatureConfig::v6(&mut rng, SignatureType::Binary, key.algorithm(), HashAlgorithm::Sha256).map_err(|e| f("C15:config", e.to_string()))? } else { SignatureConfig::v4(SignatureType::Binary, key.algorithm(), HashAlgorithm::Sha256) };
    let body: pgp::bytes::Bytes = expand(idx as u64, 5).into();
    let data_sp = if (100..=110).contains(&id) { SubpacketData::Experimental(id, body) } else { SubpacketData::Other(id, body) };
    let mut sp = Subpacket::regular(data_sp).map_err(|e| f("C15:subpacket", e.to_string()))?;
    sp.is_critical = critical;
    cfg.hashed_subpackets = vec![Subpacket::regular(SubpacketData::SignatureCreationTime(Timestamp::from_secs(1_700_000_010))).unwrap(), Subpacket::regular(SubpacketData::IssuerFingerprint(key.fingerprint())).unwrap(), sp];
    rec.nontrivial((id, critical, v6));
    rec.label(if critical { "unknown-subpacket:critical" } else { "unknown-subpacket:non-critical" });
    rec.describe(|| format!("valid v{} signature with hashed unknown subpacket id {id}{}", if v6 { 6 } else { 4 }, if critical { " (critical)" } else { "" }));
    // rPGP (rightly) refuses to *make* a signature with an unknown critical subpacket, so the
    // artifact is assembled by the reference: correct digest, valid Ed25519 signature value
    let _ = cfg;
    let mut hashed = vec![];
    hashed.extend_from_slice(&crate::refimpl::gen::subpacket(2, false, &1_700_000_010u32.to_be_bytes(), true));
    let fp = key.fingerprint();
    let mut fpb = vec![if v6 { 6u8 } else { 4 }];
    fpb.extend_from_slice(fp.as_bytes());
    hashed.extend_from_slice(&crate::refimpl::gen::subpacket(33, false, &fpb, true));
    hashed.extend_from_slice(&crate::refimpl::gen::subpacket(id, critical, &expand(idx as u64, 5), true));
    let Some(pkt) = crate::props::c11::reference_signature(kind, &hashed, &data, idx as u64) else {
        return fail("C15:reference-signature-construction", "".to_string());
    };
    let sig = match PacketParser::new(&pkt[..]).next() {
        Some(Ok(Packet::Signature(s))) => s,
        _ => {
            // a parser that refuses the packet altogether is fine for the critical case
            if critical {
                return Ok(());
            }
            return fail("C15:signature-with-unknown-non-critical-subpacket-rejected-by-parser", format!("id {id}"));
        }
    };
    let ok = verify_all_paths(&sig, kind, &data);
    if critical && !ok.is_empty() {
        return fail("C15:unknown-critical-subpacket-accepted", format!("subpacket id {id} critical, v{}: accepted by {ok:?}", if v6 { 6 } else { 4 }));
    }
    if !critical && ok.len() < 2 {
        return fail("C15:unknown-non-critical-subpacket-rejected", format!("subpacket id {id} non-critical, v{}: accepted only by {ok:?}", if v6 { 6 } else { 4 }));
    }
    Ok(())
}

/// signature version x version octet of a hashed Issuer Fingerprint subpacket x fingerprint length x
/// {alone, next to a correct issuer fingerprint}: the signatures are assembled by the reference
/// (correct digest, valid Ed25519 value), because the signing API refuses such configurations
fn issuer_fpr_version_case(t: &mut Tape, rec: &mut Rec) -> CaseResult {
    let idx = t.u64() as usize;
    let v6 = idx & 1 == 1;
    let octet = [3u8, 4, 5, 6][(idx >> 1) & 3];
    let long = (idx >> 3) & 1 == 1;
    let with_correct = (idx >> 4) & 1 == 1;
    let kind = if v6 { Kind::Ed25519V6 } else { Kind::Ed25519V4 };
    let z = zoo::get(kind);
    let sig_version = if v6 { 6u8 } else { 4 };
    let real = z.public.primary_key.fingerprint();
    let real_bytes = real.as_bytes().to_vec();
    // the subpacket under test: the key's own fingerprint bytes where the length allows, else filler
    let want_len = if long { 32 } else { 20 };
    let fp_bytes: Vec<u8> = if real_bytes.len() == want_len { real_bytes.clone() } else { expand(idx as u64, want_len) };
    let matching = octet == sig_version && fp_bytes == real_bytes;
    let data = b"issuer fingerprint version".to_vec();
    let mut hashed = crate::refimpl::gen::subpacket(2, false, &1_700_000_011u32.to_be_bytes(), true);
    hashed.extend_from_slice(&crate::refimpl::gen::subpacket(33, false, &[&[octet][..], &fp_bytes[..]].concat(), true));
    if with_correct && !matching {
        hashed.extend_from_slice(&crate::refimpl::gen::subpacket(33, false, &[&[sig_version][..], &real_bytes[..]].concat(), true));
    }
    rec.nontrivial(idx);
    rec.label(if matching { "issuer-fpr:matching" } else { "issuer-fpr:mismatching-version-or-value" });
    rec.describe(|| format!("v{sig_version} signature by {kind:?} with a hashed issuer fingerprint subpacket of version octet {octet} and {want_len} octets{}", if with_correct && !matching { ", followed by a correct one" } else { "" }));
    let Some(pkt) = super::c11::reference_signature(kind, &hashed, &data, idx as u64) else {
        return fail("C15:reference-signature", "could not assemble");
    };
    let parsed = PacketParser::new(&pkt[..]).next();
    let Some(Ok(Packet::Signature(sig))) = parsed else {
        rec.label("rejected-by-parser");
        if matching {
            return fail("C15:matching-issuer-fingerprint-rejected", "parser");
        }
        return Ok(());
    };
    let ok = verify_all_paths(&sig, kind, &data);
    if matching {
        if !ok.contains(&"Signature::verify") {
            return fail("C15:matching-issuer-fingerprint-rejected", format!("accepted only by {ok:?}"));
        }
        return Ok(());
    }
    // a version octet that differs from the signature version must be refused everywhere; a subpacket
    // of the right version with foreign bytes is a mere hint mismatch and is judged by C02, not here
    if octet != sig_version && !ok.is_empty() {
        return fail("C15:issuer-fingerprint-version-mismatch-accepted", format!("v{sig_version} signature with a version-{octet} issuer fingerprint ({want_len} octets{}) accepted by {ok:?}", if with_correct { ", next to a correct one" } else { "" }));
    }
    Ok(())
}


// ---------------------------------------------------------------------------------------------
// (b') two-party signatures: the version rule is about the SIGNER's key, whatever the signee is
// ---------------------------------------------------------------------------------------------

/// signer version x signee version x signature version x {user id certification, key signature,
/// subkey binding, primary key binding}: a signature whose version matches the signer's key
/// version is made by the honest API and must verify; one whose version does not is made by a
/// signer that lies about its version (correct digest, valid signature value) and must be refused
fn two_party_table_case(t: &mut Tape, rec: &mut Rec) -> CaseResult {
    use pgp::types::Tag;
    let idx = t.u64() as usize;
    let signer_v6 = idx & 1 == 1;
    let signee_v6 = idx & 2 == 2;
    let sig_v6 = idx & 4 == 4;
    let form = (idx >> 3) % 4;
    let signer_kind = if signer_v6 { Kind::Ed25519V6 } else { Kind::Ed25519V4 };
    let signee_kind = if signee_v6 { Kind::Ed25519V6B } else { Kind::Ed25519V4B };
    let zs = zoo::get(signer_kind);
    let ze = zoo::get(signee_kind);
    let signer = &zs.secret.primary_key;
    let signer_pub = &zs.public.primary_key;
    let signee_pub = &ze.public.primary_key;
    let signee_sub = &ze.public.public_subkeys[0].key;
    let uid = pgp::packet::UserId::from_str(Default::default(), "two party <t@example.org>").map_err(|e| f("C15:config", e.to_string()))?;
    let form_name = ["third-party user id certification", "third-party key signature", "subkey binding", "primary key binding"][form];
    // bindings inside one certificate with mixed versions have no verdict fixed by the statement
    if form >= 2 && signer_v6 != signee_v6 {
        rec.discard();
        return Ok(());
    }
    let aligned = signer_v6 == sig_v6;
    rec.nontrivial(idx);
    rec.label(format!("two-party:{form_name}"));
    rec.label(if aligned { "two-party:aligned" } else { "two-party:misaligned" });
    rec.describe(|| format!("{form_name}: v{} signature by the v{} key {signer_kind:?} over the v{} key {signee_kind:?}", if sig_v6 { 6 } else { 4 }, if signer_v6 { 6 } else { 4 }, if signee_v6 { 6 } else { 4 }));
    let pw = Password::empty();
    let mut rng = ChaCha8Rng::seed_from_u64(0xC15 + idx as u64);
    let typ = match form {
        0 => SignatureType::CertGeneric,
        1 => SignatureType::Key,
        2 => SignatureType::SubkeyBinding,
        _ => SignatureType::KeyBinding,
    };
    let mut cfg = if sig_v6 { SignatureConfig::v6(&mut rng, typ, signer.algorithm(), HashAlgorithm::Sha512).map_err(|e| f("C15:config", e.to_string()))? } else { SignatureConfig::v4(typ, signer.algorithm(), HashAlgorithm::Sha512) };
    cfg.hashed_subpackets = vec![Subpacket::regular(SubpacketData::SignatureCreationTime(Timestamp::from_secs(1_700_000_010))).unwrap()];
    let mut liar = RecordingSigner::new(signer, true);
    if !aligned {
        liar.lie_version = Some(if sig_v6 { KeyVersion::V6 } else { KeyVersion::V4 });
    }
    let made = match form {
        0 => cfg.sign_certification_third_party(&liar, &pw, signee_pub, Tag::UserId, &uid),
        1 => cfg.sign_key(&liar, &pw, signee_pub),
        2 => cfg.sign_subkey_binding(&liar, signer_pub, &pw, signee_sub),
        _ => cfg.sign_primary_key_binding(&liar, signer_pub, &pw, signee_pub),
    };
    let sig = match made {
        Ok(s) => s,
        Err(e) => {
            if aligned {
                return fail("C15:aligned-two-party-signature-cannot-be-made", format!("{form_name}: {e}"));
            }
            rec.label("forgery-not-constructible-through-the-api");
            return Ok(());
        }
    };
    let verdict = match form {
        0 => sig.verify_third_party_certification(signee_pub, signer_pub, Tag::UserId, &uid),
        1 => sig.verify_key_third_party(signee_pub, signer_pub),
        2 => sig.verify_subkey_binding(signer_pub, signee_sub),
        _ => sig.verify_primary_key_binding(signer_pub, signee_pub),
    };
    match (aligned, verdict) {
        (true, Err(e)) => fail(format!("C15:aligned-two-party-signature-rejected:{}", form_name.replace(' ', "-")), format!("a v{} signature made by a v{} key over a v{} key was refused: {e}", if sig_v6 { 6 } else { 4 }, if signer_v6 { 6 } else { 4 }, if signee_v6 { 6 } else { 4 })),
        (false, Ok(())) => fail(format!("C15:cross-version-signature-accepted:{}", form_name.replace(' ', "-")), format!("a v{} signature made with the material of a v{} key (over a v{} key) verified", if sig_v6 { 6 } else { 4 }, if signer_v6 { 6 } else { 4 }, if signee_v6 { 6 } else { 4 })),
        _ => Ok(()),
    }
}

pub fn run(ctx: &Ctx) {
    ctx.set_rule("decision tables, every cell enumerated, expected outcome derived from the statement: (a) {PKESK v3,v6; SKESK v4,v5,v6} wrapping the correct session key x {SED, SEIPDv1, SEIPDv2, GnuPG-AEAD} x options {default, legacy, gnupg_aead, both}, with and without an aligned decoy ESK, plus explicit PlainSessionKey kinds x containers x options - ESKs and containers are produced by the reference (R-crypto/R-wire); (b) key version x signature version: honest keys must be refused when making, cross-version signatures with a correct digest and valid signature value (signer lying about its version) must be refused by Signature::verify, Message::verify and verify_nested; (c)/(g) certificates: intact zoo certificates, mixed-version subkeys (secret and public subkey packets), signing subkeys with and without back signature, swapped bindings, substituted user id - secret path, public path, derived public key, binary/armored/auto-detecting import must agree and match the expected verdict; (d) one-pass header vs trailing signature: type, hash, public-key algorithm, version, salt; (e) every unassigned subpacket id 0..127 x critical bit x v4/v6 in the hashed area of a valid signature, issuer-fingerprint version mismatch; non-trivial = every cell; distinct = cell");
    ctx.assume("GnuPG-AEAD containers and SKESK v5 are built per the LibrePGP draft by the reference; their positive cells double as a control of that construction");
    zoo::warm(&[Kind::Ed25519V4, Kind::Ed25519V6, Kind::P256V4, Kind::RsaV4, Kind::Ed448V6, Kind::EdLegacyV4, Kind::Ed25519V4B, Kind::Ed25519V6B, Kind::P256V4B]);
    let n_a = (ESKS.len() * CONTAINERS.len() * OPTS.len() * 2) as u64;
    ctx.group("esk-container-options-table", Source::Indexed { count: n_a }, esk_table_case);
    ctx.group("session-key-kind-table", Source::Indexed { count: 48 }, session_key_table_case);
    ctx.group("key-version-signature-version", Source::Indexed { count: 4 }, version_pairs_case);
    ctx.group("two-party-signature-versions", Source::Indexed { count: 32 }, two_party_table_case);
    let certs = certificates();
    ctx.note("certificate_variants", serde_json::json!(certs.iter().map(|c| c.what.clone()).collect::<Vec<_>>()));
    ctx.group("certificate-paths", Source::Indexed { count: certs.len() as u64 }, |t, rec| certificate_case(t, rec, &certs));
    let n = ctx.tier.pick(400u64, 180_000);
    ctx.group("ops-vs-signature", Source::Random { n, tape_len: 64 }, ops_case);
    ctx.group("unknown-subpacket-criticality", Source::Indexed { count: 128 * 4 }, critical_case);
    ctx.group("issuer-fingerprint-version", Source::Indexed { count: 32 }, issuer_fpr_version_case);
}
