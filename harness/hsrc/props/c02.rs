//! C02 — signature soundness: only the signed content under the signer's key verifies.

use std::io::Read;
use std::ops::Range;

use pgp::crypto::hash::HashAlgorithm;
use pgp::composed::{CleartextSignedMessage, Deserializable, DetachedSignature, Message, SignedPublicKey, SignedSecretKey};
use pgp::packet::{Packet, PacketParser, PublicKey, Signature, SignatureConfig, SignatureType, Subpacket, SubpacketData, UserId};
use pgp::ser::Serialize;
use pgp::types::{KeyDetails, Password, Tag, Timestamp};
use rand::SeedableRng;
use rand_chacha::ChaCha8Rng;

use crate::engine::{expand, fail, CaseResult, Ctx, Fail, Rec, Source, Tape, Tier};
use crate::msg::MsgConfig;
use crate::refimpl::gen::public_key_body;
use crate::refimpl::keys;
use crate::refimpl::text::canon;
use crate::refimpl::wire;
use crate::zoo::{self, Kind};

fn f(sig: &str, d: impl Into<String>) -> Fail {
    Fail { sig: sig.to_string(), detail: d.into() }
}

/// byte ranges of the fields of a v4/v6 signature packet body
#[derive(Clone, Debug)]
struct Layout {
    version: u8,
    hashed: Range<usize>,
    #[allow(dead_code)]
    unhashed: Range<usize>,
    #[allow(dead_code)]
    left16: Range<usize>,
    salt: Range<usize>,
    value: Range<usize>,
}

fn layout(b: &[u8]) -> Option<Layout> {
    match *b.first()? {
        4 => {
            let hl = u16::from_be_bytes(b.get(4..6)?.try_into().ok()?) as usize;
            let ul = u16::from_be_bytes(b.get(6 + hl..8 + hl)?.try_into().ok()?) as usize;
            let p = 8 + hl + ul;
            Some(Layout { version: 4, hashed: 6..6 + hl, unhashed: 8 + hl..p, left16: p..p + 2, salt: p + 2..p + 2, value: p + 2..b.len() })
        }
        6 => {
            let hl = u32::from_be_bytes(b.get(4..8)?.try_into().ok()?) as usize;
            let ul = u32::from_be_bytes(b.get(8 + hl..12 + hl)?.try_into().ok()?) as usize;
            let p = 12 + hl + ul;
            let sl = *b.get(p + 2)? as usize;
            Some(Layout { version: 6, hashed: 8..8 + hl, unhashed: 12 + hl..p, left16: p..p + 2, salt: p + 3..p + 3 + sl, value: p + 3 + sl..b.len() })
        }
        _ => None,
    }
}

fn parse_sig_packet(body: &[u8]) -> Option<Signature> {
    let pkt = wire::new_packet(2, body);
    match PacketParser::new(&pkt[..]).next() {
        Some(Ok(Packet::Signature(s))) => Some(s),
        _ => None,
    }
}

/// one perturbation of a signature packet body in a hashed/semantic field
fn perturb_sig(t: &mut Tape, body: &[u8]) -> Option<(Vec<u8>, String)> {
    let l = layout(body)?;
    let mut b = body.to_vec();
    let class = t.below(9);
    let what = match class {
        0 => {
            let old = b[1];
            b[1] = if t.bool() { old ^ (1 << t.below(8)) } else { *t.pick(&[0u8, 1, 0x10, 0x13, 0x18, 0x19, 0x1f, 0x20, 0x28, 0x30]) };
            if b[1] == old {
                b[1] ^= 1;
            }
            format!("signature type {old:#x} -> {:#x}", b[1])
        }
        1 => {
            let old = b[2];
            b[2] = if t.bool() { old ^ (1 << t.below(8)) } else { *t.pick(&[1u8, 17, 19, 22, 27, 28]) };
            if b[2] == old {
                b[2] ^= 2;
            }
            format!("public-key algorithm {old} -> {}", b[2])
        }
        2 => {
            let old = b[3];
            b[3] = if t.bool() { old ^ (1 << t.below(8)) } else { *t.pick(&[2u8, 8, 9, 10, 12, 14]) };
            if b[3] == old {
                b[3] ^= 1;
            }
            format!("hash algorithm {old} -> {}", b[3])
        }
        3 | 4 | 5 => {
            if l.hashed.is_empty() {
                return None;
            }
            let p = l.hashed.start + t.below(l.hashed.len());
            let bit = t.below(8);
            b[p] ^= 1 << bit;
            format!("hashed area byte {} bit {bit}", p - l.hashed.start)
        }
        6 => {
            if l.salt.is_empty() {
                if l.hashed.is_empty() {
                    return None;
                }
                let p = l.hashed.start + t.below(l.hashed.len());
                b[p] = b[p].wrapping_add(1 + t.below(255) as u8);
                format!("hashed area byte {} substituted", p - l.hashed.start)
            } else {
                let p = l.salt.start + t.below(l.salt.len());
                let bit = t.below(8);
                b[p] ^= 1 << bit;
                format!("salt byte {} bit {bit}", p - l.salt.start)
            }
        }
        7 => {
            if l.value.is_empty() {
                return None;
            }
            let p = l.value.start + t.below(l.value.len());
            let bit = t.below(8);
            b[p] ^= 1 << bit;
            format!("signature value byte {} bit {bit}", p - l.value.start)
        }
        _ => {
            // hashed area length field
            let p = if l.version == 4 { 5 } else { 7 };
            b[p] ^= 1 << t.below(3);
            "hashed area length".to_string()
        }
    };
    Some((b, what))
}

fn perturb_content(t: &mut Tape, data: &[u8]) -> (Vec<u8>, String) {
    let mut d = data.to_vec();
    let n = d.len();
    // line-ending sensitive edits (what text-mode canonicalization could wrongly absorb)
    if t.chance(90) {
        let c = *t.pick(&[b'\r', b'\n', b' ', b'\t']);
        return match t.below(3) {
            0 => {
                d.push(c);
                (d, format!("{:?} appended to content", c as char))
            }
            1 => {
                d.insert(0, c);
                (d, format!("{:?} prepended to content", c as char))
            }
            _ => {
                let p = t.below(n + 1);
                d.insert(p, c);
                (d, format!("{:?} inserted at {p}", c as char))
            }
        };
    }
    match t.below(6) {
        0 | 1 if n > 0 => {
            let p = t.below(n);
            let bit = t.below(8);
            d[p] ^= 1 << bit;
            (d, format!("content byte {p} bit {bit} flipped"))
        }
        2 if n > 0 => {
            let k = t.range(1, n.min(8));
            d.truncate(n - k);
            (d, format!("content truncated by {k}"))
        }
        3 => {
            let k = t.range(1, 8);
            let extra = expand(t.u64(), k);
            if t.bool() {
                d.extend_from_slice(&extra);
                (d, format!("{k} bytes appended to content"))
            } else {
                let mut e = extra;
                e.extend_from_slice(&d);
                (e, format!("{k} bytes prepended to content"))
            }
        }
        4 if n > 1 => {
            let i = t.below(n - 1);
            if d[i] == d[i + 1] {
                d[i] ^= 0x20;
            } else {
                d.swap(i, i + 1);
            }
            (d, format!("content bytes {i},{} swapped", i + 1))
        }
        _ => {
            let p = t.below(n + 1);
            d.insert(p, t.u8());
            (d, format!("one byte inserted at {p}"))
        }
    }
}

fn same_text_semantics(a: &[u8], b: &[u8], text: bool) -> bool {
    if text {
        canon(a) == canon(b)
    } else {
        a == b
    }
}

/// every entry point that applies to a data signature over `content`; returns the names that accepted
fn data_verifiers(sig: &Signature, key: &PublicKey, skey: &SignedPublicKey, content: &[u8], cons_seed: u64) -> Vec<&'static str> {
    let mut ok = vec![];
    if sig.verify(key, content).is_ok() {
        ok.push("Signature::verify");
    }
    if sig.verify(skey, content).is_ok() {
        ok.push("Signature::verify(SignedPublicKey)");
    }
    if DetachedSignature::new(sig.clone()).verify(key, content).is_ok() {
        ok.push("DetachedSignature::verify");
    }
    // as a prefixed signed message
    if let Ok(sb) = sig.to_bytes() {
        let mut m = wire::new_packet(2, &sb);
        m.extend_from_slice(&wire::new_packet(11, &wire::literal_body(b'b', b"", 0, content)));
        let parsed = Message::from_bytes(&m[..]);
        if let Ok(mut msg) = parsed {
            let mut out = vec![];
            let _ = cons_seed;
            if msg.read_to_end(&mut out).is_ok() {
                if msg.verify(key).is_ok() {
                    ok.push("Message::verify(prefixed)");
                }
                if msg.verify_nested_explicit(0, key).is_ok() {
                    ok.push("Message::verify_nested_explicit(prefixed)");
                }
            }
        };
    }
    ok
}

/// variants of the verifying key that must not verify
fn wrong_keys(t: &mut Tape, kind: Kind) -> Vec<(PublicKey, String)> {
    let mut out = vec![];
    let z = zoo::get(kind);
    let decoy = zoo::get(zoo::decoy_for(kind));
    out.push((decoy.public.primary_key.clone(), format!("different key {:?}", zoo::decoy_for(kind))));
    // same material, other creation time / other version
    let body = z.public.primary_key.to_bytes().unwrap();
    if let Some(kb) = keys::parse_key(&body, false) {
        let b2 = public_key_body(kb.version, kb.created ^ (1 << t.below(32)), kb.alg, &kb.public);
        if let Some(Ok(Packet::PublicKey(k))) = PacketParser::new(&wire::new_packet(6, &b2)[..]).next() {
            out.push((k, "same key material, different creation time".into()));
        }
        let other_v = if kb.version == 6 { 4 } else { 6 };
        let b3 = public_key_body(other_v, kb.created, kb.alg, &kb.public);
        if let Some(Ok(Packet::PublicKey(k))) = PacketParser::new(&wire::new_packet(6, &b3)[..]).next() {
            out.push((k, format!("same key material as a v{other_v} key")));
        }
    }
    out
}

fn sign_data(t: &mut Tape, kind: Kind, text: bool, hash: HashAlgorithm, via: usize, data: &[u8]) -> Result<Signature, Fail> {
    let z = zoo::get(kind);
    let key = &z.secret.primary_key;
    let mut rng = ChaCha8Rng::from_seed(t.seed32());
    let sig: Signature = match via {
        0 => {
            let d = if text { DetachedSignature::sign_text_data(&mut rng, key, &Password::empty(), hash, &data[..]) } else { DetachedSignature::sign_binary_data(&mut rng, key, &Password::empty(), hash, &data[..]) };
            d.map_err(|e| f("C02:sign-error", e.to_string()))?.signature
        }
        1 => {
            // one-pass message by the builder; take its signature packet
            let mut cfg = MsgConfig::plain();
            cfg.signers = vec![(kind, hash)];
            cfg.sign_text = text;
            cfg.seed = t.seed32();
            let bytes = cfg.build(&data).map_err(|e| f("C02:builder-error", e.to_string()))?;
            let mut s = None;
            for p in PacketParser::new(&bytes[..]) {
                if let Ok(Packet::Signature(x)) = p {
                    s = Some(x);
                }
            }
            s.ok_or_else(|| f("C02:builder-error", "no signature packet"))?
        }
        _ => {
            let typ = if text { SignatureType::Text } else { SignatureType::Binary };
            let mut cfg = if kind.is_v6() { SignatureConfig::v6(&mut rng, typ, key.algorithm(), hash).map_err(|e| f("C02:sign-error", e.to_string()))? } else { SignatureConfig::v4(typ, key.algorithm(), hash) };
            cfg.hashed_subpackets = vec![
                Subpacket::regular(SubpacketData::SignatureCreationTime(Timestamp::from_secs(1_700_000_001))).unwrap(),
                Subpacket::regular(SubpacketData::IssuerFingerprint(key.fingerprint())).unwrap(),
                Subpacket::regular(SubpacketData::PolicyURI("https://example.org/p".into())).unwrap(),
            ];
            cfg.sign(key, &Password::empty(), &data[..]).map_err(|e| f("C02:sign-error", e.to_string()))?
        }
    };
    Ok(sig)
}

fn data_case(t: &mut Tape, rec: &mut Rec, kinds: &[Kind]) -> CaseResult {
    let kind = *t.pick(kinds);
    let z = zoo::get(kind);
    let pubk = &z.public.primary_key;
    let text = t.bool();
    let hash = *t.pick(kind.hashes());
    let n = match t.below(4) {
        0 => t.below(3),
        1 => 512 * t.range(1, 3) + t.below(5) - 2,
        _ => t.range(1, 300),
    };
    let mut data = expand(t.u64(), n);
    if text {
        for b in data.iter_mut() {
            *b = match *b % 20 {
                0 => b'\n',
                1 => b'\r',
                x => b'a' + x,
            };
        }
    }
    let via = t.below(3);
    let sig = sign_data(t, kind, text, hash, via, &data)?;
    rec.label(format!("data:{}:{}", ["detached", "one-pass", "config"][via], if text { "text" } else { "binary" }));
    rec.label(format!("key:{kind:?}"));
    // positive control
    let accepted = data_verifiers(&sig, pubk, &z.public, &data, 0);
    if accepted.len() < 5 {
        return fail("C02:positive-control-failed", format!("unperturbed signature accepted only by {accepted:?} ({kind:?} {} via {via})", if text { "text" } else { "binary" }));
    }
    let body = sig.to_bytes().map_err(|e| f("C02:serialize-error", e.to_string()))?;
    let pclass = t.below(3);
    match pclass {
        0 => {
            // (a) content
            let (d2, what) = perturb_content(t, &data);
            if same_text_semantics(&d2, &data, text) {
                rec.label("trivial:same-canonical-text");
                return Ok(());
            }
            rec.label("perturb:content");
            rec.nontrivial((format!("{kind:?}"), via, text, what.clone(), n));
            rec.describe(|| format!("{kind:?} {} {hash:?} signature over {n} bytes; {what}", if text { "text" } else { "binary" }));
            let acc = data_verifiers(&sig, pubk, &z.public, &d2, 1);
            if !acc.is_empty() {
                return fail("C02:signature-verifies-over-different-content", format!("{what}: accepted by {acc:?} ({kind:?}, {} mode, {n} bytes)", if text { "text" } else { "binary" }));
            }
        }
        1 => {
            // (b) signature packet fields
            let Some((b2, what)) = perturb_sig(t, &body) else {
                rec.discard();
                return Ok(());
            };
            rec.label(format!("perturb:{}", what.split(' ').take(2).collect::<Vec<_>>().join("-")));
            let Some(sig2) = parse_sig_packet(&b2) else {
                rec.label("perturbed-signature-rejected-by-parser");
                rec.nontrivial((format!("{kind:?}"), via, text, what.clone(), "parse"));
                return Ok(());
            };
            if sig2 == sig {
                rec.label("trivial:reencoding");
                return Ok(());
            }
            rec.nontrivial((format!("{kind:?}"), via, text, what.clone()));
            rec.describe(|| format!("{kind:?} {} {hash:?} signature; {what}", if text { "text" } else { "binary" }));
            let acc = data_verifiers(&sig2, pubk, &z.public, &data, 2);
            if !acc.is_empty() {
                return fail("C02:signature-with-altered-field-verifies", format!("{what}: accepted by {acc:?} ({kind:?}, v{})", body[0]));
            }
        }
        _ => {
            // (c) verifying key
            rec.label("perturb:key");
            for (k2, what) in wrong_keys(t, kind) {
                rec.nontrivial((format!("{kind:?}"), via, text, what.clone()));
                rec.describe(|| format!("{kind:?} signature verified with: {what}"));
                let decoy_signed = zoo::get(zoo::decoy_for(kind));
                let mut acc = data_verifiers(&sig, &k2, &decoy_signed.public, &data, 3);
                // (the SignedPublicKey entry uses the decoy certificate)
                if what.starts_with("same key material") {
                    // the same cryptographic key under another OpenPGP identity: data signatures do
                    // not hash the key, so only the entry points that match the issuer can tell
                    // (Message::verify leaves the choice of key to the caller; version pairing is C15)
                    acc.retain(|n| !n.starts_with("Message::"));
                }
                if !acc.is_empty() {
                    return fail("C02:signature-verifies-under-wrong-key", format!("{what}: accepted by {acc:?} ({kind:?})"));
                }
            }
        }
    }
    Ok(())
}

/// text signatures whose content length sits on the 512-byte blocks of the line-ending
/// normalizers, with every small line-ending edit at the very end (enumerated, not drawn)
const EDGE_KS: [usize; 4] = [1, 2, 3, 8];
const EDGE_DELTAS: [isize; 4] = [-2, -1, 0, 1];
const EDGE_ENDINGS: [&[u8]; 4] = [b"ab", b"a\r", b"a\n", b"\r\n"];
const EDGE_EDITS: usize = 7;
const EDGE_KINDS: [Kind; 2] = [Kind::Ed25519V4, Kind::Ed25519V6];

fn edge_count() -> u64 {
    (EDGE_KS.len() * EDGE_DELTAS.len() * EDGE_ENDINGS.len() * EDGE_EDITS * 3 * EDGE_KINDS.len()) as u64
}

fn edge_case(t: &mut Tape, rec: &mut Rec) -> CaseResult {
    let mut i = t.u64() as usize;
    let mut take = |n: usize| {
        let r = i % n;
        i /= n;
        r
    };
    let edit = take(EDGE_EDITS);
    let ending = EDGE_ENDINGS[take(EDGE_ENDINGS.len())];
    let delta = EDGE_DELTAS[take(EDGE_DELTAS.len())];
    let k = EDGE_KS[take(EDGE_KS.len())];
    let via = take(3);
    let kind = EDGE_KINDS[take(EDGE_KINDS.len())];
    let n = (512 * k) as isize + delta;
    let n = n as usize;
    let mut data: Vec<u8> = (0..n).map(|j| if j % 61 == 60 { b'\n' } else { b'a' + (j % 23) as u8 }).collect();
    data[n - ending.len()..].copy_from_slice(ending);
    let z = zoo::get(kind);
    let hash = kind.hashes()[0];
    let sub = expand(i as u64 ^ 0xED6E, 80);
    let mut t2 = Tape::new(&sub);
    let sig = sign_data(&mut t2, kind, true, hash, via, &data)?;
    let accepted = data_verifiers(&sig, &z.public.primary_key, &z.public, &data, 0);
    if accepted.len() < 5 {
        return fail("C02:positive-control-failed", format!("unperturbed text signature over {n} bytes ending {ending:?} accepted only by {accepted:?} ({kind:?} via {via})"));
    }
    let mut d2 = data.clone();
    let what = match edit {
        0 => {
            d2.push(b'\r');
            "CR appended"
        }
        1 => {
            d2.push(b'\n');
            "LF appended"
        }
        2 => {
            d2.extend_from_slice(b"\r\n");
            "CR LF appended"
        }
        3 => {
            d2.pop();
            "last byte removed"
        }
        4 => {
            d2[n - 1] = b'\r';
            "last byte replaced by CR"
        }
        5 => {
            d2.insert(n - 1, b'\r');
            "CR inserted before the last byte"
        }
        _ => {
            d2.truncate(n - 2);
            "last two bytes removed"
        }
    };
    rec.label(format!("edge:{what}"));
    if same_text_semantics(&d2, &data, true) {
        rec.label("trivial:same-canonical-text");
        return Ok(());
    }
    rec.nontrivial((format!("{kind:?}"), via, n, ending, edit));
    rec.describe(|| format!("{kind:?} text signature (via {}) over {n} bytes ending in {:?}; {what}", ["detached", "one-pass", "config"][via], String::from_utf8_lossy(ending)));
    let acc = data_verifiers(&sig, &z.public.primary_key, &z.public, &d2, 1);
    if !acc.is_empty() {
        return fail("C02:signature-verifies-over-different-content", format!("{what}: accepted by {acc:?} ({kind:?}, text mode, {n} bytes ending in {:?})", String::from_utf8_lossy(ending)));
    }
    Ok(())
}


/// one-pass signed messages as the builder emits them (OPS.. literal signature..): a perturbation of
/// a trailing signature packet, of a one-pass header or of the literal content must not leave the
/// perturbed signer's signature verifiable through the message-level entry points
fn one_pass_message_case(t: &mut Tape, rec: &mut Rec) -> CaseResult {
    let n_signers = t.range(1, 2);
    let mut signers = vec![];
    for _ in 0..n_signers {
        let k = *t.pick(zoo::CHEAP_SIGNERS);
        if !signers.iter().any(|(x, _)| *x == k) {
            signers.push((k, *t.pick(k.hashes())));
        }
    }
    let mut cfg = MsgConfig::plain();
    cfg.signers = signers.clone();
    cfg.sign_text = t.bool();
    cfg.seed = t.seed32();
    let n = t.range(0, 600);
    let mut data = expand(t.u64(), n);
    if cfg.sign_text {
        for b in data.iter_mut() {
            *b = b"ab \r\n"[*b as usize % 5];
        }
    }
    let bytes = cfg.build(&data).map_err(|e| f("C02:builder-error", e.to_string()))?;
    let pk = wire::split_packets(&bytes).map_err(|e| f("C02:deframe", e))?;
    // positive control
    let verify_all = |msg_bytes: &[u8]| -> Option<Vec<bool>> {
        let mut m = Message::from_bytes(msg_bytes).ok()?;
        let mut out = vec![];
        m.read_to_end(&mut out).ok()?;
        // signer i is accepted if any of the message's signatures verifies under its key
        Some(signers.iter().map(|(k, _)| (0..signers.len()).any(|i| m.verify_nested_explicit(i, &zoo::get(*k).public.primary_key).is_ok())).collect())
    };
    match verify_all(&bytes) {
        Some(v) if v.iter().all(|x| *x) => {}
        other => return fail("C02:positive-control-failed", format!("one-pass message by {signers:?}: {other:?}")),
    }
    // the trailing signatures come in reverse order of the one-pass headers
    let sig_idx: Vec<usize> = pk.iter().enumerate().filter(|(_, p)| p.tag == 2).map(|(i, _)| i).collect();
    let ops_idx: Vec<usize> = pk.iter().enumerate().filter(|(_, p)| p.tag == 4).map(|(i, _)| i).collect();
    if sig_idx.len() != signers.len() || ops_idx.len() != signers.len() {
        rec.discard();
        return Ok(());
    }
    let which = t.below(signers.len());
    // signer `which` owns ops_idx[which] and sig_idx[len-1-which]
    let target_sig = sig_idx[signers.len() - 1 - which];
    let target_ops = ops_idx[which];
    let mut bodies: Vec<(u8, Vec<u8>)> = pk.iter().map(|p| (p.tag, p.body.clone())).collect();
    let what = match t.below(3) {
        0 => {
            let Some((b2, w)) = perturb_sig(t, &bodies[target_sig].1) else {
                rec.discard();
                return Ok(());
            };
            // an altered octet that the parser normalises away (e.g. the bit count of an MPI) leaves
            // the same signature: not a change of the signature value
            if let (Some(s1), Some(s2)) = (parse_sig_packet(&bodies[target_sig].1), parse_sig_packet(&b2)) {
                if s1 == s2 {
                    rec.label("trivial:reencoding");
                    return Ok(());
                }
            }
            bodies[target_sig].1 = b2;
            format!("trailing signature: {w}")
        }
        1 => {
            // one-pass header: the fields the statement lists (type, algorithms, v6 salt); the key id /
            // fingerprint octets are a lookup hint and the last octet is the nesting flag
            let b = &mut bodies[target_ops].1;
            let mut positions = vec![1usize, 2, 3];
            if b[0] == 6 {
                let sl = b[4] as usize;
                positions.extend(5..5 + sl);
            }
            let p = *t.pick(&positions);
            let bit = t.below(8);
            b[p] ^= 1 << bit;
            format!("one-pass header byte {p} bit {bit}")
        }
        _ => {
            let lit = bodies.iter().position(|(tag, _)| *tag == 11).ok_or_else(|| f("C02:no-literal", ""))?;
            let Some((mode, name, date, content)) = wire::parse_literal(&bodies[lit].1) else {
                rec.discard();
                return Ok(());
            };
            let (d2, w) = perturb_content(t, &content);
            if same_text_semantics(&d2, &content, cfg.sign_text) {
                rec.label("trivial:same-canonical-text");
                return Ok(());
            }
            bodies[lit].1 = wire::literal_body(mode, &name, date, &d2);
            format!("literal content: {w}")
        }
    };
    rec.label(format!("one-pass:{}", if what.starts_with("one-pass header") { "one-pass-header-field".to_string() } else { what.split(':').next().unwrap_or("?").replace(' ', "-") }));
    rec.nontrivial((format!("{signers:?}"), cfg.sign_text, n, what.clone()));
    rec.describe(|| format!("one-pass message by {signers:?} ({} mode, {n} bytes), signer #{which}: {what}", if cfg.sign_text { "text" } else { "binary" }));
    let tampered: Vec<u8> = bodies.iter().flat_map(|(tag, b)| wire::new_packet(*tag, b)).collect();
    if tampered == bytes {
        rec.label("trivial:reencoding");
        return Ok(());
    }
    if let Some(v) = verify_all(&tampered) {
        let content_changed = what.starts_with("literal");
        for (i, ok) in v.iter().enumerate() {
            if *ok && (i == which || content_changed) {
                return fail("C02:tampered-one-pass-message-verifies", format!("{what}: Message::verify still accepts the signature of signer #{i} ({:?})", signers[i].0));
            }
        }
    }
    Ok(())
}

fn cleartext_case(t: &mut Tape, rec: &mut Rec) -> CaseResult {
    use super::c16::{draw_text, ref_signed_form, split_document, unescape};
    let kind = *t.pick(zoo::CHEAP_SIGNERS);
    let z = zoo::get(kind);
    let text = if t.bool() {
        draw_text(t)
    } else {
        let n = t.range(0, 8);
        let mut text = String::new();
        for i in 0..n {
            text.push_str(*t.pick(&["hello world", "- dashed", "-----BEGIN PGP SIGNATURE-----", "", "tab\tsep", "é€", "From here", "nbsp\u{a0}", "ff\u{c}", "cr\r"]));
            if i + 1 < n || t.bool() {
                text.push_str(*t.pick(&["\n", "\r\n"]));
            }
        }
        text
    };
    let msg = CleartextSignedMessage::sign(ChaCha8Rng::from_seed(t.seed32()), &text, &z.secret.primary_key, &Password::empty()).map_err(|e| f("C02:sign-error", e.to_string()))?;
    if msg.verify(&z.public.primary_key).is_err() {
        return fail("C02:positive-control-failed", format!("cleartext {text:?}"));
    }
    let arm = msg.to_armored_string(Default::default()).map_err(|e| f("C02:serialize-error", e.to_string()))?;
    // perturb the text section of the armored document: substitute, insert or delete one character
    let start = arm.find("\n\n").map(|p| p + 2).unwrap_or(0);
    let end = arm.find("\n-----BEGIN PGP SIGNATURE").unwrap_or(arm.len());
    if end <= start {
        rec.discard();
        return Ok(());
    }
    let chars: Vec<(usize, char)> = arm[start..end].char_indices().map(|(i, c)| (start + i, c)).collect();
    // positions at the end of a line (where blanks are significant or not) are drawn more often
    let line_ends: Vec<usize> = chars.iter().enumerate().filter(|(_, (_, c))| *c == '\n' || *c == '\r').map(|(i, _)| i).collect();
    let ci = if !line_ends.is_empty() && t.chance(140) { (*t.pick(&line_ends)).saturating_sub(t.below(2)) } else { t.below(chars.len()) };
    let (p, old) = chars[ci];
    let new = *t.pick(&['x', '-', ' ', '\n', 'A', '\t', '\r', '\u{a0}', '\u{c}', '\u{b}', '\u{3000}', '\u{2028}']);
    let mut s2 = String::with_capacity(arm.len() + 4);
    let op = t.below(3);
    let what = match op {
        0 => {
            if new == old {
                rec.discard();
                return Ok(());
            }
            s2.push_str(&arm[..p]);
            s2.push(new);
            s2.push_str(&arm[p + old.len_utf8()..]);
            format!("character {:?} at offset {} of the text section replaced by {:?}", old, p - start, new)
        }
        1 => {
            s2.push_str(&arm[..p]);
            s2.push(new);
            s2.push_str(&arm[p..]);
            format!("{:?} inserted at offset {} of the text section", new, p - start)
        }
        _ => {
            s2.push_str(&arm[..p]);
            s2.push_str(&arm[p + old.len_utf8()..]);
            format!("character {:?} at offset {} of the text section deleted", old, p - start)
        }
    };
    rec.label("cleartext:edit");
    rec.describe(|| format!("cleartext by {kind:?} over {text:?}: {what}"));
    // reference judgement: did the RFC 9580 7.2 signed form change?
    let same_form = match split_document(&s2) {
        Ok((_, escaped, _)) => Some(ref_signed_form(&unescape(&escaped)) == ref_signed_form(&text)),
        Err(_) => None,
    };
    match CleartextSignedMessage::from_string(&s2) {
        Err(_) => {
            rec.nontrivial(("csf-parse", text.clone(), what.clone()));
            Ok(())
        }
        Ok((m2, _)) => {
            match same_form {
                Some(true) => {
                    rec.label("trivial:same-signed-form");
                    return Ok(());
                }
                None => {
                    // the reference splitter does not accept the edited document: no verdict from it
                    if m2.signed_text() == msg.signed_text() {
                        rec.label("trivial:same-signed-form");
                        return Ok(());
                    }
                }
                Some(false) => {}
            }
            rec.nontrivial(("csf", text.clone(), what.clone()));
            if m2.verify(&z.public.primary_key).is_ok() {
                return fail("C02:cleartext-signature-verifies-over-different-text", format!("text {text:?}: {what}; signed form {:?} vs {:?}", m2.signed_text(), msg.signed_text()));
            }
            if m2.verify_many(|_, s, d| s.verify(&z.public.primary_key, d)).is_ok() {
                return fail("C02:cleartext-signature-verifies-over-different-text", "verify_many".to_string());
            }
            Ok(())
        }
    }
}

/// certificate-forming signatures through the low level API
fn cert_sig_case(t: &mut Tape, rec: &mut Rec) -> CaseResult {
    let kind = *t.pick(&[Kind::Ed25519V4, Kind::Ed25519V6, Kind::P256V4, Kind::EdLegacyV4, Kind::RsaV4]);
    let z = zoo::get(kind);
    let key = &z.secret.primary_key;
    let pubk = &z.public.primary_key;
    let same: Vec<Kind> = [Kind::Ed25519V4, Kind::Ed25519V6, Kind::P256V4, Kind::EdLegacyV4, Kind::Ed25519V4B, Kind::Ed25519V6B].iter().copied().filter(|k| k.is_v6() == kind.is_v6() && *k != kind).collect();
    let other_kind = *t.pick(&same);
    let other = zoo::get(other_kind);
    let hash = kind.hashes()[0];
    let mut rng = ChaCha8Rng::from_seed(t.seed32());
    let which = t.below(5);
    let typ = match which {
        0 => *t.pick(&[SignatureType::CertGeneric, SignatureType::CertPositive, SignatureType::CertRevocation]),
        1 => SignatureType::SubkeyBinding,
        2 => SignatureType::KeyBinding,
        3 => SignatureType::Key,
        _ => SignatureType::KeyRevocation,
    };
    let mut cfg = if kind.is_v6() { SignatureConfig::v6(&mut rng, typ, key.algorithm(), hash).map_err(|e| f("C02:sign-error", e.to_string()))? } else { SignatureConfig::v4(typ, key.algorithm(), hash) };
    cfg.hashed_subpackets = vec![Subpacket::regular(SubpacketData::SignatureCreationTime(Timestamp::from_secs(1_700_000_002))).unwrap(), Subpacket::regular(SubpacketData::IssuerFingerprint(key.fingerprint())).unwrap()];
    let uid = UserId::from_str(Default::default(), "Alice <alice@example.org>").unwrap();
    let uid2 = UserId::from_str(Default::default(), if t.bool() { "Alice <alice@example.orh>" } else { "Alice <alice@example.org> " }).unwrap();
    let sub = &other.public.public_subkeys[0].key;
    let pw = Password::empty();
    let sig = match which {
        0 => cfg.sign_certification_third_party(key, &pw, &other.public.primary_key, Tag::UserId, &uid),
        1 => cfg.sign_subkey_binding(key, pubk, &pw, sub),
        2 => cfg.sign_primary_key_binding(key, pubk, &pw, &other.public.primary_key),
        _ => cfg.sign_key(key, &pw, &other.public.primary_key),
    }
    .map_err(|e| f("C02:sign-error", e.to_string()))?;
    let decoy = &zoo::get(zoo::decoy_for(other_kind)).public;
    let verify = |s: &Signature, signer: &PublicKey, signee_primary: &PublicKey, u: &UserId, alt_sub: bool| -> bool {
        match which {
            0 => s.verify_third_party_certification(signee_primary, signer, Tag::UserId, u).is_ok(),
            1 => {
                if alt_sub {
                    s.verify_subkey_binding(signer, &decoy.public_subkeys[0].key).is_ok()
                } else {
                    s.verify_subkey_binding(signer, sub).is_ok()
                }
            }
            2 => s.verify_primary_key_binding(signer, signee_primary).is_ok(),
            _ => s.verify_key_third_party(signee_primary, signer).is_ok(),
        }
    };
    rec.label(format!("certsig:{typ:?}"));
    if !verify(&sig, pubk, &other.public.primary_key, &uid, false) {
        return fail("C02:positive-control-failed", format!("{typ:?} by {kind:?} over {other_kind:?}"));
    }
    let body = sig.to_bytes().unwrap();
    let pclass = t.below(3);
    match pclass {
        0 => {
            // content: other user id / other signee key / other subkey
            let what = match which {
                0 if t.bool() => "different user id",
                1 => "different subkey",
                _ => "different signee key",
            };
            rec.nontrivial((format!("{typ:?}{kind:?}{other_kind:?}"), what));
            rec.describe(|| format!("{typ:?} by {kind:?} over {other_kind:?}: verified against {what}"));
            let bad = match what {
                "different user id" => verify(&sig, pubk, &other.public.primary_key, &uid2, false),
                "different subkey" => verify(&sig, pubk, &other.public.primary_key, &uid, true),
                _ => verify(&sig, pubk, &decoy.primary_key, &uid, false),
            };
            if bad {
                return fail("C02:certificate-signature-verifies-over-different-object", format!("{typ:?}: {what}"));
            }
        }
        1 => {
            let Some((b2, what)) = perturb_sig(t, &body) else {
                rec.discard();
                return Ok(());
            };
            let Some(sig2) = parse_sig_packet(&b2) else {
                rec.nontrivial((format!("{typ:?}{kind:?}"), what, "parse"));
                return Ok(());
            };
            if sig2 == sig {
                return Ok(());
            }
            rec.nontrivial((format!("{typ:?}{kind:?}"), what.clone()));
            rec.describe(|| format!("{typ:?} by {kind:?}: {what}"));
            if verify(&sig2, pubk, &other.public.primary_key, &uid, false) {
                return fail("C02:certificate-signature-with-altered-field-verifies", format!("{typ:?}: {what}"));
            }
        }
        _ => {
            for (k2, what) in wrong_keys(t, kind) {
                rec.nontrivial((format!("{typ:?}{kind:?}"), what.clone()));
                rec.describe(|| format!("{typ:?} by {kind:?} verified with: {what}"));
                if verify(&sig, &k2, &other.public.primary_key, &uid, false) {
                    return fail("C02:certificate-signature-verifies-under-wrong-key", format!("{typ:?}: {what}"));
                }
            }
        }
    }
    Ok(())
}

/// whole certificates: perturb a hashed field somewhere, verify_bindings must fail (or the
/// component must be gone)
fn certificate_case(t: &mut Tape, rec: &mut Rec) -> CaseResult {
    let kind = *t.pick(&[Kind::Ed25519V4, Kind::Ed25519V6, Kind::P256V4, Kind::EdLegacyV4, Kind::RsaV4, Kind::Ed448V6]);
    let z = zoo::get(kind);
    let secret = t.chance(80);
    // public certificates are also used with a certified image user attribute added through the API
    let with_attr = !secret && t.chance(110);
    let base_public: SignedPublicKey = if with_attr {
        let mut c = z.public.clone();
        let attr = pgp::packet::UserAttribute::new_image(expand(t.u64(), t.range(1, 60)).into()).map_err(|e| f("C02:attr-error", e.to_string()))?;
        let signed = attr.sign(ChaCha8Rng::from_seed(t.seed32()), &z.secret.primary_key, &z.public.primary_key, &Password::empty()).map_err(|e| f("C02:sign-error", e.to_string()))?;
        c.details.user_attributes.push(signed);
        if c.verify_bindings().is_err() {
            return fail("C02:positive-control-failed", format!("{kind:?} certificate with an added image attribute does not verify"));
        }
        c
    } else {
        z.public.clone()
    };
    let bytes = if secret { z.secret.to_bytes().unwrap() } else { base_public.to_bytes().unwrap() };
    let raws = wire::split_packets(&bytes).unwrap();
    // choose a packet and a position inside a signed region (the attribute packet more often when present)
    let attr_idx = raws.iter().position(|p| p.tag == 17);
    let pi = match attr_idx {
        Some(ai) if t.chance(150) => ai,
        _ => t.below(raws.len()),
    };
    let rp = &raws[pi];
    let body = &rp.body;
    let (range, what): (Range<usize>, String) = match rp.tag {
        6 | 14 | 5 | 7 => {
            // public part of the key (version .. public material)
            let kb = keys::parse_key(body, matches!(rp.tag, 5 | 7)).ok_or_else(|| f("C02:reference-key-parse", ""))?;
            (0..kb.public_body.len(), format!("public fields of key packet (tag {})", rp.tag))
        }
        13 => (0..body.len(), "user id".into()),
        17 => (0..body.len(), "user attribute".into()),
        2 => {
            let l = layout(body).ok_or_else(|| f("C02:signature-layout", ""))?;
            match t.below(4) {
                0 => (1..4, "signature type/algorithms".into()),
                1 | 2 if !l.hashed.is_empty() => (l.hashed.clone(), "signature hashed area".into()),
                _ if !l.salt.is_empty() && t.bool() => (l.salt.clone(), "signature salt".into()),
                _ => (l.value.clone(), "signature value".into()),
            }
        }
        _ => {
            rec.discard();
            return Ok(());
        }
    };
    if range.is_empty() {
        rec.discard();
        return Ok(());
    }
    let p = range.start + t.below(range.len());
    let bit = t.below(8);
    let mut b2 = body.clone();
    b2[p] ^= 1 << bit;
    let mut out = bytes[..rp.offset].to_vec();
    out.extend_from_slice(&wire::new_packet(rp.tag, &b2));
    out.extend_from_slice(&bytes[rp.offset + rp.encoded_len..]);
    rec.label(format!("certificate:{}", what.split(' ').next().unwrap_or("")));
    rec.describe(|| format!("{kind:?} {} certificate: packet #{pi} (tag {}), {what}, byte {p} bit {bit}", if secret { "secret" } else { "public" }, rp.tag));
    fn sig_count(d: &pgp::composed::SignedKeyDetails) -> usize {
        d.direct_signatures.len() + d.revocation_signatures.len() + d.users.iter().map(|u| u.signatures.len()).sum::<usize>() + d.user_attributes.iter().map(|u| u.signatures.len()).sum::<usize>()
    }
    let nsigs0 = sig_count(&base_public.details) + base_public.public_subkeys.iter().map(|s| s.signatures.len()).sum::<usize>();
    let (nsub, nuser) = (base_public.public_subkeys.len() + nsigs0, base_public.details.users.len() + base_public.details.user_attributes.len());
    let mut same_value = false;
    let judged: Result<(bool, usize, usize), String> = if secret {
        SignedSecretKey::from_bytes(&out[..])
            .map(|k| {
                same_value = k == z.secret;
                (k.verify_bindings().is_ok(), k.secret_subkeys.len() + k.public_subkeys.len() + sig_count(&k.details) + k.secret_subkeys.iter().map(|s| s.signatures.len()).sum::<usize>() + k.public_subkeys.iter().map(|s| s.signatures.len()).sum::<usize>(), k.details.users.len() + k.details.user_attributes.len())
            })
            .map_err(|e| e.to_string())
    } else {
        SignedPublicKey::from_bytes(&out[..])
            .map(|k| {
                same_value = k == base_public;
                (k.verify_bindings().is_ok(), k.public_subkeys.len() + sig_count(&k.details) + k.public_subkeys.iter().map(|s| s.signatures.len()).sum::<usize>(), k.details.users.len() + k.details.user_attributes.len())
            })
            .map_err(|e| e.to_string())
    };
    if same_value {
        // the parser normalised the change away (e.g. a redundant length field): same certificate
        rec.label("trivial:parsed-to-the-same-certificate");
        return Ok(());
    }
    match judged {
        Err(_) => {
            rec.nontrivial((format!("{kind:?}"), secret, pi, p, bit, "rejected"));
        }
        Ok((ok, s, u)) => {
            if s < nsub || u < nuser {
                rec.label("certificate:component-dropped");
                rec.nontrivial((format!("{kind:?}"), secret, pi, p, bit, "dropped"));
                return Ok(());
            }
            rec.nontrivial((format!("{kind:?}"), secret, pi, p, bit));
            if ok {
                return fail("C02:certificate-with-altered-signed-field-verifies", format!("{kind:?} {}: packet #{pi} tag {} {what} byte {p} bit {bit}: verify_bindings() accepted", if secret { "secret" } else { "public" }, rp.tag));
            }
        }
    }
    Ok(())
}

pub fn run(ctx: &Ctx) {
    ctx.set_rule("artifacts made with rPGP's signing APIs over zoo keys (detached binary/text, builder one-pass, SignatureConfig; cleartext; certifications 0x10/0x13/0x30, subkey and primary-key bindings, direct-key, key revocation; whole zoo certificates public and secret, also with a certified image user attribute added through the API); one perturbation per case: (a) content - bit flip, truncation, extension, swap, insertion; different user id / subkey / signee key; (b) signature packet at field level - type, public-key algorithm, hash algorithm, any bit of the hashed area, hashed-area length, salt, any bit of the signature value; (c) verifying key - decoy key of the same algorithm, same material with another creation time, same material as a key of the other version; oracle: positive control on the unperturbed artifact, then every applicable entry point (Signature::verify via PublicKey and SignedPublicKey, DetachedSignature::verify, Message::verify / verify_nested_explicit on a prefixed message, cleartext verify / verify_many, verify_third_party_certification, verify_subkey_binding, verify_primary_key_binding, verify_key_third_party, Signed{Public,Secret}Key::verify_bindings) must return Err unless the parser rejected the artifact or it is semantically identical (re-encoding / same canonical text / dropped component); non-trivial = semantic change with passing control; distinct = (artifact kind, key, field, position)");
    ctx.assume("unhashed area, left-16 octets and ECDSA/DSA (r, n-s) malleability are outside the property and not perturbed");
    zoo::warm(zoo::ALL);
    let n = ctx.tier.pick(12_000u64, 1_000_000);
    ctx.group("data-signatures", Source::Random { n, tape_len: 200 }, |t, rec| data_case(t, rec, zoo::CHEAP_SIGNERS));
    let n = ctx.tier.pick(800u64, 80_000);
    ctx.group("data-signatures-all-algorithms", Source::Random { n, tape_len: 200 }, |t, rec| data_case(t, rec, zoo::ALL_SIGNERS));
    let n = ctx.tier.pick(4_000u64, 320_000);
    ctx.group("text-signatures-at-normalizer-block-edges", Source::Indexed { count: edge_count() }, edge_case);
    let n_op = ctx.tier.pick(4000u64, 320_000);
    ctx.group("one-pass-messages", Source::Random { n: n_op, tape_len: 200 }, one_pass_message_case);
    ctx.group("cleartext", Source::Random { n, tape_len: 120 }, cleartext_case);
    ctx.group("certificate-signatures", Source::Random { n, tape_len: 160 }, cert_sig_case);
    let n = ctx.tier.pick(6_000u64, 600_000);
    ctx.group("whole-certificates", Source::Random { n, tape_len: 64 }, certificate_case);
    let _ = Tier::Quick;
}
