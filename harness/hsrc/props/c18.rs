//! C18 — recipients: every intended recipient can decrypt, nobody else gets plaintext.

use pgp::composed::{InnerRingResult, Message, PlainSessionKey, RawSessionKey, SignedSecretKey, TheRing};
use pgp::crypto::sym::SymmetricKeyAlgorithm;
use pgp::types::Password;

use crate::engine::{expand, fail, CaseResult, Ctx, Fail, Rec, Source, Tape};
use crate::io::Consumer;
use crate::msg::{self, Enc, MsgConfig, PwSpec, S2kKind, AEADS, AES, CIPHERS};
use crate::refimpl::crypto as rc;
use crate::refimpl::wire;
use crate::zoo::{self, Kind};

fn f(sig: &str, d: impl Into<String>) -> Fail {
    Fail { sig: sig.to_string(), detail: d.into() }
}

struct Presented<'a> {
    keys: Vec<&'a SignedSecretKey>,
    key_pws: Vec<Password>,
    msg_pws: Vec<Password>,
    session_keys: Vec<PlainSessionKey>,
}

struct Outcome {
    released: Vec<u8>,
    error: Option<String>,
    ring: Option<pgp::composed::RingResult>,
}

fn open(bytes: &[u8], p: Presented<'_>, abort_early: bool, cons: Consumer) -> Outcome {
    let m = match Message::from_bytes(bytes) {
        Ok(m) => m,
        Err(e) => return Outcome { released: vec![], error: Some(format!("parse: {e}")), ring: None },
    };
    let ring = TheRing { secret_keys: p.keys.clone(), key_passwords: p.key_pws.iter().collect(), message_password: p.msg_pws.iter().collect(), session_keys: p.session_keys.clone(), ..Default::default() };
    match m.decrypt_the_ring(ring, abort_early) {
        Err(e) => Outcome { released: vec![], error: Some(format!("decrypt: {e}")), ring: None },
        Ok((m, rr)) => match msg::peel(m) {
            Err(e) => Outcome { released: vec![], error: Some(format!("decompress: {e}")), ring: Some(rr) },
            Ok(mut m) => {
                let (d, r) = cons.drive(&mut m);
                Outcome { released: d, error: r.err().map(|e| format!("read: {e}")), ring: Some(rr) }
            }
        },
    }
}

fn draw_cfg(t: &mut Tape, recipients: &[Kind]) -> MsgConfig {
    let mut cfg = MsgConfig::plain();
    cfg.seed = t.seed32();
    let v2 = t.bool();
    cfg.enc = if v2 { Enc::V2(*t.pick(&AES), *t.pick(&AEADS), t.range(0, 4) as u8) } else { Enc::V1(*t.pick(&CIPHERS)) };
    let nrec = t.range(1, 4);
    let mut pool: Vec<Kind> = recipients.to_vec();
    for _ in 0..nrec {
        if pool.is_empty() {
            break;
        }
        let k = pool.remove(t.below(pool.len()));
        cfg.recipients.push((k, t.chance(90)));
    }
    let npw = match t.below(5) {
        0 | 1 => 0,
        2 | 3 => 1,
        _ => t.range(2, 3),
    };
    for i in 0..npw {
        cfg.passwords.push(PwSpec { pw: format!("message-pw-{i}-é").into_bytes(), s2k: *t.pick(&[S2kKind::Salted, S2kKind::Iterated(0), S2kKind::Iterated(30), S2kKind::Argon2]) });
    }
    if t.chance(60) {
        cfg.compression = Some(pgp::types::CompressionAlgorithm::ZIP);
    }
    cfg
}

fn unrelated(t: &mut Tape, cfg: &MsgConfig, n: usize) -> Vec<Kind> {
    let mut pool: Vec<Kind> = zoo::ALL_RECIPIENTS.iter().chain([Kind::Ed25519V4B, Kind::Ed25519V6B, Kind::EdLegacyV4B, Kind::P256V4B, Kind::RsaV4B].iter()).copied().filter(|k| !cfg.recipients.iter().any(|(r, _)| r == k)).collect();
    // prefer same-algorithm decoys of the recipients (they are the ones a wildcard PKESK can confuse)
    let mut out = vec![];
    for (r, _) in &cfg.recipients {
        let d = zoo::decoy_for(*r);
        if out.len() < n && pool.contains(&d) && t.bool() {
            out.push(d);
            pool.retain(|k| *k != d);
        }
    }
    while out.len() < n && !pool.is_empty() {
        out.push(pool.remove(t.below(pool.len())));
    }
    out
}

fn positive_case(t: &mut Tape, rec: &mut Rec, recipients: &[Kind]) -> CaseResult {
    let cfg = draw_cfg(t, recipients);
    let payload = expand(t.u64(), t.range(0, 3000));
    let bytes = cfg.build(&payload).map_err(|e| f("C18:builder-error", e.to_string()))?;
    cfg.labels(rec);
    let abort_early = t.bool();
    let cons = Consumer::draw(t);
    let v1 = matches!(cfg.enc, Enc::V1(_));
    // which intended secret
    let n_opts = cfg.recipients.len() + cfg.passwords.len();
    let pick = t.below(n_opts);
    let n_unrel = t.below(4);
    let unrel = unrelated(t, &cfg, n_unrel);
    let mut keys: Vec<&SignedSecretKey> = vec![];
    let mut key_pws: Vec<Password> = vec![];
    let mut msg_pws: Vec<Password> = vec![];
    let desc;
    if pick < cfg.recipients.len() {
        let (k, anon) = cfg.recipients[pick];
        let z = zoo::get(k);
        // lock state of the presented key: 0 unprotected, 1 all locked, 2 only the (decrypting)
        // subkey locked, 3 only the primary key locked
        let lock_state = if z.secret.secret_subkeys.is_empty() { t.below(2) } else { [0, 1, 0, 1, 2, 3][t.below(6)] };
        let locked = lock_state == 1 || lock_state == 2;
        // unprotected keys are also presented with a second encryption subkey in front of the addressed one
        let two = lock_state == 0 && z.two_subkeys.is_some() && t.chance(90);
        if two {
            rec.label("present:target-subkey-is-not-the-first-subkey");
        }
        let presented: &SignedSecretKey = match lock_state {
            0 if two => z.two_subkeys.as_ref().expect("checked"),
            0 => &z.secret,
            1 => &z.locked,
            2 => &z.sub_locked,
            _ => &z.prim_locked,
        };
        // position of the real key among the unrelated ones
        let pos = t.below(unrel.len() + 1);
        for (i, u) in unrel.iter().enumerate() {
            if i == pos {
                keys.push(presented);
            }
            keys.push(&zoo::get(*u).secret);
        }
        if pos >= unrel.len() {
            keys.push(presented);
        }
        // candidate key passwords: wrong ones first
        if locked {
            if t.bool() {
                key_pws.push(Password::from("wrong key password"));
            }
            key_pws.push(Password::from(zoo::LOCK_PW));
        } else {
            // the decrypting subkey is unprotected: no key password is needed, any may be present
            match t.below(3) {
                0 => {}
                1 => key_pws.push(Password::empty()),
                _ => key_pws.push(Password::from(zoo::LOCK_PW)),
            }
        }
        rec.label(["present:key-unprotected", "present:key-all-locked", "present:key-only-subkey-locked", "present:key-only-primary-locked"][lock_state]);
        rec.label(if anon { "present:anonymous-recipient" } else { "present:addressed-recipient" });
        rec.label(format!("present:unrelated-keys={}", unrel.len()));
        if anon && unrel.iter().any(|u| zoo::get(*u).secret.secret_subkeys.first().map(|s| s.key.algorithm()) == z.secret.secret_subkeys.first().map(|s| s.key.algorithm())) {
            rec.label("present:wildcard-with-same-algorithm-decoy");
        }
        desc = format!("recipient #{pick} {k:?}{} {} at position {pos} among unrelated {unrel:?}", if anon { " (anonymous)" } else { "" }, ["unprotected", "locked", "with only the subkey locked", "with only the primary key locked"][lock_state]);
    } else {
        let pi = pick - cfg.recipients.len();
        let right = Password::from(&cfg.passwords[pi].pw[..]);
        // unrelated passwords alongside only for integrity-protected password packets (SKESK v6)
        let n_other = if v1 { 0 } else { t.below(3) };
        let pos = t.below(n_other + 1);
        for i in 0..n_other {
            if i == pos {
                msg_pws.push(Password::from(&cfg.passwords[pi].pw[..]));
            }
            msg_pws.push(Password::from(format!("unrelated-{i}").as_str()));
        }
        if pos >= n_other {
            msg_pws.push(right);
        }
        // unrelated keys may be presented too
        for u in &unrel {
            keys.push(&zoo::get(*u).secret);
        }
        key_pws.push(Password::empty());
        rec.label("present:password");
        rec.label(format!("present:unrelated-passwords={n_other}"));
        desc = format!("password #{pi} at position {pos} among {n_other} unrelated passwords, unrelated keys {unrel:?}");
    }
    use pgp::types::KeyDetails;
    rec.nontrivial((cfg.shape_key(), desc.clone(), abort_early));
    rec.describe(|| format!("{} | payload {} | presented: {desc} | abort_early={abort_early} consumer {cons:?}", cfg.describe(), payload.len()));
    let o = open(&bytes, Presented { keys, key_pws, msg_pws, session_keys: vec![] }, abort_early, cons);
    if let Some(e) = &o.error {
        // recorded finding: several v4 SKESKs, own password rejected as inconsistent
        if pick >= cfg.recipients.len() && v1 && cfg.passwords.len() >= 2 && e.contains("inconsistent session keys") {
            return fail("C18:seipdv1-multi-password-right-password-rejected-as-inconsistent", format!("{e}; {desc}"));
        }
        let sig = if pick < cfg.recipients.len() { if cfg.recipients[pick].1 { "C18:anonymous-recipient-cannot-decrypt" } else { "C18:recipient-cannot-decrypt" } } else { "C18:password-holder-cannot-decrypt" };
        return fail(sig, format!("{e}; presented: {desc}; abort_early={abort_early}; {}", cfg.describe()));
    }
    crate::ensure_prop!(o.released == payload, "C18:recipient-gets-different-plaintext", "{} vs {} bytes; {desc}", o.released.len(), payload.len());
    Ok(())
}

fn negative_case(t: &mut Tape, rec: &mut Rec, recipients: &[Kind]) -> CaseResult {
    let cfg = draw_cfg(t, recipients);
    let payload = expand(t.u64(), t.range(1, 3000));
    let bytes = cfg.build(&payload).map_err(|e| f("C18:builder-error", e.to_string()))?;
    let abort_early = t.bool();
    let cons = Consumer::draw(t);
    let v1 = matches!(cfg.enc, Enc::V1(_));
    let class = t.below(4);
    let mut p = Presented { keys: vec![], key_pws: vec![Password::empty()], msg_pws: vec![], session_keys: vec![] };
    let desc;
    match class {
        0 => {
            let n = t.range(1, 3);
            let u = unrelated(t, &cfg, n);
            for k in &u {
                p.keys.push(&zoo::get(*k).secret);
            }
            desc = format!("only non-recipient keys {u:?}");
        }
        1 => {
            let n = t.range(1, 3);
            for i in 0..n {
                p.msg_pws.push(Password::from(format!("wrong-{i}").as_str()));
            }
            // a one-bit-off variant of a real password
            if let Some(pw) = cfg.passwords.first() {
                let mut w = pw.pw.clone();
                if !w.is_empty() {
                    let i = t.below(w.len());
                    w[i] ^= 0x80;
                    p.msg_pws.push(Password::from(&w[..]));
                }
            }
            desc = format!("only wrong passwords ({})", p.msg_pws.len());
        }
        2 => {
            // wrong session key of the right kind
            let mut sk = cfg.session_key();
            let i = t.below(sk.len());
            // (the low bit of every TripleDES key octet is a parity bit the cipher ignores)
            sk[i] ^= 1 << t.range(1, 7);
            p.session_keys.push(match cfg.enc {
                Enc::V1(c) => PlainSessionKey::V3_4 { sym_alg: c, key: RawSessionKey::from(sk) },
                _ => PlainSessionKey::V6 { key: RawSessionKey::from(sk) },
            });
            desc = "session key with one bit flipped".to_string();
        }
        _ => {
            // right key bytes, wrong kind / wrong cipher
            let sk = cfg.session_key();
            p.session_keys.push(match cfg.enc {
                Enc::V1(c) => {
                    if t.bool() {
                        PlainSessionKey::V6 { key: RawSessionKey::from(sk) }
                    } else {
                        let other = if c == SymmetricKeyAlgorithm::AES256 { SymmetricKeyAlgorithm::Twofish } else if c.key_size() == 16 { if c == SymmetricKeyAlgorithm::AES128 { SymmetricKeyAlgorithm::Camellia128 } else { SymmetricKeyAlgorithm::AES128 } } else { SymmetricKeyAlgorithm::AES256 };
                        PlainSessionKey::V3_4 { sym_alg: other, key: RawSessionKey::from(expand(7, other.key_size())) }
                    }
                }
                Enc::V2(c, _, _) => PlainSessionKey::V3_4 { sym_alg: c, key: RawSessionKey::from(sk) },
                Enc::None => unreachable!(),
            });
            desc = "session key of the wrong kind / cipher".to_string();
        }
    }
    rec.label(format!("negative:{}", ["non-recipient-keys", "wrong-passwords", "wrong-session-key", "wrong-session-key-kind"][class]));
    rec.nontrivial((cfg.shape_key(), desc.clone(), abort_early));
    rec.describe(|| format!("{} | presented: {desc} | abort_early={abort_early}", cfg.describe()));
    let o = open(&bytes, p, abort_early, cons);
    match &o.error {
        None => fail("C18:non-recipient-decrypts", format!("{desc}: clean end of stream with {} bytes (equal to plaintext: {}); {}", o.released.len(), o.released == payload, cfg.describe())),
        Some(_) => {
            if !o.released.is_empty() {
                // SKESK v4 plausibility false-accept is stopped by the MDC before anything is released (default mode)
                return fail("C18:plaintext-released-to-non-recipient", format!("{desc}: {} bytes released before the error ({}); v1={v1}", o.released.len(), o.error.clone().unwrap_or_default()));
            }
            Ok(())
        }
    }
}

/// secrets that yield different session keys must be reported as a conflict when cross-checking
fn conflict_case(t: &mut Tape, rec: &mut Rec) -> CaseResult {
    let v2 = t.bool();
    let sym = *t.pick(&AES);
    let mk = |seed: [u8; 32], kind: Kind, pw: &[u8]| -> MsgConfig {
        let mut c = MsgConfig::plain();
        c.seed = seed;
        c.enc = if v2 { Enc::V2(sym, pgp::crypto::aead::AeadAlgorithm::Ocb, 0) } else { Enc::V1(sym) };
        c.recipients = vec![(kind, false)];
        c.passwords = vec![PwSpec { pw: pw.to_vec(), s2k: S2kKind::Iterated(0) }];
        c
    };
    let ka = if v2 { Kind::Ed25519V6 } else { Kind::Ed25519V4 };
    let a = mk(t.seed32(), ka, b"pw-a");
    let mut sb = t.seed32();
    sb[0] ^= 0x55;
    let b = mk(sb, ka, b"pw-b");
    let payload = expand(t.u64(), 100);
    let ba = a.build(&payload).map_err(|e| f("C18:builder-error", e.to_string()))?;
    let bb = b.build(&payload).map_err(|e| f("C18:builder-error", e.to_string()))?;
    let pa = wire::split_packets(&ba).map_err(|e| f("C18:deframe", e))?;
    let pb = wire::split_packets(&bb).map_err(|e| f("C18:deframe", e))?;
    // message: SKESK of B (session key B, password pw-b) + PKESK of A (session key A) + container of A
    let raw = |bytes: &[u8], p: &wire::RawPacket| bytes[p.offset..p.offset + p.encoded_len].to_vec();
    let skesk_b = pb.iter().find(|p| p.tag == 3).unwrap();
    let pkesk_a = pa.iter().find(|p| p.tag == 1).unwrap();
    let seipd_a = pa.iter().find(|p| p.tag == 18).unwrap();
    let msg = [raw(&bb, skesk_b), raw(&ba, pkesk_a), raw(&ba, seipd_a)].concat();
    rec.label(if v2 { "conflict:v6" } else { "conflict:v3/4" });
    rec.nontrivial((v2, u8::from(sym), a.seed[0], b.seed[0]));
    rec.describe(|| format!("PKESK to {ka:?} wraps session key A, SKESK for 'pw-b' wraps session key B ({sym:?}, SEIPD{}) - both secrets presented with abort_early=false", if v2 { "v2" } else { "v1" }));
    // sanity: each secret alone behaves as expected (key alone decrypts; password alone yields the other key -> error while reading)
    let z = zoo::get(ka);
    let alone = open(&msg, Presented { keys: vec![&z.secret], key_pws: vec![Password::empty()], msg_pws: vec![], session_keys: vec![] }, true, Consumer::ReadToEnd);
    if alone.error.is_some() || alone.released != payload {
        return fail("C18:recipient-cannot-decrypt", format!("key alone on the spliced message: {:?}", alone.error));
    }
    let both = open(&msg, Presented { keys: vec![&z.secret], key_pws: vec![Password::empty()], msg_pws: vec![Password::from("pw-b")], session_keys: vec![] }, false, Consumer::ReadToEnd);
    match &both.error {
        Some(e) if e.contains("decrypt:") => {}
        Some(e) => {
            // an error later than the cross-check means one session key was silently chosen
            return fail("C18:conflicting-secrets-not-reported-by-cross-check", format!("error only at {e}"));
        }
        None => return fail("C18:conflicting-secrets-silently-resolved", format!("abort_early=false: decrypted {} bytes without reporting the conflict", both.released.len())),
    }
    // explicit session key conflicting with a key
    let wrong_sk = match a.enc {
        Enc::V1(c) => PlainSessionKey::V3_4 { sym_alg: c, key: RawSessionKey::from(b.session_key()) },
        _ => PlainSessionKey::V6 { key: RawSessionKey::from(b.session_key()) },
    };
    let both2 = open(&ba, Presented { keys: vec![&z.secret], key_pws: vec![Password::empty()], msg_pws: vec![], session_keys: vec![wrong_sk] }, false, Consumer::ReadToEnd);
    if both2.error.is_none() {
        // rPGP documents that explicit session keys are compared among themselves and ESK results among
        // themselves; a clean decrypt with the PKESK key is acceptable, wrong plaintext is not
        crate::ensure_prop!(both2.released == payload, "C18:conflicting-secrets-yield-wrong-plaintext", "explicit session key vs PKESK");
        rec.label("conflict:explicit-session-key-vs-pkesk-not-cross-checked");
    }
    // conflicts among secrets of the same kind, in every order
    let right_sk = a.plain_session_key().ok_or_else(|| f("C18:harness", "no session key"))?;
    let wrong_sk2 = match a.enc {
        Enc::V1(c) => PlainSessionKey::V3_4 { sym_alg: c, key: RawSessionKey::from(b.session_key()) },
        _ => PlainSessionKey::V6 { key: RawSessionKey::from(b.session_key()) },
    };
    for (name, sks) in [("[right, wrong]", vec![right_sk.clone(), wrong_sk2.clone()]), ("[wrong, right]", vec![wrong_sk2.clone(), right_sk.clone()]), ("[right, right, wrong]", vec![right_sk.clone(), right_sk.clone(), wrong_sk2.clone()])] {
        let r = open(&ba, Presented { keys: vec![], key_pws: vec![], msg_pws: vec![], session_keys: sks }, false, Consumer::ReadToEnd);
        match &r.error {
            Some(e) if e.contains("decrypt:") => {}
            Some(e) => return fail("C18:conflicting-secrets-not-reported-by-cross-check", format!("explicit session keys {name}: error only at {e}")),
            None => return fail("C18:conflicting-secrets-silently-resolved", format!("explicit session keys {name} with abort_early=false: decrypted {} bytes without reporting the conflict", r.released.len())),
        }
    }
    // two PKESK packets (to two different keys) wrapping different session keys, both keys presented
    let kb = if v2 { Kind::Ed25519V6B } else { Kind::Ed25519V4B };
    let mut b2 = mk(sb, kb, b"pw-b");
    b2.passwords = vec![];
    let bb2 = b2.build(&payload).map_err(|e| f("C18:builder-error", e.to_string()))?;
    let pb2 = wire::split_packets(&bb2).map_err(|e| f("C18:deframe", e))?;
    if let Some(pkesk_b) = pb2.iter().find(|p| p.tag == 1) {
        let zb = zoo::get(kb);
        for (name, msg2, keys) in [
            ("PKESK(A) PKESK(B)", [raw(&ba, pkesk_a), raw(&bb2, pkesk_b), raw(&ba, seipd_a)].concat(), vec![&z.secret, &zb.secret]),
            ("PKESK(B) PKESK(A)", [raw(&bb2, pkesk_b), raw(&ba, pkesk_a), raw(&ba, seipd_a)].concat(), vec![&zb.secret, &z.secret]),
        ] {
            let r = open(&msg2, Presented { keys, key_pws: vec![Password::empty()], msg_pws: vec![], session_keys: vec![] }, false, Consumer::ReadToEnd);
            match &r.error {
                Some(e) if e.contains("decrypt:") => {}
                Some(e) => return fail("C18:conflicting-secrets-not-reported-by-cross-check", format!("{name}: error only at {e}")),
                None => return fail("C18:conflicting-secrets-silently-resolved", format!("{name} wrapping different session keys, both keys presented with abort_early=false: decrypted {} bytes", r.released.len())),
            }
        }
    }
    // two integrity-protected SKESK packets wrapping different session keys, both passwords presented
    if v2 {
        let skesk_a = pa.iter().find(|p| p.tag == 3).unwrap();
        for (name, msg3, pws) in [
            ("SKESK(A) SKESK(B)", [raw(&ba, skesk_a), raw(&bb, skesk_b), raw(&ba, seipd_a)].concat(), vec![Password::from("pw-a"), Password::from("pw-b")]),
            ("SKESK(B) SKESK(A)", [raw(&bb, skesk_b), raw(&ba, skesk_a), raw(&ba, seipd_a)].concat(), vec![Password::from("pw-b"), Password::from("pw-a")]),
        ] {
            let r = open(&msg3, Presented { keys: vec![], key_pws: vec![], msg_pws: pws, session_keys: vec![] }, false, Consumer::ReadToEnd);
            match &r.error {
                Some(e) if e.contains("decrypt:") => {}
                Some(e) => return fail("C18:conflicting-secrets-not-reported-by-cross-check", format!("{name}: error only at {e}")),
                None => return fail("C18:conflicting-secrets-silently-resolved", format!("{name} wrapping different session keys, both passwords presented with abort_early=false: decrypted {} bytes", r.released.len())),
            }
        }
    }
    // consistent case: RingResult marks the used secrets Ok
    let ok = open(&ba, Presented { keys: vec![&z.secret], key_pws: vec![Password::empty()], msg_pws: vec![Password::from("pw-a")], session_keys: vec![] }, false, Consumer::ReadToEnd);
    if ok.error.is_some() || ok.released != payload {
        return fail("C18:consistent-secrets-rejected", format!("{:?}", ok.error));
    }
    if let Some(rr) = ok.ring {
        crate::ensure_prop!(rr.secret_keys.first() == Some(&InnerRingResult::Ok) && rr.message_password.first() == Some(&InnerRingResult::Ok), "C18:ring-result-does-not-mark-used-secrets", "{:?} {:?}", rr.secret_keys, rr.message_password);
    }
    let _ = rc::sym_key_size(7);
    Ok(())
}


/// many messages to RSA recipients: the wrapped session key is an MPI whose length depends on the
/// value (about one in 256 is an octet shorter than the modulus); each must decrypt with the key,
/// through the ring and through Message::decrypt
fn rsa_many_case(t: &mut Tape, rec: &mut Rec) -> CaseResult {
    let idx = t.u64();
    let v6 = idx & 1 == 1;
    let kind = if v6 { Kind::RsaV6 } else { Kind::RsaV4 };
    let mut cfg = MsgConfig::plain();
    let mut seed = [0u8; 32];
    seed[..8].copy_from_slice(&idx.to_le_bytes());
    seed[8] = 0xC1;
    cfg.seed = seed;
    cfg.enc = if v6 { Enc::V2(SymmetricKeyAlgorithm::AES128, pgp::crypto::aead::AeadAlgorithm::Ocb, 0) } else { Enc::V1(SymmetricKeyAlgorithm::AES128) };
    cfg.recipients = vec![(kind, idx & 2 == 2)];
    let payload = expand(idx, 40);
    let bytes = cfg.build(&payload).map_err(|e| f("C18:builder-error", e.to_string()))?;
    // length of the RSA ciphertext MPI in the PKESK
    let short = wire::split_packets(&bytes).ok().and_then(|ps| ps.iter().find(|p| p.tag == 1).and_then(|p| crate::refimpl::pkesk::parse_pkesk(&p.body))).and_then(|b| b.fields.get(..2).map(|l| (u16::from_be_bytes([l[0], l[1]]) as usize).div_ceil(8) < 256));
    rec.label(format!("rsa-many:{kind:?}"));
    if short == Some(true) {
        rec.label("rsa-many:ciphertext-mpi-shorter-than-the-modulus");
    }
    rec.nontrivial(idx);
    rec.describe(|| format!("message #{idx} to {kind:?} (anonymous: {}), RSA ciphertext shorter than the modulus: {short:?}", idx & 2 == 2));
    let z = zoo::get(kind);
    let o = open(&bytes, Presented { keys: vec![&z.secret], key_pws: vec![Password::empty()], msg_pws: vec![], session_keys: vec![] }, idx & 4 == 4, Consumer::ReadToEnd);
    if o.error.is_some() || o.released != payload {
        return fail("C18:recipient-cannot-decrypt", format!("RSA recipient {kind:?}, message #{idx} (short ciphertext MPI: {short:?}): {:?}", o.error));
    }
    match Message::from_bytes(&bytes[..]).map_err(|e| e.to_string()).and_then(|m| m.decrypt(&Password::empty(), &z.secret).map_err(|e| e.to_string())) {
        Ok(mut m) => {
            let mut out = vec![];
            use std::io::Read;
            if m.read_to_end(&mut out).is_err() || out != payload {
                return fail("C18:recipient-cannot-decrypt", format!("Message::decrypt, RSA recipient {kind:?}, message #{idx}: read"));
            }
        }
        Err(e) => return fail("C18:recipient-cannot-decrypt", format!("Message::decrypt, RSA recipient {kind:?}, message #{idx} (short ciphertext MPI: {short:?}): {e}")),
    }
    Ok(())
}

pub fn run(ctx: &Ctx) {
    ctx.set_rule("messages built by rPGP to 1..4 public-key recipients (all encryption algorithms, PKESK v3 with SEIPDv1 / v6 with SEIPDv2, addressed or anonymous) and 0..3 passwords (S2K kinds); presented secrets: each intended key (locked or unlocked, wrong key passwords first) alone or at every position among 0..3 unrelated keys (same-algorithm decoys preferred), each password alone or (SKESK v6) among unrelated passwords; negatives: only non-recipient keys, only wrong passwords (incl. one bit off), wrong session key, session key of the wrong kind/cipher; cross-check (abort_early=false): spliced messages whose PKESK and SKESK, two PKESKs, or two SKESK v6 wrap different session keys, and explicit session keys [right, wrong] / [wrong, right] / [right, right, wrong]; 1500 (thorough 60000) messages to RSA recipients so that ciphertext MPIs shorter than the modulus occur (counted per run), opened through the ring and through Message::decrypt; oracle: intended secret => exactly the plaintext; wrong material => error and zero bytes released; conflict => error from the cross-check; non-trivial = every case; distinct = (recipient-set shape, presented shape, abort flag)");
    ctx.assume("unrelated passwords alongside the right one are only required to be harmless for SKESK v6 (the statement says integrity-protected password packets)");
    zoo::warm(zoo::ALL);
    let cheap = [Kind::EdLegacyV4, Kind::Ed25519V4, Kind::Ed25519V6, Kind::P256V4];
    let n = ctx.tier.pick(6000u64, 120_000);
    ctx.group("intended-recipients", Source::Random { n, tape_len: 200 }, |t, rec| positive_case(t, rec, &cheap));
    let n = ctx.tier.pick(500u64, 10_000);
    ctx.group("intended-recipients-all-algorithms", Source::Random { n, tape_len: 200 }, |t, rec| positive_case(t, rec, zoo::ALL_RECIPIENTS));
    let n = ctx.tier.pick(4000u64, 80_000);
    ctx.group("non-recipients", Source::Random { n, tape_len: 200 }, |t, rec| negative_case(t, rec, &cheap));
    let n = ctx.tier.pick(600u64, 10_000);
    ctx.group("conflicting-secrets", Source::Random { n, tape_len: 120 }, conflict_case);
    let n = ctx.tier.pick(1500u64, 60_000);
    ctx.group("rsa-recipients-many-messages", Source::Indexed { count: n }, rsa_many_case);
}
