//! C09 — streaming is transparent: results independent of I/O fragmentation and faults.

use std::io::Read;
use std::sync::Arc;

use pgp::armor::{BlockType, Dearmor};
use pgp::composed::{ArmorOptions, CleartextSignedMessage, Deserializable, DetachedSignature, SignedPublicKey, SignedSecretKey};
use pgp::crypto::hash::HashAlgorithm;
use pgp::crypto::sym::SymmetricKeyAlgorithm;
use pgp::ser::Serialize;
use pgp::types::{Password, Seipdv1ReadMode};
use rand::SeedableRng;
use rand_chacha::ChaCha8Rng;

use crate::engine::{expand, fail, CaseResult, Ctx, Rec, Source, Tape, Tier};
use crate::io::{Consumer, Probe, Sched, SchedRead, SchedWrite};
use crate::msg::{self, DrawOpts, Enc, MsgConfig, Opener, SrcKind, AEADS, CIPHERS};
use crate::props::c01::{draw_len, payload_for};
use crate::props::c10::Raw;
use crate::zoo::{self, Kind};

// ---------------------------------------------------------------------------------------------
// builder: output independent of source schedule and sink schedule
// ---------------------------------------------------------------------------------------------

fn build_with(cfg: &MsgConfig, payload: &[u8], src: Sched, sink: Sched) -> Result<Vec<u8>, String> {
    let mut w = SchedWrite::new(sink);
    cfg.build_to(payload, Some(SchedRead::new(payload.to_vec(), src)), &mut w).map_err(|e| e.to_string())?;
    Ok(w.data)
}

fn builder_schedules(t: &mut Tape, rec: &mut Rec, opts: &DrawOpts) -> CaseResult {
    let mut cfg = MsgConfig::draw(t, opts);
    cfg.src = SrcKind::Reader(Sched::whole());
    cfg.fixed_sig_time = true;
    let (len, _) = draw_len(t, &cfg, 40_000);
    let payload = payload_for(t, &cfg, len);
    cfg.labels(rec);
    let r0 = build_with(&cfg, &payload, Sched::whole(), Sched::whole()).map_err(|e| crate::engine::Fail { sig: "C09:builder-error".into(), detail: e })?;
    let r0b = build_with(&cfg, &payload, Sched::whole(), Sched::whole()).map_err(|e| crate::engine::Fail { sig: "C09:builder-error".into(), detail: e })?;
    let deterministic = r0 == r0b;
    rec.label(if deterministic { "builder:deterministic-config" } else { "builder:randomized-config" });
    let src = Sched::draw(t, len, &[cfg.chunk as usize, 512, 1024, 8192]);
    let sink = Sched::draw(t, r0.len(), &[64, 65, 512]);
    rec.nontrivial((len, cfg.shape_key(), src.describe(), sink.describe()));
    rec.describe(|| format!("builder len={len} {} | source {} sink {}", cfg.describe(), src.describe(), sink.describe()));
    let r1 = build_with(&cfg, &payload, src.clone(), sink.clone()).map_err(|e| crate::engine::Fail { sig: "C09:builder-fails-under-schedule".into(), detail: format!("{e}; source {} sink {}", src.describe(), sink.describe()) })?;
    if deterministic {
        if r1 != r0 {
            let fd = r1.iter().zip(r0.iter()).position(|(a, b)| a != b).unwrap_or(r1.len().min(r0.len()));
            return fail("C09:builder-output-depends-on-io-schedule", format!("{} vs {} bytes, first difference at {fd}; source {} sink {}", r1.len(), r0.len(), src.describe(), sink.describe()));
        }
    } else {
        // semantic comparison: both must read back to the payload
        for (name, bytes) in [("reference", &r0), ("scheduled", &r1)] {
            let m = msg::parse(&cfg, &bytes[..]).and_then(|m| msg::decrypt(&cfg, m, &Opener::SessionKey)).and_then(msg::peel);
            match m {
                Ok(mut m) => {
                    let mut out = vec![];
                    if let Err(e) = m.read_to_end(&mut out) {
                        return fail("C09:builder-output-unreadable", format!("{name}: {e}"));
                    }
                    crate::ensure_prop!(out == payload, "C09:builder-output-depends-on-io-schedule", "{name} output reads back to {} bytes, payload {}", out.len(), payload.len());
                }
                Err(e) => return fail("C09:builder-output-unreadable", format!("{name}: {e}")),
            }
        }
    }
    Ok(())
}

// ---------------------------------------------------------------------------------------------
// builder faults (exhaustive over call index for a fixed list of configurations)
// ---------------------------------------------------------------------------------------------

fn fault_configs() -> Vec<(MsgConfig, usize, usize)> {
    let mut v = vec![];
    let encs = [Enc::None, Enc::V1(SymmetricKeyAlgorithm::AES128), Enc::V2(SymmetricKeyAlgorithm::AES128, pgp::crypto::aead::AeadAlgorithm::Ocb, 0), Enc::V2(SymmetricKeyAlgorithm::AES256, pgp::crypto::aead::AeadAlgorithm::Gcm, 4)];
    let mut seed = 40u8;
    for enc in encs {
        for comp in [None, Some(pgp::types::CompressionAlgorithm::ZIP)] {
            for signed in [false, true] {
                for armor in [None, Some(true)] {
                    for (len, piece) in [(3000usize, 700usize), (20_000, 1500), (0, 1)] {
                        let mut c = MsgConfig::plain();
                        c.enc = enc;
                        c.compression = comp;
                        if signed {
                            c.signers = vec![(Kind::Ed25519V4, HashAlgorithm::Sha256)];
                        }
                        c.armor = armor;
                        c.chunk = 512;
                        c.seed = [seed; 32];
                        seed = seed.wrapping_add(1);
                        v.push((c, len, piece));
                    }
                }
            }
        }
    }
    v
}

// ---------------------------------------------------------------------------------------------
// reader side: schedules and source faults
// ---------------------------------------------------------------------------------------------

struct ReadOutcome {
    data: Vec<u8>,
    error: Option<String>,
    stage: &'static str,
    verified: Vec<bool>,
}

fn read_message(cfg: &MsgConfig, src: SchedRead, opener: &Opener, cons: Consumer) -> ReadOutcome {
    let mut out = ReadOutcome { data: vec![], error: None, stage: "parse", verified: vec![] };
    let m = match msg::parse(cfg, src) {
        Ok(m) => m,
        Err(e) => {
            out.error = Some(e.to_string());
            return out;
        }
    };
    out.stage = "decrypt";
    let m = match msg::decrypt(cfg, m, opener) {
        Ok(m) => m,
        Err(e) => {
            out.error = Some(e.to_string());
            return out;
        }
    };
    out.stage = "decompress";
    let mut m = match msg::peel(m) {
        Ok(m) => m,
        Err(e) => {
            out.error = Some(e.to_string());
            return out;
        }
    };
    out.stage = "read";
    let (data, res) = cons.drive(&mut m);
    out.data = data;
    if let Err(e) = res {
        out.error = Some(e.to_string());
        return out;
    }
    out.stage = "verify";
    for (k, _) in &cfg.signers {
        let pk = &zoo::get(*k).public.primary_key;
        out.verified.push((0..cfg.signers.len()).any(|i| m.verify_nested_explicit(i, pk).is_ok()));
    }
    out
}

fn reader_case(t: &mut Tape, rec: &mut Rec, opts: &DrawOpts) -> CaseResult {
    let cfg = MsgConfig::draw(t, opts);
    let (len, _) = draw_len(t, &cfg, 30_000);
    let payload = payload_for(t, &cfg, len);
    let bytes = cfg.build(&payload).map_err(|e| crate::engine::Fail { sig: "C09:builder-error".into(), detail: e.to_string() })?;
    cfg.labels(rec);
    let opener = Opener::draw(t, &cfg);
    // reference run
    let r0 = read_message(&cfg, SchedRead::new(bytes.clone(), Sched::whole()), &opener, Consumer::ReadToEnd);
    if r0.error.is_some() || r0.data != payload || r0.verified.iter().any(|v| !v) {
        let es = r0.error.clone().unwrap_or_default();
        if matches!(opener, Opener::Password(_)) && matches!(cfg.enc, Enc::V1(_)) && cfg.passwords.len() >= 2 && es.contains("inconsistent session keys") {
            rec.discard(); // recorded under C01/C18
            return Ok(());
        }
        return fail("C09:reference-run-failed", format!("{:?} at {} ({} bytes, verified {:?})", r0.error, r0.stage, r0.data.len(), r0.verified));
    }
    // scheduled run
    let sched = Sched::draw(t, bytes.len(), &[512, 1024, 4096, 8192, cfg.chunk as usize]);
    let cons = Consumer::draw(t);
    let probe = Probe::new();
    let r1 = read_message(&cfg, SchedRead::new(bytes.clone(), sched.clone()).with_probe(probe.clone()), &opener, cons);
    let k_total = probe.calls();
    rec.describe(|| format!("reader len={len} {} | msg {} bytes | source {} consumer {cons:?} opener {opener:?} | {k_total} source calls", cfg.describe(), bytes.len(), sched.describe()));
    rec.nontrivial((len, cfg.shape_key(), sched.describe(), format!("{cons:?}")));
    if r1.error.is_some() || r1.data != r0.data || r1.verified != r0.verified {
        return fail("C09:reader-result-depends-on-io-schedule", format!("error {:?} at {}; {} vs {} bytes; verified {:?} vs {:?}; source {} consumer {cons:?}", r1.error, r1.stage, r1.data.len(), r0.data.len(), r1.verified, r0.verified, sched.describe()));
    }
    // BufRead consumer
    {
        let m = msg::parse(&cfg, SchedRead::new(bytes.clone(), sched.clone())).and_then(|m| msg::decrypt(&cfg, m, &opener)).and_then(msg::peel);
        match m {
            Ok(mut m) => {
                let step = t.range(1, 9000);
                let (d, res) = Consumer::drive_bufread(&mut m, step);
                if res.is_err() || d != r0.data {
                    return fail("C09:reader-result-depends-on-io-schedule", format!("BufRead consumer step {step}: {:?}, {} vs {} bytes", res.err().map(|e| e.to_string()), d.len(), r0.data.len()));
                }
            }
            Err(e) => return fail("C09:reader-result-depends-on-io-schedule", format!("BufRead run: {e}")),
        }
    }
    // one source fault
    if k_total > 0 {
        let k = t.below(k_total as usize) as u64;
        rec.label("fault:reader-source");
        let probe = Probe::new();
        let one_shot = t.bool();
        rec.label(if one_shot { "fault:transient" } else { "fault:sticky" });
        let r2 = read_message(&cfg, SchedRead::new(bytes.clone(), sched.clone()).failing_at(k).one_shot(one_shot).with_probe(probe.clone()), &opener, cons);
        rec.add_evals(1);
        if probe.failed() {
            rec.nontrivial(("fault", cfg.shape_key(), len, k));
            match &r2.error {
                None => {
                    let sig = if r2.data.len() < r0.data.len() { "C09:reader-source-error-became-clean-shorter-result" } else { "C09:reader-source-error-swallowed" };
                    return fail(sig, format!("source failed at call {k} of {k_total}, yet the message read to a clean end with {} of {} bytes; source {} consumer {cons:?}", r2.data.len(), r0.data.len(), sched.describe()));
                }
                Some(_) => {
                    if !r0.data.starts_with(&r2.data) {
                        return fail("C09:reader-bytes-before-error-not-a-prefix", format!("fault at call {k}: {} bytes released", r2.data.len()));
                    }
                }
            }
        }
    }
    Ok(())
}

// ---------------------------------------------------------------------------------------------
// dearmor / keys / signatures / cleartext: schedules and faults
// ---------------------------------------------------------------------------------------------

fn artifact_case(t: &mut Tape, rec: &mut Rec) -> CaseResult {
    let kind = *t.pick(&[Kind::Ed25519V4, Kind::Ed25519V6, Kind::P256V4, Kind::EdLegacyV4]);
    let z = zoo::get(kind);
    let which = t.below(7);
    let armor_opts = ArmorOptions { headers: None, include_checksum: t.bool() };
    match which {
        0 | 1 => {
            // public / secret key, binary and armored
            let (bin, arm) = if which == 0 {
                (z.public.to_bytes().unwrap(), z.public.to_armored_bytes(armor_opts).unwrap())
            } else {
                (z.secret.to_bytes().unwrap(), z.secret.to_armored_bytes(armor_opts).unwrap())
            };
            let armored = t.bool();
            let data = if armored { arm } else { bin };
            let sched = Sched::draw(t, data.len(), &[64, 65, 512]);
            rec.label(format!("artifact:{}-{}", if which == 0 { "public-key" } else { "secret-key" }, if armored { "armored" } else { "binary" }));
            rec.nontrivial((which, armored, format!("{kind:?}"), sched.describe()));
            rec.describe(|| format!("{} key {kind:?} {} ({} bytes) under source {}", if which == 0 { "public" } else { "secret" }, if armored { "armored" } else { "binary" }, data.len(), sched.describe()));
            let probe = Probe::new();
            let parse = |src: SchedRead| -> Result<bool, String> {
                if which == 0 {
                    let k = if armored { SignedPublicKey::from_armor_single(src).map(|x| x.0) } else { SignedPublicKey::from_bytes(src) };
                    k.map(|k| k == z.public).map_err(|e| e.to_string())
                } else {
                    let k = if armored { SignedSecretKey::from_armor_single(src).map(|x| x.0) } else { SignedSecretKey::from_bytes(src) };
                    k.map(|k| k == z.secret).map_err(|e| e.to_string())
                }
            };
            match parse(SchedRead::new(data.clone(), sched.clone()).with_probe(probe.clone())) {
                Ok(true) => {}
                Ok(false) => return fail("C09:key-parse-result-depends-on-io-schedule", format!("parsed key differs; source {}", sched.describe())),
                Err(e) => return fail("C09:key-parse-result-depends-on-io-schedule", format!("{e}; source {}", sched.describe())),
            }
            let kt = probe.calls();
            if kt > 0 {
                let k = t.below(kt as usize) as u64;
                let probe = Probe::new();
                let r = parse(SchedRead::new(data.clone(), sched.clone()).failing_at(k).one_shot(t.bool()).with_probe(probe.clone()));
                rec.add_evals(1);
                if probe.failed() && r.is_ok() {
                    return fail("C09:key-parse-source-error-swallowed", format!("source failed at call {k} of {kt}; source {}", sched.describe()));
                }
            }
        }
        2 | 3 => {
            // dearmor of arbitrary data with fault
            let len = t.range(0, 3000);
            let payload = expand(t.u64(), len);
            let mut text = vec![];
            pgp::armor::write(&Raw(payload.clone()), BlockType::File, &mut text, None, t.bool()).unwrap();
            let sched = Sched::draw(t, text.len(), &[64, 65, 130]);
            let probe = Probe::new();
            let mut d = Dearmor::new(SchedRead::new(text.clone(), sched.clone()).with_probe(probe.clone()));
            let cons = Consumer::draw(t);
            let (out, res) = cons.drive(&mut d);
            rec.label("artifact:dearmor");
            rec.nontrivial(("dearmor", len, sched.describe()));
            rec.describe(|| format!("dearmor of {len} bytes under source {} consumer {cons:?}", sched.describe()));
            if res.is_err() || out != payload {
                return fail("C09:dearmor-result-depends-on-io-schedule", format!("{:?}; {} of {} bytes; source {} consumer {cons:?}", res.err().map(|e| e.to_string()), out.len(), len, sched.describe()));
            }
            let kt = probe.calls();
            if kt > 0 {
                let k = t.below(kt as usize) as u64;
                let probe = Probe::new();
                let mut d = Dearmor::new(SchedRead::new(text.clone(), sched.clone()).failing_at(k).one_shot(t.bool()).with_probe(probe.clone()));
                let (out2, res2) = cons.drive(&mut d);
                rec.add_evals(1);
                if probe.failed() {
                    if res2.is_ok() {
                        let sig = if out2.len() < payload.len() { "C09:dearmor-source-error-became-clean-shorter-result" } else { "C09:dearmor-source-error-swallowed" };
                        return fail(sig, format!("source failed at call {k} of {kt}: clean end with {} of {} bytes; source {} consumer {cons:?}", out2.len(), len, sched.describe()));
                    }
                    crate::ensure_prop!(payload.starts_with(&out2), "C09:dearmor-bytes-before-error-not-a-prefix", "fault at {k}");
                }
            }
        }
        4 => {
            // detached signing / verifying over a failing data reader
            let len = t.range(1, 20_000);
            let payload = expand(t.u64(), len);
            let sched = Sched::draw(t, len, &[512, 1024, 8192]);
            let text = t.bool();
            rec.label("artifact:detached-sign-verify");
            rec.nontrivial(("detached", len, text, sched.describe()));
            rec.describe(|| format!("detached {} signature over {len} bytes under source {}", if text { "text" } else { "binary" }, sched.describe()));
            let sign = |src: SchedRead| {
                let rng = ChaCha8Rng::seed_from_u64(5);
                if text {
                    DetachedSignature::sign_text_data(rng, &z.secret.primary_key, &Password::empty(), kind.hashes()[0], src)
                } else {
                    DetachedSignature::sign_binary_data(rng, &z.secret.primary_key, &Password::empty(), kind.hashes()[0], src)
                }
            };
            let probe = Probe::new();
            let sig = sign(SchedRead::new(payload.clone(), sched.clone()).with_probe(probe.clone())).map_err(|e| crate::engine::Fail { sig: "C09:sign-error".into(), detail: e.to_string() })?;
            if let Err(e) = sig.verify(&z.public.primary_key, &payload) {
                return fail("C09:signature-depends-on-io-schedule", format!("signature made under source {} does not verify: {e}", sched.describe()));
            }
            let kt = probe.calls();
            let k = t.below(kt.max(1) as usize) as u64;
            let probe = Probe::new();
            let r = sign(SchedRead::new(payload.clone(), sched.clone()).failing_at(k).one_shot(t.bool()).with_probe(probe.clone()));
            rec.add_evals(1);
            if probe.failed() && r.is_ok() {
                return fail("C09:sign-source-error-swallowed", format!("data source failed at call {k} of {kt} but a signature was produced; source {}", sched.describe()));
            }
            // verify with failing data source
            let probe = Probe::new();
            let r = sig.signature.verify(&z.public.primary_key, SchedRead::new(payload.clone(), sched.clone()).failing_at(k).one_shot(t.bool()).with_probe(probe.clone()));
            rec.add_evals(1);
            if probe.failed() && r.is_ok() {
                return fail("C09:verify-source-error-swallowed", format!("data source failed at call {k} of {kt} but verification succeeded; source {}", sched.describe()));
            }
        }
        5 => {
            // cleartext message parse under schedule
            let n = t.range(0, 12);
            let mut text = String::new();
            for _ in 0..n {
                text.push_str(*t.pick(&["hello", "- dash", "-----BEGIN PGP SIGNATURE-----", "", "tab\t", "é€"]));
                text.push_str(*t.pick(&["\n", "\r\n"]));
            }
            let m = CleartextSignedMessage::sign(ChaCha8Rng::seed_from_u64(9), &text, &z.secret.primary_key, &Password::empty()).map_err(|e| crate::engine::Fail { sig: "C09:cleartext-sign-error".into(), detail: e.to_string() })?;
            let arm = m.to_armored_bytes(ArmorOptions::default()).unwrap();
            let sched = Sched::draw(t, arm.len(), &[64, 35]);
            rec.label("artifact:cleartext");
            rec.nontrivial(("cleartext", text.clone(), sched.describe()));
            rec.describe(|| format!("cleartext message ({} bytes armored) under source {}", arm.len(), sched.describe()));
            let probe = Probe::new();
            match CleartextSignedMessage::from_armor_buf(SchedRead::new(arm.clone(), sched.clone()).with_probe(probe.clone()), Default::default()) {
                Ok((m2, _)) => {
                    crate::ensure_prop!(m2 == m, "C09:cleartext-parse-depends-on-io-schedule", "parsed message differs; source {}", sched.describe());
                }
                Err(e) => return fail("C09:cleartext-parse-depends-on-io-schedule", format!("{e}; source {}", sched.describe())),
            }
            let kt = probe.calls();
            if kt > 0 {
                let k = t.below(kt as usize) as u64;
                let probe = Probe::new();
                let r = CleartextSignedMessage::from_armor_buf(SchedRead::new(arm.clone(), sched.clone()).failing_at(k).one_shot(t.bool()).with_probe(probe.clone()), Default::default());
                rec.add_evals(1);
                if probe.failed() && r.is_ok() {
                    return fail("C09:cleartext-source-error-swallowed", format!("source failed at call {k} of {kt}; source {}", sched.describe()));
                }
            }
        }
        _ => {
            // CFB stream encryptor as a Read: consumer schedule independence (+ round trip through the stream decryptor)
            let alg = *t.pick(&CIPHERS);
            let len = match t.below(4) {
                0 => 0,
                1 => t.range(1, 40),
                2 => 8192 * t.range(1, 2) + t.range(0, 2) - 1,
                _ => t.range(0, 20_000),
            };
            let payload = expand(t.u64(), len);
            let key = expand(t.u64(), alg.key_size());
            let enc = |cons: Consumer, src: Sched| -> Result<Vec<u8>, String> {
                let mut e = alg.stream_encryptor(ChaCha8Rng::seed_from_u64(3), &key, SchedRead::new(payload.clone(), src)).map_err(|e| e.to_string())?;
                let (d, r) = cons.drive(&mut e);
                r.map_err(|e| e.to_string())?;
                Ok(d)
            };
            let r0 = enc(Consumer::ReadToEnd, Sched::whole()).map_err(|e| crate::engine::Fail { sig: "C09:stream-encryptor-error".into(), detail: e })?;
            let cons = Consumer::draw(t);
            let src = Sched::draw(t, len, &[8192]);
            rec.label("artifact:cfb-stream-encryptor");
            rec.label(if len == 0 { "cfb-stream:empty" } else { "cfb-stream:nonempty" });
            rec.nontrivial(("cfb", format!("{alg:?}"), len, format!("{cons:?}"), src.describe()));
            rec.describe(|| format!("{alg:?} stream_encryptor over {len} bytes, consumer {cons:?}, source {}", src.describe()));
            let r1 = enc(cons, src.clone()).map_err(|e| crate::engine::Fail { sig: "C09:stream-encryptor-error".into(), detail: e })?;
            if r1 != r0 {
                let sig = if len == 0 { "C09:cfb-stream-encryptor-empty-source-truncated-by-read" } else { "C09:cfb-stream-encryptor-output-depends-on-consumer" };
                return fail(sig, format!("{} bytes with consumer {cons:?} / source {}, {} bytes with read_to_end", r1.len(), src.describe(), r0.len()));
            }
            // decrypt back
            let mut d = alg.stream_decryptor_protected(Seipdv1ReadMode::default(), &key, &r0[..]).map_err(|e| crate::engine::Fail { sig: "C09:stream-decryptor-error".into(), detail: e.to_string() })?;
            let cons2 = Consumer::draw(t);
            let (pt, res) = cons2.drive(&mut d);
            if res.is_err() || pt != payload {
                return fail("C09:cfb-stream-roundtrip", format!("{:?}, {} of {} bytes, consumer {cons2:?}", res.err().map(|e| e.to_string()), pt.len(), len));
            }
        }
    }
    Ok(())
}

pub fn run(ctx: &Ctx) {
    ctx.set_rule("metamorphic: reference run = whole-buffer source + read_to_end / Vec sink; compared runs use generated source schedules (1-byte, fixed, boundary-straddling, random), consumer patterns (read_to_end, fixed, alternating, exact+end, fill_buf/consume) and short-writing sinks; faults: one sticky I/O error at call k of the source or sink (exhaustive over k for the listed builder configurations and armored writers, sampled elsewhere); APIs: message builder, message reader (parse/decrypt/decompress/read/verify), Dearmor, key import (binary/armored), detached sign/verify data readers, cleartext parser, CFB stream encryptor/decryptor; non-trivial = non-trivial schedule or an injected fault that was actually reached; distinct = (API, input class, schedules, fault index)");
    ctx.assume("a fault counts only if the library actually made the failing call (observed through a shared probe)");
    ctx.assume("byte-identical builder output is required only for configurations whose two reference runs are byte-identical (control); otherwise outputs are compared by reading them back");
    *ctx.level.lock().unwrap() = "exploration";
    let thorough = ctx.tier == Tier::Thorough;
    zoo::warm(zoo::CHEAP_SIGNERS);
    let cheap = DrawOpts { signers: zoo::CHEAP_SIGNERS, recipients: zoo::CHEAP_RECIPIENTS, max_chunk_exp: 12, allow_file: false, allow_big_aead_chunks: false };
    let n = ctx.tier.pick(4000u64, 80_000);
    ctx.group("builder-io-schedules", Source::Random { n, tape_len: 300 }, |t, rec| builder_schedules(t, rec, &cheap));
    ctx.group("reader-io-schedules-and-source-faults", Source::Random { n, tape_len: 300 }, |t, rec| reader_case(t, rec, &cheap));
    let n = ctx.tier.pick(6000u64, 120_000);
    ctx.group("dearmor-keys-signatures-cleartext-cfb", Source::Random { n, tape_len: 200 }, artifact_case);

    // exhaustive builder faults
    let cfgs = fault_configs();
    let cfgs: Vec<_> = if thorough { cfgs } else { cfgs.into_iter().enumerate().filter(|(i, _)| i % 2 == (ctx.seed % 2) as usize).map(|x| x.1).collect() };
    // measure call counts of the fault-free runs
    let mut src_pts: Vec<(usize, u64)> = vec![];
    let mut sink_pts: Vec<(usize, u64)> = vec![];
    for (i, (c, len, piece)) in cfgs.iter().enumerate() {
        let payload = expand(*len as u64 + 17, *len);
        let probe = Probe::new();
        let mut w = SchedWrite::new(Sched::whole());
        let wp = Probe::new();
        w.probe = Some(wp.clone());
        c.build_to(&payload, Some(SchedRead::new(payload.clone(), Sched::fixed(*piece)).with_probe(probe.clone())), &mut w).expect("fault-free build");
        for k in 0..probe.calls() {
            src_pts.push((i, k));
        }
        for k in 0..wp.calls() {
            sink_pts.push((i, k));
        }
    }
    ctx.note("fault_points_total", serde_json::json!(src_pts.len() + sink_pts.len()));
    ctx.note("fault_points_exhaustive", serde_json::json!(format!("every source call index and every sink write index of {} builder configurations (enc none/SEIPDv1/SEIPDv2 x compression x signed x armored x 3 payload sizes){}", cfgs.len(), if thorough { "" } else { " [quick: every second configuration, parity = seed]" })));
    ctx.group("builder-source-faults-exhaustive", Source::Indexed { count: 2 * src_pts.len() as u64 }, |t, rec| {
        let idx = t.u64();
        let one_shot = idx & 1 == 1;
        let (i, k) = src_pts[(idx >> 1) as usize];
        let (c, len, piece) = &cfgs[i];
        let payload = expand(*len as u64 + 17, *len);
        let probe = Probe::new();
        let mut w = SchedWrite::new(Sched::whole());
        let r = c.build_to(&payload, Some(SchedRead::new(payload.clone(), Sched::fixed(*piece)).failing_at(k).one_shot(one_shot).with_probe(probe.clone())), &mut w);
        rec.describe(|| format!("builder {} len={len}: source (pieces of {piece}) fails at call {k} ({})", c.describe(), if one_shot { "transient" } else { "sticky" }));
        if probe.failed() {
            rec.nontrivial((i, k, one_shot));
            if r.is_ok() {
                // how much made it?
                return fail("C09:builder-source-error-became-clean-result", format!("source failed at call {k} (pieces of {piece}, payload {len}) but the builder returned Ok with {} bytes of output; {}", w.data.len(), c.describe()));
            }
        }
        Ok(())
    });
    ctx.group("builder-sink-faults-exhaustive", Source::Indexed { count: 2 * sink_pts.len() as u64 }, |t, rec| {
        let idx = t.u64();
        let one_shot = idx & 1 == 1;
        let (i, k) = sink_pts[(idx >> 1) as usize];
        let (c, len, piece) = &cfgs[i];
        let payload = expand(*len as u64 + 17, *len);
        let wp = Probe::new();
        let mut w = SchedWrite::new(Sched::whole()).failing_at(k).one_shot(one_shot).with_probe(wp.clone());
        let r = c.build_to(&payload, Some(SchedRead::new(payload.clone(), Sched::fixed(*piece))), &mut w);
        rec.describe(|| format!("builder {} len={len}: sink fails at write call {k} ({})", c.describe(), if one_shot { "transient" } else { "sticky" }));
        if wp.failed() {
            rec.nontrivial((i, k, one_shot));
            if r.is_ok() {
                let sig = if c.armor.is_some() { "C09:armored-builder-sink-error-reported-as-success" } else { "C09:builder-sink-error-reported-as-success" };
                return fail(sig, format!("sink failed at write call {k} but the builder returned Ok ({} bytes reached the sink); {}", w.data.len(), c.describe()));
            }
        }
        Ok(())
    });
    // armored writers of keys / signatures / cleartext: every sink write index
    let kinds = [Kind::Ed25519V4, Kind::Ed25519V6, Kind::P256V4];
    #[derive(Clone, Copy, Debug)]
    enum W {
        Pub(Kind),
        Sec(Kind),
        Det(Kind),
        Csf(Kind),
        Raw(usize),
    }
    let write_art = |w: W, out: &mut SchedWrite| -> pgp::errors::Result<()> {
        let ao = ArmorOptions::default();
        match w {
            W::Pub(k) => zoo::get(k).public.to_armored_writer(out, ao),
            W::Sec(k) => zoo::get(k).secret.to_armored_writer(out, ao),
            W::Det(k) => {
                let z = zoo::get(k);
                let d = DetachedSignature::sign_binary_data(ChaCha8Rng::seed_from_u64(1), &z.secret.primary_key, &Password::empty(), k.hashes()[0], &b"data"[..])?;
                d.to_armored_writer(out, ao)
            }
            W::Csf(k) => {
                let z = zoo::get(k);
                let m = CleartextSignedMessage::sign(ChaCha8Rng::seed_from_u64(1), "hello\n- world\n", &z.secret.primary_key, &Password::empty())?;
                m.to_armored_writer(out, ao)
            }
            W::Raw(n) => pgp::armor::write(&Raw(expand(n as u64, n)), BlockType::File, out, None, true),
        }
    };
    let mut arts: Vec<W> = vec![];
    for k in kinds {
        arts.extend([W::Pub(k), W::Sec(k), W::Det(k), W::Csf(k)]);
    }
    for n in [0usize, 1, 2, 3, 47, 48, 49, 100] {
        arts.push(W::Raw(n));
    }
    let mut pts: Vec<(usize, u64)> = vec![];
    for (i, a) in arts.iter().enumerate() {
        let p = Probe::new();
        let mut w = SchedWrite::new(Sched::whole()).with_probe(p.clone());
        write_art(*a, &mut w).expect("fault-free armored write");
        for k in 0..p.calls() {
            pts.push((i, k));
        }
    }
    let _ = Arc::new(0);
    ctx.group("armored-writer-sink-faults-exhaustive", Source::Indexed { count: 2 * pts.len() as u64 }, |t, rec| {
        let idx = t.u64();
        let one_shot = idx & 1 == 1;
        let (i, k) = pts[(idx >> 1) as usize];
        let p = Probe::new();
        let mut w = SchedWrite::new(Sched::whole()).failing_at(k).one_shot(one_shot).with_probe(p.clone());
        let r = write_art(arts[i], &mut w);
        rec.describe(|| format!("armored writer {:?}: sink fails at write call {k} ({})", arts[i], if one_shot { "transient" } else { "sticky" }));
        if p.failed() {
            rec.nontrivial((i, k, one_shot));
            if r.is_ok() {
                return fail("C09:armor-writer-sink-error-reported-as-success", format!("{:?}: sink failed at write call {k} but to_armored_writer returned Ok ({} bytes reached the sink)", arts[i], w.data.len()));
            }
        }
        Ok(())
    });
    let _ = AEADS;
}
