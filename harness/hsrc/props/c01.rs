//! C01 — message round trip: what the builder emits, the reader returns unchanged.

use std::io::Read;

use pgp::types::CompressionAlgorithm;

use crate::engine::{expand, fail, CaseResult, Ctx, Rec, Source, Tape, Tier};
use crate::io::{Consumer, Sched, SchedRead};
use crate::msg::{self, DrawOpts, Enc, MsgConfig, Opener, SrcKind};
use crate::refimpl::wire::{self, RawPacket};
use crate::zoo;

pub fn draw_len(t: &mut Tape, cfg: &MsgConfig, max_random: usize) -> (usize, &'static str) {
    match t.below(8) {
        0 => (t.below(3), "len:0..2"),
        1..=4 => {
            let mut bases = vec![512usize, 1024, 8192, cfg.chunk as usize];
            if let Enc::V2(_, _, cs) = cfg.enc {
                let c = 1usize << (cs as usize + 6);
                bases.push(c);
                bases.push(c);
                bases.push(2 * (c + 16));
            }
            let c = *t.pick(&bases);
            let k = t.range(1, 3);
            let d = t.range(0, 40) as isize - 37;
            if c * k > max_random.max(70_000) * 2 {
                (t.below(max_random + 1), "len:random")
            } else {
                (((c * k) as isize + d).max(0) as usize, "len:boundary")
            }
        }
        5 => (t.below(3000), "len:small-random"),
        _ => (t.below(max_random + 1), "len:random"),
    }
}

pub fn payload_for(t: &mut Tape, cfg: &MsgConfig, len: usize) -> Vec<u8> {
    let seed = t.u64();
    if cfg.utf8 {
        msg::utf8_payload(seed, len)
    } else {
        match t.below(6) {
            0 => vec![0u8; len],
            1 => {
                // text-like with CR/LF (exercises text-mode signatures)
                let mut v = expand(seed, len);
                for b in v.iter_mut() {
                    *b = match *b % 16 {
                        0 => b'\n',
                        1 => b'\r',
                        x => b'a' + x,
                    };
                }
                v
            }
            _ => expand(seed, len),
        }
    }
}

/// independent de-framing of an unencrypted binary message: returns the literal payload
fn independent_open(bytes: &[u8], n_signers: usize) -> Result<(u8, Vec<u8>, u32, Vec<u8>), String> {
    let pkts = wire::split_packets(bytes)?;
    for p in &pkts {
        wire::framing_is_legal(p)?;
    }
    let inner: Vec<RawPacket> = if pkts.len() == 1 && pkts[0].tag == 8 {
        let body = &pkts[0].body;
        let alg = *body.first().ok_or("empty compressed packet")?;
        let mut out = Vec::new();
        match alg {
            0 => out.extend_from_slice(&body[1..]),
            1 => {
                flate2::read::DeflateDecoder::new(&body[1..]).read_to_end(&mut out).map_err(|e| format!("inflate: {e}"))?;
            }
            2 => {
                flate2::read::ZlibDecoder::new(&body[1..]).read_to_end(&mut out).map_err(|e| format!("zlib: {e}"))?;
            }
            3 => {
                bzip2::read::BzDecoder::new(&body[1..]).read_to_end(&mut out).map_err(|e| format!("bzip2: {e}"))?;
            }
            a => return Err(format!("unknown compression {a}")),
        }
        let inner = wire::split_packets(&out)?;
        for p in &inner {
            wire::framing_is_legal(p)?;
        }
        inner
    } else {
        pkts
    };
    let tags: Vec<u8> = inner.iter().map(|p| p.tag).collect();
    let mut want = vec![4u8; n_signers];
    want.push(11);
    want.extend(std::iter::repeat(2u8).take(n_signers));
    if tags != want {
        return Err(format!("packet sequence {tags:?}, expected {want:?}"));
    }
    let lit = &inner[n_signers];
    wire::parse_literal(&lit.body).ok_or_else(|| "literal packet too short".to_string())
}

/// outer structure of an encrypted binary message
fn independent_outer(bytes: &[u8], cfg: &MsgConfig) -> Result<(), String> {
    let pkts = wire::split_packets(bytes)?;
    for p in &pkts {
        wire::framing_is_legal(p)?;
    }
    let tags: Vec<u8> = pkts.iter().map(|p| p.tag).collect();
    let mut want = vec![3u8; cfg.passwords.len()];
    want.extend(std::iter::repeat(1u8).take(cfg.recipients.len()));
    want.push(18);
    if tags != want {
        return Err(format!("packet sequence {tags:?}, expected {want:?}"));
    }
    let seipd = pkts.last().unwrap();
    match cfg.enc {
        Enc::V1(_) => {
            if seipd.body.first() != Some(&1) {
                return Err("SEIPD version octet is not 1".into());
            }
        }
        Enc::V2(c, a, cs) => {
            let want = [2u8, u8::from(c), u8::from(a), cs];
            if seipd.body.len() < 36 || seipd.body[..4] != want {
                return Err(format!("SEIPDv2 header {:?}, expected {:?}", &seipd.body[..4.min(seipd.body.len())], want));
            }
        }
        Enc::None => {}
    }
    Ok(())
}

pub fn roundtrip(t: &mut Tape, rec: &mut Rec, cfg: &MsgConfig, payload: &[u8]) -> CaseResult {
    let bytes = match cfg.build(payload) {
        Ok(b) => b,
        Err(e) => return fail("C01:builder-error", format!("{e}")),
    };
    // (4)/(5) independent validity of the emitted stream
    if cfg.armor.is_none() {
        if cfg.enc == Enc::None {
            match independent_open(&bytes, cfg.signers.len()) {
                Ok((mode, name, date, data)) => {
                    rec.check(data == payload, "C01:independent-deframe-payload-differs", || format!("independent de-framing/decompression gives {} bytes, payload has {}", data.len(), payload.len()));
                    rec.check(mode == if cfg.utf8 { b'u' } else { b'b' }, "C01:literal-mode-octet", || format!("mode octet {mode:#x}"));
                    rec.check(name.is_empty() && date == 0, "C01:literal-metadata", || format!("name {name:?} date {date}"));
                }
                Err(e) => rec.soft_fail("C01:emitted-stream-invalid", e),
            }
        } else if let Err(e) = independent_outer(&bytes, cfg) {
            rec.soft_fail("C01:emitted-stream-invalid", e);
        }
    }
    // (2) library's own reader
    let src_sched = Sched::draw(t, bytes.len(), &[512, 1024, 4096, 8192]);
    let opener = Opener::draw(t, cfg);
    let cons = Consumer::draw(t);
    let ctxs = || format!("source {} opener {opener:?} consumer {cons:?}", src_sched.describe());
    let parsed = msg::parse(cfg, SchedRead::new(bytes.clone(), src_sched.clone()));
    let m = match parsed {
        Ok(m) => m,
        Err(e) => return fail("C01:reader-rejects-own-message", format!("parse: {e}; {}", ctxs())),
    };
    crate::ensure_prop!(m.is_encrypted() == (cfg.enc != Enc::None), "C01:structure", "is_encrypted() = {}", m.is_encrypted());
    let m = match msg::decrypt(cfg, m, &opener) {
        Ok(m) => m,
        Err(e) => {
            let es = e.to_string();
            // SKESK v4 has no integrity: the right password tried on the *other* v4 SKESKs of the
            // message yields a plausible-looking bogus session key with probability ~1%, and rPGP
            // then reports a conflict instead of decrypting (recorded finding, exact class only)
            if matches!(opener, Opener::Password(_)) && matches!(cfg.enc, Enc::V1(_)) && cfg.passwords.len() >= 2 && es.contains("inconsistent session keys") {
                return fail("C01:seipdv1-multi-password-right-password-rejected-as-inconsistent", format!("{es}; {}", ctxs()));
            }
            return fail("C01:decrypt-fails", format!("{es}; {}", ctxs()));
        }
    };
    if let Some(c) = cfg.compression {
        let _ = c;
        crate::ensure_prop!(m.is_compressed(), "C01:structure", "compressed layer missing");
    }
    let mut m = match msg::peel(m) {
        Ok(m) => m,
        Err(e) => return fail("C01:decompress-fails", format!("{e}; {}", ctxs())),
    };
    crate::ensure_prop!(m.is_signed() == !cfg.signers.is_empty() || m.is_literal(), "C01:structure", "signed={} literal={}", m.is_signed(), m.is_literal());
    let (data, res) = cons.drive(&mut m);
    if let Err(e) = res {
        return fail("C01:read-fails", format!("{e} after {} of {} bytes; {}", data.len(), payload.len(), ctxs()));
    }
    if data != payload {
        let fd = data.iter().zip(payload.iter()).position(|(a, b)| a != b).unwrap_or(data.len().min(payload.len()));
        return fail("C01:payload-differs", format!("got {} bytes, want {}, first difference at {fd}; {}", data.len(), payload.len(), ctxs()));
    }
    match m.literal_data_header() {
        Some(h) => {
            let want_mode = if cfg.utf8 { pgp::packet::DataMode::Utf8 } else { pgp::packet::DataMode::Binary };
            rec.check(h.mode() == want_mode, "C01:literal-mode-differs", || format!("{:?}", h.mode()));
            rec.check(h.file_name().is_empty(), "C01:literal-name-differs", || format!("{:?}", h.file_name()));
        }
        None => rec.soft_fail("C01:literal-header-missing", ctxs()),
    }
    // (3) signatures
    let n = cfg.signers.len();
    for (si, (k, _)) in cfg.signers.iter().enumerate() {
        let pk = &zoo::get(*k).public.primary_key;
        let ok: Vec<usize> = (0..n).filter(|&i| m.verify_nested_explicit(i, pk).is_ok()).collect();
        if ok.is_empty() {
            let err = m.verify_nested_explicit(n - 1 - si, pk).err().map(|e| e.to_string()).unwrap_or_default();
            rec.soft_fail("C01:signature-does-not-verify", format!("signer #{si} {k:?}: {err}; {}", ctxs()));
        }
        let decoy = &zoo::get(zoo::decoy_for(*k)).public.primary_key;
        if !cfg.signers.iter().any(|(k2, _)| *k2 == zoo::decoy_for(*k)) {
            for i in 0..n {
                if m.verify_nested_explicit(i, decoy).is_ok() {
                    rec.soft_fail("C01:signature-verifies-under-decoy-key", format!("index {i} decoy {:?}", zoo::decoy_for(*k)));
                }
            }
        }
    }
    if n > 0 && n == 1 {
        let pk = &zoo::get(cfg.signers[0].0).public.primary_key;
        if let Err(e) = m.verify(pk) {
            rec.soft_fail("C01:signature-does-not-verify", format!("Message::verify: {e}"));
        }
    }
    Ok(())
}

fn len_label(len: usize) -> &'static str {
    match len {
        0 => "plen:0",
        1..=511 => "plen:<512",
        512..=8191 => "plen:512..8K",
        8192..=65535 => "plen:8K..64K",
        _ => "plen:>=64K",
    }
}

fn one_case(t: &mut Tape, rec: &mut Rec, opts: &DrawOpts, max_len: usize) -> CaseResult {
    let cfg = MsgConfig::draw(t, opts);
    let (len, lclass) = draw_len(t, &cfg, max_len);
    let payload = payload_for(t, &cfg, len);
    cfg.labels(rec);
    rec.label(lclass);
    rec.label(len_label(len));
    // class: how many partial chunks will the literal layer need
    if matches!(cfg.src, SrcKind::Reader(_)) && len > cfg.chunk as usize {
        rec.label("literal:>=2-partial-chunks");
    }
    if let Enc::V2(_, _, cs) = cfg.enc {
        if len > (1usize << (cs as usize + 6)) {
            rec.label("aead:>=2-chunks");
        }
    }
    rec.nontrivial((len, cfg.shape_key()));
    rec.describe(|| format!("len={len} {}", cfg.describe()));
    roundtrip(t, rec, &cfg, &payload)
}

/// negative half: DataMode::Utf8 with a non-conforming payload must be rejected, whatever the schedule
fn utf8_negative(t: &mut Tape, rec: &mut Rec) -> CaseResult {
    let mut cfg = MsgConfig::plain();
    cfg.utf8 = true;
    let len = t.range(1, 3000);
    let mut payload = msg::utf8_payload(t.u64(), len);
    let pos = t.below(payload.len());
    let kind = t.below(3);
    match kind {
        0 => {
            // bare LF
            payload.insert(pos.min(payload.len()), b'\n');
            // make sure it is bare
            let p = pos.min(payload.len() - 1);
            if p > 0 && payload[p - 1] == b'\r' {
                payload[p - 1] = b'x';
            }
        }
        1 => payload[pos] = 0xff,
        _ => {
            // truncated multi-byte sequence at the very end
            payload.extend_from_slice(&[0xe2, 0x82]);
        }
    }
    if std::str::from_utf8(&payload).is_ok() && crate::refimpl::text::canon(&payload) == payload {
        rec.discard();
        return Ok(());
    }
    cfg.src = if t.bool() { SrcKind::Bytes } else { SrcKind::Reader(Sched::draw(t, payload.len(), &[pos, 512, 1024])) };
    cfg.chunk = 1 << t.range(9, 11);
    rec.label(format!("utf8-negative:{}", ["bare-LF", "invalid-byte", "truncated-sequence"][kind]));
    rec.nontrivial(("neg", kind, len, pos));
    rec.describe(|| format!("Utf8 mode, {} bytes, defect {} at {pos}, {}", payload.len(), ["bare-LF", "invalid-byte", "truncated-sequence"][kind], cfg.describe()));
    match cfg.build(&payload) {
        Err(_) => Ok(()),
        Ok(_) => fail("C01:utf8-mode-accepts-nonconforming-payload", format!("defect {} at {pos} of {}; {}", ["bare-LF", "invalid-byte", "truncated-sequence"][kind], payload.len(), cfg.describe())),
    }
}

pub fn run(ctx: &Ctx) {
    ctx.set_rule("case = (payload, builder configuration row) decoded from a seeded tape: source kind bytes|file|reader(schedule), data mode, partial chunk 2^9..2^20, compression none|uncompressed|zip|zlib|bzip2, 0..3 signers (zoo key x hash x binary|text), encryption none|SEIPDv1 x 11 ciphers|SEIPDv2 x 3 AEAD x 3 AES x chunk sizes, 0..3 passwords x S2K kind, 0..3 public-key recipients (anonymous or not), armor off|crc|nocrc; payload length from the boundary set {0,1,2} U {k*c+d : c in {512,1024,8192,partial chunk,AEAD chunk,2*(AEAD+16)}, k in 1..3, d in -37..+3} U random; reader side: source schedule x opener (session key | each password | each recipient, unlocked or locked) x consumer pattern; non-trivial = every case; distinct = (length, configuration shape)");
    ctx.assume("file name passed to the builder is deliberately dropped by rPGP (literal header is always mode,'',0)");
    ctx.assume("independent validity: own packet de-framer + flate2/bzip2 decoders applied to unencrypted output");
    let thorough = ctx.tier == Tier::Thorough;
    zoo::warm(zoo::CHEAP_SIGNERS);
    zoo::warm(&[zoo::Kind::Ed25519V4B, zoo::Kind::Ed25519V6B, zoo::Kind::EdLegacyV4B, zoo::Kind::P256V4B]);
    let cheap = DrawOpts { signers: zoo::CHEAP_SIGNERS, recipients: zoo::CHEAP_RECIPIENTS, max_chunk_exp: 13, allow_file: true, allow_big_aead_chunks: false };
    let n = ctx.tier.pick(12_000u64, 250_000);
    ctx.group("pairwise-configs-boundary-lengths", Source::Random { n, tape_len: 256 }, |t, rec| one_case(t, rec, &cheap, 70_000));
    // all algorithms (RSA, P-384/521, Ed448, DSA ...), larger chunk sizes
    zoo::warm(zoo::ALL_SIGNERS);
    let all = DrawOpts { signers: zoo::ALL_SIGNERS, recipients: zoo::ALL_RECIPIENTS, max_chunk_exp: 20, allow_file: true, allow_big_aead_chunks: true };
    let n = ctx.tier.pick(1_200u64, 25_000);
    ctx.group("all-algorithms-large-chunks", Source::Random { n, tape_len: 256 }, |t, rec| one_case(t, rec, &all, if thorough { 3 << 20 } else { 300_000 }));
    // systematic sweep: every payload length in a window below each internal buffer / chunk
    // boundary, so that for every base configuration some length makes the *inner* stream
    // (payload + literal/OPS/signature/compression framing) end exactly on the boundary
    let sweep_cfgs: Vec<MsgConfig> = {
        use pgp::crypto::aead::AeadAlgorithm as A;
        use pgp::crypto::sym::SymmetricKeyAlgorithm as S;
        let mut encs = vec![Enc::None, Enc::V1(S::AES128), Enc::V1(S::CAST5), Enc::V2(S::AES128, A::Ocb, 6), Enc::V2(S::AES256, A::Gcm, 7)];
        if thorough {
            for c in msg::CIPHERS {
                encs.push(Enc::V1(c));
            }
            encs.extend([Enc::V2(S::AES192, A::Eax, 6), Enc::V2(S::AES128, A::Eax, 7), Enc::V2(S::AES128, A::Ocb, 0), Enc::V2(S::AES128, A::Gcm, 3)]);
        }
        let mut v = vec![];
        let mut seed = 90u8;
        for enc in encs {
            for reader in [false, true] {
                for signed in [false, true] {
                    for comp in [None, Some(CompressionAlgorithm::Uncompressed)] {
                        let mut c = MsgConfig::plain();
                        c.enc = enc;
                        c.src = if reader { SrcKind::Reader(Sched::fixed(3000)) } else { SrcKind::Bytes };
                        c.chunk = 1024;
                        c.compression = comp;
                        if signed {
                            c.signers = vec![(zoo::Kind::Ed25519V4, pgp::crypto::hash::HashAlgorithm::Sha256)];
                        }
                        c.seed = [seed; 32];
                        seed = seed.wrapping_add(1);
                        v.push(c);
                    }
                }
            }
        }
        v
    };
    let windows: Vec<(usize, usize)> = {
        // (boundary, how far below it to start)
        let mut w = vec![(8192usize, 200usize), (16384, 200), (1024, 48), (2048, 48), (3072, 48), (4096, 200)];
        if thorough {
            w.extend([(24576, 200), (32768, 200), (5120, 48), (12288, 200)]);
        }
        w
    };
    let per_cfg: usize = windows.iter().map(|(_, below)| below + 9).sum();
    ctx.note("boundary_sweep", serde_json::json!(format!("{} base configurations x every payload length in [B-below, B+8] for (B, below) in {:?}", sweep_cfgs.len(), windows)));
    ctx.group("boundary-length-sweep", Source::Indexed { count: (sweep_cfgs.len() * per_cfg) as u64 }, |t, rec| {
        let idx = t.u64() as usize;
        let cfg = &sweep_cfgs[idx / per_cfg];
        let mut r = idx % per_cfg;
        let mut len = 0usize;
        for (b, below) in &windows {
            if r < below + 9 {
                len = b - below + r;
                break;
            }
            r -= below + 9;
        }
        let payload = expand(len as u64 ^ 0xABCD, len);
        rec.label("sweep");
        rec.nontrivial((idx / per_cfg, len));
        rec.describe(|| format!("len={len} {}", cfg.describe()));
        let sub = expand(ctx.seed ^ (idx as u64).wrapping_mul(0x9E3779B97F4A7C15), 64);
        let mut t2 = Tape::new(&sub);
        roundtrip(&mut t2, rec, cfg, &payload)
    });
    let n = ctx.tier.pick(1_500u64, 20_000);
    ctx.group("utf8-mode-rejects-nonconforming", Source::Random { n, tape_len: 64 }, utf8_negative);
    if thorough {
        ctx.group("very-large", Source::Random { n: 24, tape_len: 256 }, |t, rec| one_case(t, rec, &all, 20 << 20));
    }
    let _ = CompressionAlgorithm::ZIP;
}
