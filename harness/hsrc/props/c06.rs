//! C06 — signature completeness: what any signing API signs, every verify API accepts.

use std::io::Write;

use pgp::composed::{
    ArmorOptions, CleartextSignedMessage, Deserializable, DetachedSignature, Message, MessageBuilder,
};
use pgp::crypto::hash::HashAlgorithm;
use pgp::packet::{Packet, PacketParser, Signature, SignatureConfig, SignatureType, Subpacket, SubpacketData};
use pgp::ser::Serialize;
use pgp::types::{KeyVersion, Password, Timestamp};
use rand::SeedableRng;
use rand_chacha::ChaCha8Rng;

use crate::engine::{CaseResult, Ctx, Rec, Source, Tape};
use crate::io::{Consumer, Sched, SchedRead};
use crate::refimpl::wire;
use crate::zoo::{self, Kind};

const SYM3: [u8; 3] = [b'\r', b'\n', b'x'];

fn nth_string(mut idx: u64) -> Vec<u8> {
    let mut len = 0u32;
    loop {
        let n = 3u64.pow(len);
        if idx < n {
            break;
        }
        idx -= n;
        len += 1;
    }
    (0..len)
        .map(|_| {
            let c = SYM3[(idx % 3) as usize];
            idx /= 3;
            c
        })
        .collect()
}
fn count_strings(max_len: u32) -> u64 {
    (0..=max_len).map(|l| 3u64.pow(l)).sum()
}

pub fn show(s: &[u8]) -> String {
    let body: String = s
        .iter()
        .take(80)
        .map(|&b| match b {
            b'\r' => "\\r".to_string(),
            b'\n' => "\\n".to_string(),
            b'\t' => "\\t".to_string(),
            b if (0x20..0x7f).contains(&b) => (b as char).to_string(),
            b => format!("\\x{b:02x}"),
        })
        .collect();
    if s.len() > 80 {
        format!("{body}…({} bytes)", s.len())
    } else {
        body
    }
}

fn make_config(key: &impl pgp::types::SigningKey, typ: SignatureType, hash: HashAlgorithm, rng: &mut ChaCha8Rng) -> Result<SignatureConfig, String> {
    let mut cfg = match key.version() {
        KeyVersion::V6 => SignatureConfig::v6(rng, typ, key.algorithm(), hash).map_err(|e| e.to_string())?,
        _ => SignatureConfig::v4(typ, key.algorithm(), hash),
    };
    cfg.hashed_subpackets = vec![
        Subpacket::regular(SubpacketData::IssuerFingerprint(key.fingerprint())).map_err(|e| e.to_string())?,
        Subpacket::regular(SubpacketData::SignatureCreationTime(Timestamp::from_secs(1_700_000_123))).map_err(|e| e.to_string())?,
    ];
    Ok(cfg)
}

/// All verification interfaces that apply to a detached signature packet over `payload`.
fn verify_detached_everywhere(rec: &mut Rec, what: &str, sig: &Signature, kind: Kind, payload: &[u8], t: &mut Tape) {
    let z = zoo::get(kind);
    let pubk = &z.public.primary_key;
    let tail_cr = payload.last() == Some(&b'\r');
    let sfx = |base: &str| -> String { if tail_cr { format!("C06:{what}:{base}:payload-ends-with-CR") } else { format!("C06:{what}:{base}") } };
    // V1 Signature::verify with a scheduled reader
    let sched = Sched::draw(t, payload.len(), &[512, 1024, 8192]);
    if let Err(e) = sig.verify(pubk, SchedRead::new(payload.to_vec(), sched.clone())) {
        rec.soft_fail(sfx("Signature::verify-rejects"), format!("payload \"{}\" sched {}: {e}", show(payload), sched.describe()));
    }
    // also through the composed (signed) public key
    if let Err(e) = sig.verify(&z.public, payload) {
        rec.soft_fail(sfx("Signature::verify(SignedPublicKey)-rejects"), format!("payload \"{}\": {e}", show(payload)));
    }
    let det = DetachedSignature::new(sig.clone());
    if let Err(e) = det.verify(pubk, payload) {
        rec.soft_fail(sfx("DetachedSignature::verify-rejects"), format!("payload \"{}\": {e}", show(payload)));
    }
    // V4 serialize -> parse, armor -> parse
    match det.to_bytes().map_err(|e| e.to_string()).and_then(|b| DetachedSignature::from_bytes(&b[..]).map_err(|e| e.to_string())) {
        Ok(d2) => {
            if d2 != det {
                rec.soft_fail(format!("C06:{what}:detached-binary-roundtrip-differs"), "re-parsed signature differs".to_string());
            }
            if let Err(e) = d2.verify(pubk, payload) {
                rec.soft_fail(sfx("reparsed-detached-rejects"), e.to_string());
            }
        }
        Err(e) => rec.soft_fail(format!("C06:{what}:detached-binary-roundtrip-error"), e),
    }
    match det.to_armored_string(ArmorOptions::default()).map_err(|e| e.to_string()).and_then(|s| DetachedSignature::from_string(&s).map_err(|e| e.to_string())) {
        Ok((d2, _)) => {
            if let Err(e) = d2.verify(pubk, payload) {
                rec.soft_fail(sfx("rearmored-detached-rejects"), e.to_string());
            }
        }
        Err(e) => rec.soft_fail(format!("C06:{what}:detached-armor-roundtrip-error"), e),
    }
    // V2: wrap as a prefixed signed message: signature packet, literal packet (built by R-wire)
    let mut msg_bytes = match det.to_bytes() {
        Ok(b) => b,
        Err(_) => return,
    };
    msg_bytes.extend_from_slice(&wire::new_packet(11, &wire::literal_body(b'b', b"", 0, payload)));
    let parsed = Message::from_bytes(&msg_bytes[..]);
    match parsed {
        Ok(mut m) => {
            let cons = Consumer::draw(t);
            let (data, res) = cons.drive(&mut m);
            if let Err(e) = res {
                rec.soft_fail(format!("C06:{what}:prefixed-message-read-error"), e.to_string());
                return;
            }
            if data != payload {
                rec.soft_fail(format!("C06:{what}:prefixed-message-payload-differs"), format!("cons {cons:?}"));
            }
            if let Err(e) = m.verify(pubk) {
                rec.soft_fail(sfx("Message::verify(prefixed)-rejects"), format!("payload \"{}\" cons {cons:?}: {e}", show(payload)));
            }
        }
        Err(e) => rec.soft_fail(format!("C06:{what}:prefixed-message-parse-error"), e.to_string()),
    };
}

fn data_case(t: &mut Tape, rec: &mut Rec, payload: Vec<u8>, kinds: &[Kind]) -> CaseResult {
    let kind = *t.pick(kinds);
    let z = zoo::get(kind);
    let key = &z.secret.primary_key;
    let hash = *t.pick(kind.hashes());
    let text = t.bool();
    let typ = if text { SignatureType::Text } else { SignatureType::Binary };
    let mut rng = ChaCha8Rng::from_seed(t.seed32());
    let pw = Password::empty();
    rec.label(format!("key:{kind:?}"));
    rec.label(if text { "type:text" } else { "type:binary" });
    rec.label(format!("hash:{hash:?}"));
    if payload.iter().any(|&b| b == b'\r' || b == b'\n') || payload.is_empty() || payload.last().map_or(false, |b| *b == b' ' || *b == b'\t') {
        rec.nontrivial((payload.clone(), kind, text));
    }
    rec.describe(|| format!("payload \"{}\" key {kind:?} {typ:?} {hash:?}", show(&payload)));

    // S1/S2 DetachedSignature::sign_*_data over a scheduled reader
    let sched = Sched::draw(t, payload.len(), &[512, 1024, 8192]);
    let src = SchedRead::new(payload.clone(), sched);
    let d = if text {
        DetachedSignature::sign_text_data(&mut rng, key, &pw, hash, src)
    } else {
        DetachedSignature::sign_binary_data(&mut rng, key, &pw, hash, src)
    };
    match d {
        Ok(d) => verify_detached_everywhere(rec, "detached-sign", &d.signature, kind, &payload, t),
        Err(e) => rec.soft_fail("C06:detached-sign-error", e.to_string()),
    }
    // S4 SignatureConfig::sign
    match make_config(key, typ, hash, &mut rng).and_then(|c| c.sign(key, &pw, &payload[..]).map_err(|e| e.to_string())) {
        Ok(sig) => verify_detached_everywhere(rec, "config-sign", &sig, kind, &payload, t),
        Err(e) => rec.soft_fail("C06:config-sign-error", e),
    }
    // S5 into_hasher + chunked writes
    match make_config(key, typ, hash, &mut rng).and_then(|c| c.into_hasher().map_err(|e| e.to_string())) {
        Ok(mut h) => {
            let mut pos = 0;
            while pos < payload.len() {
                let n = t.range(1, 9).min(payload.len() - pos);
                let n = if payload.len() > 64 { (n * 997).min(payload.len() - pos) } else { n };
                let _ = h.write_all(&payload[pos..pos + n]);
                pos += n;
            }
            match h.sign(key, &pw) {
                Ok(sig) => verify_detached_everywhere(rec, "hasher-sign", &sig, kind, &payload, t),
                Err(e) => rec.soft_fail("C06:hasher-sign-error", e.to_string()),
            }
        }
        Err(e) => rec.soft_fail("C06:into-hasher-error", e),
    }
    // S3 message builder with 1..3 signers
    let nsign = t.range(1, 3);
    let mut signers = vec![kind];
    for _ in 1..nsign {
        signers.push(*t.pick(kinds));
    }
    rec.label(format!("builder-signers={nsign}"));
    let from_reader = t.bool();
    let sched = Sched::draw(t, payload.len(), &[512, 8192]);
    let built = {
        if from_reader {
            let mut b = MessageBuilder::from_reader("", SchedRead::new(payload.clone(), sched));
            if text {
                b.sign_text();
            }
            for (i, k) in signers.iter().enumerate() {
                b.sign(&zoo::get(*k).secret.primary_key, Password::empty(), if i == 0 { hash } else { *k.hashes().last().unwrap() });
            }
            b.to_vec(&mut rng)
        } else {
            let mut b = MessageBuilder::from_bytes("", payload.clone());
            if text {
                b.sign_text();
            }
            for (i, k) in signers.iter().enumerate() {
                b.sign(&zoo::get(*k).secret.primary_key, Password::empty(), if i == 0 { hash } else { *k.hashes().last().unwrap() });
            }
            b.to_vec(&mut rng)
        }
    };
    match built {
        Err(e) => rec.soft_fail("C06:builder-sign-error", e.to_string()),
        Ok(bytes) => {
            let tail_cr = payload.last() == Some(&b'\r');
            match Message::from_bytes(&bytes[..]) {
                Err(e) => rec.soft_fail("C06:builder-message-parse-error", e.to_string()),
                Ok(mut m) => {
                    let cons = Consumer::draw(t);
                    let (data, res) = cons.drive(&mut m);
                    if let Err(e) = res {
                        rec.soft_fail("C06:builder-message-read-error", e.to_string());
                    } else {
                        if data != payload {
                            rec.soft_fail("C06:builder-message-payload-differs", format!("cons {cons:?}"));
                        }
                        // each signer's key verifies some index
                        for k in &signers {
                            let pk = &zoo::get(*k).public.primary_key;
                            let ok = (0..signers.len()).any(|i| m.verify_nested_explicit(i, pk).is_ok());
                            if !ok {
                                rec.soft_fail("C06:builder-sign:Message::verify-rejects", format!("signer {k:?} of {signers:?}, payload \"{}\"", show(&payload)));
                            }
                        }
                        let keys: Vec<&dyn pgp::types::VerifyingKey> = signers.iter().map(|k| &zoo::get(*k).public.primary_key as &dyn pgp::types::VerifyingKey).collect();
                        match m.verify_nested(&keys) {
                            Ok(v) => {
                                if v.iter().any(|r| matches!(r, pgp::composed::VerificationResult::Invalid)) {
                                    rec.soft_fail("C06:builder-sign:verify_nested-reports-invalid", format!("{signers:?}"));
                                }
                            }
                            Err(e) => rec.soft_fail("C06:builder-sign:verify_nested-error", e.to_string()),
                        }
                    }
                }
            }
            // extracted signature packets verify as detached signatures over the payload
            let mut n_sigs = 0;
            for p in PacketParser::new(&bytes[..]) {
                if let Ok(Packet::Signature(sig)) = p {
                    n_sigs += 1;
                    let ok = signers.iter().any(|k| sig.verify(&zoo::get(*k).public.primary_key, &payload[..]).is_ok());
                    if !ok {
                        let s = if tail_cr { "C06:builder-sign:extracted-signature-rejected-as-detached:payload-ends-with-CR" } else { "C06:builder-sign:extracted-signature-rejected-as-detached" };
                        rec.soft_fail(s, format!("payload \"{}\"", show(&payload)));
                    }
                }
            }
            if n_sigs != signers.len() {
                rec.soft_fail("C06:builder-sign:signature-count", format!("{n_sigs} signature packets for {} signers", signers.len()));
            }
        }
    }
    Ok(())
}

fn cleartext_case(t: &mut Tape, rec: &mut Rec, text: String, kinds: &[Kind]) -> CaseResult {
    let kind = *t.pick(kinds);
    let z = zoo::get(kind);
    let key = &z.secret.primary_key;
    let pubk = &z.public.primary_key;
    let mut rng = ChaCha8Rng::from_seed(t.seed32());
    let pw = Password::empty();
    rec.label(format!("cleartext:key:{kind:?}"));
    let trailing_blank = text.split('\n').any(|l| {
        let l = l.strip_suffix('\r').unwrap_or(l);
        l.ends_with(' ') || l.ends_with('\t')
    });
    let tail_cr = text.ends_with('\r');
    let lone_cr = {
        let b = text.as_bytes();
        (0..b.len()).any(|i| b[i] == b'\r' && b.get(i + 1) != Some(&b'\n'))
    };
    if trailing_blank {
        rec.label("cleartext:trailing-blank");
    }
    if lone_cr {
        rec.label("cleartext:lone-CR");
    }
    rec.nontrivial(("csf", text.clone(), kind));
    rec.describe(|| format!("cleartext \"{}\" key {kind:?}", show(text.as_bytes())));
    let class = |base: &str| -> String {
        if trailing_blank {
            format!("C06:cleartext:{base}:line-with-trailing-blank")
        } else if tail_cr {
            format!("C06:cleartext:{base}:text-ends-with-CR")
        } else if lone_cr {
            format!("C06:cleartext:{base}:text-with-lone-CR")
        } else {
            format!("C06:cleartext:{base}")
        }
    };
    let variant = t.below(3);
    let msg = match variant {
        0 => CleartextSignedMessage::sign(&mut rng, &text, key, &pw),
        1 => {
            let cfg = match make_config(key, SignatureType::Text, kind.hashes()[0], &mut rng) {
                Ok(c) => c,
                Err(e) => {
                    rec.soft_fail("C06:cleartext:config-error", e);
                    return Ok(());
                }
            };
            CleartextSignedMessage::new(&text, cfg, key, &pw)
        }
        _ => CleartextSignedMessage::new_many(&text, |norm| {
            let cfg = make_config(key, SignatureType::Text, *kind.hashes().last().unwrap(), &mut rng).map_err(|e| pgp::errors::Error::from(std::io::Error::other(e)))?;
            let s = cfg.sign(key, &pw, norm.as_bytes())?;
            Ok(vec![s])
        }),
    };
    rec.label(format!("cleartext:api={}", ["sign", "new", "new_many"][variant]));
    let msg = match msg {
        Ok(m) => m,
        Err(e) => {
            rec.soft_fail("C06:cleartext:sign-error", e.to_string());
            return Ok(());
        }
    };
    if let Err(e) = msg.verify(pubk) {
        rec.soft_fail(class("verify-rejects-own-signature"), format!("text \"{}\" api {}: {e}", show(text.as_bytes()), variant));
    }
    if let Err(e) = msg.verify_many(|_, sig, data| sig.verify(pubk, data)) {
        rec.soft_fail(class("verify_many-rejects-own-signature"), format!("text \"{}\": {e}", show(text.as_bytes())));
    }
    match msg.to_armored_string(ArmorOptions::default()) {
        Err(e) => rec.soft_fail("C06:cleartext:armor-error", e.to_string()),
        Ok(arm) => match CleartextSignedMessage::from_string(&arm) {
            Err(e) => rec.soft_fail(class("reparse-error"), format!("text \"{}\": {e}", show(text.as_bytes()))),
            Ok((m2, _)) => {
                if let Err(e) = m2.verify(pubk) {
                    rec.soft_fail(class("reparsed-verify-rejects"), format!("text \"{}\": {e}", show(text.as_bytes())));
                }
            }
        },
    }
    Ok(())
}

const SIGMA: [&str; 9] = ["\r", "\n", "\t", " ", "-", "a", "é", "€", "\0"];

fn random_text(t: &mut Tape, max: usize) -> String {
    let n = t.range(0, max);
    let mut s = String::new();
    for _ in 0..n {
        s.push_str(SIGMA[t.below(SIGMA.len())]);
    }
    s
}

pub fn run(ctx: &Ctx) {
    ctx.set_rule("payloads: every string over {CR,LF,x} of length 0..=L (exhaustive) and random strings over {CR,LF,TAB,SP,'-',a,é,€,NUL} incl. long ones with CR/LF on the 512/1024/8192 buffer edges; each signed through every data-signing interface (detached binary/text, SignatureConfig::sign, hasher+io::Write chunks, message builder with 1..3 signers, cleartext sign/new/new_many) and checked through every applicable verify interface (Signature::verify via PublicKey and SignedPublicKey, DetachedSignature::verify, after binary and armored re-parse, Message::verify on a harness-built prefixed message, Message::verify/verify_nested on builder output, extracted one-pass signature as detached, cleartext verify/verify_many, after armor round trip); non-trivial = payload contains CR/LF, is empty, or has a trailing blank; distinct = (payload, key, type)");
    ctx.assume("prefixed signed messages are assembled by the harness' own packet framer (signature packet followed by a literal packet)");
    let cheap = zoo::CHEAP_SIGNERS;
    zoo::warm(cheap);
    let l = ctx.tier.pick(7u32, 8);
    ctx.group("exhaustive-3sym-data", Source::Indexed { count: count_strings(l) }, |t, rec| {
        let idx = t.u64();
        let s = nth_string(idx);
        let sub = crate::engine::expand(ctx.seed ^ idx.wrapping_mul(0x9E3779B97F4A7C15), 128);
        let mut t2 = Tape::new(&sub);
        data_case(&mut t2, rec, s, cheap)
    });
    ctx.group("exhaustive-3sym-cleartext", Source::Indexed { count: count_strings(l) }, |t, rec| {
        let idx = t.u64();
        let s = nth_string(idx);
        let sub = crate::engine::expand(ctx.seed ^ idx.wrapping_mul(0x9E3779B97F4A7C15) ^ 0xC1EA, 128);
        let mut t2 = Tape::new(&sub);
        cleartext_case(&mut t2, rec, String::from_utf8(s).unwrap(), cheap)
    });
    let n = ctx.tier.pick(4000u64, 60000);
    ctx.group("random-sigma-data", Source::Random { n, tape_len: 400 }, |t, rec| {
        let payload = if t.chance(90) {
            // long, with line-ending material on buffer edges
            let edge = *t.pick(&[512usize, 1024, 1536, 8192, 16384]);
            // mostly exactly on / next to the internal buffer edge, sometimes anywhere behind it
            let total = if t.chance(180) { edge + t.range(0, 4) - 2 } else { edge + t.range(0, 600) };
            let mut s = vec![b'q'; total];
            for k in 0..t.range(1, 6) {
                let p = (edge + k).saturating_sub(t.range(0, 4)).min(total - 1);
                s[p] = *t.pick(&[b'\r', b'\n', b' ', b'\t']);
            }
            if t.chance(180) {
                *s.last_mut().unwrap() = *t.pick(&[b'\r', b'\n', b' ', b'\t']);
            }
            s
        } else {
            random_text(t, 40).into_bytes()
        };
        data_case(t, rec, payload, cheap)
    });
    ctx.group("random-sigma-cleartext", Source::Random { n, tape_len: 300 }, |t, rec| {
        let text = random_text(t, 30);
        cleartext_case(t, rec, text, cheap)
    });
    // all zoo signing algorithms, sampled
    let all = zoo::ALL_SIGNERS;
    let n = ctx.tier.pick(150u64, 3000);
    zoo::warm(all);
    ctx.group("all-algorithms-data", Source::Random { n, tape_len: 300 }, |t, rec| {
        let payload = random_text(t, 24).into_bytes();
        data_case(t, rec, payload, all)
    });
    ctx.group("all-algorithms-cleartext", Source::Random { n: n / 2, tape_len: 300 }, |t, rec| {
        let text = random_text(t, 24);
        cleartext_case(t, rec, text, all)
    });
}
