//! C06 — signature completeness: what any signing API signs, every verify API accepts.

use std::io::Write;

use pgp::composed::{
    ArmorOptions, CleartextSignedMessage, Deserializable, DetachedSignature, Message, MessageBuilder,
};
use pgp::crypto::hash::HashAlgorithm;
use pgp::packet::{Packet, PacketParser, Signature, SignatureConfig, SignatureType, Subpacket, SubpacketData};
use pgp::ser::Serialize;
use pgp::types::{KeyVersion, Password, Timestamp};
use rand::SeedableRng;
use rand_chacha::ChaCha8Rng;

use crate::engine::{CaseResult, Ctx, Rec, Source, Tape};
use crate::io::{Consumer, Sched, SchedRead};
use crate::refimpl::wire;
use crate::zoo::{self, Kind};

const SYM3: [u8; 3] = [b'\r', b'\n', b'x'];

fn nth_string(mut idx: u64) -> Vec<u8> {
    let mut len = 0u32;
    loop {
        let n = 3u64.pow(len);
        if idx < n {
            break;
        }
        idx -= n;
        len += 1;
    }
    (0..len)
        .map(|_| {
            let c = SYM3[(idx % 3) as usize];
            idx /= 3;
            c
        })
        .collect()
}
fn count_strings(max_len: u32) -> u64 {
    (0..=max_len).map(|l| 3u64.pow(l)).sum()
}

pub fn show(s: &[u8]) -> String {
    let body: String = s
        .iter()
        .take(80)
        .map(|&b| match b {
            b'\r' => "\\r".to_string(),
            b'\n' => "\\n".to_string(),
            b'\t' => "\\t".to_string(),
            b if (0x20..0x7f).contains(&b) => (b as char).to_string(),
            b => format!("\\x{b:02x}"),
        })
        .collect();
    if s.len() > 80 {
        format!("{body}…({} bytes)", s.len())
    } else {
        body
    }
}

fn make_config(key: &impl pgp::types::SigningKey, typ: SignatureType, hash: HashAlgorithm, rng: &mut ChaCha8Rng) -> Result<SignatureConfig, String> {
    let mut cfg = match key.version() {
        KeyVersion::V6 => SignatureConfig::v6(rng, typ, key.algorithm(), hash).map_err(|e| e.to_string())?,
        _ => SignatureConfig::v4(typ, key.algorithm(), hash),
    };
    cfg.hashed_subpackets = vec![
        Subpacket::regular(SubpacketData::IssuerFingerprint(key.fingerprint())).map_err(|e| e.to_string())?,
        Subpacket::regular(SubpacketData::SignatureCreationTime(Timestamp::from_secs(1_700_000_123))).map_err(|e| e.to_string())?,
    ];
    Ok(cfg)
}

/// All verification interfaces that apply to a detached signature packet over `payload`.
fn verify_detached_everywhere(rec: &mut Rec, what: &str, sig: &Signature, kind: Kind, payload: &[u8], t: &mut Tape) {
    let z = zoo::get(kind);
    let pubk = &z.public.primary_key;
    let tail_cr = payload.last() == Some(&b'\r');
    let sfx = |base: &str| -> String { if tail_cr { format!("C06:{what}:{base}:payload-ends-with-CR") } else { format!("C06:{what}:{base}") } };
    // V1 Signature::verify with a scheduled reader
    let sched = Sched::draw(t, payload.len(), &[512, 1024, 8192]);
    if let Err(e) = sig.verify(pubk, SchedRead::new(payload.to_vec(), sched.clone())) {
        rec.soft_fail(sfx("Signature::verify-rejects"), format!("payload \"{}\" sched {}: {e}", show(payload), sched.describe()));
    }
    // also through the composed (signed) public key
    if let Err(e) = sig.verify(&z.public, payload) {
        rec.soft_fail(sfx("Signature::verify(SignedPublicKey)-rejects"), format!("payload \"{}\": {e}", show(payload)));
    }
    let det = DetachedSignature::new(sig.clone());
    if let Err(e) = det.verify(pubk, payload) {
        rec.soft_fail(sfx("DetachedSignature::verify-rejects"), format!("payload \"{}\": {e}", show(payload)));
    }
    // V4 serialize -> parse, armor -> parse
    match det.to_bytes().map_err(|e| e.to_string()).and_then(|b| DetachedSignature::from_bytes(&b[..]).map_err(|e| e.to_string())) {
        Ok(d2) => {
            if d2 != det {
                rec.soft_fail(format!("C06:{what}:detached-binary-roundtrip-differs"), "re-parsed signature differs".to_string());
            }
            if let Err(e) = d2.verify(pubk, payload) {
                rec.soft_fail(sfx("reparsed-detached-rejects"), e.to_string());
            }
        }
        Err(e) => rec.soft_fail(format!("C06:{what}:detached-binary-roundtrip-error"), e),
    }
    match det.to_armored_string(ArmorOptions::default()).map_err(|e| e.to_string()).and_then(|s| DetachedSignature::from_string(&s).map_err(|e| e.to_string())) {
        Ok((d2, _)) => {
            if let Err(e) = d2.verify(pubk, payload) {
                rec.soft_fail(sfx("rearmored-detached-rejects"), e.to_string());
            }
        }
        Err(e) => rec.soft_fail(format!("C06:{what}:detached-armor-roundtrip-error"), e),
    }
    // V2: wrap as a prefixed signed message: signature packet, literal packet (built by R-wire)
    let mut msg_bytes = match det.to_bytes() {
        Ok(b) => b,
        Err(_) => return,
    };
    msg_bytes.extend_from_slice(&wire::new_packet(11, &wire::literal_body(b'b', b"", 0, payload)));
    let parsed = Message::from_bytes(&msg_bytes[..]);
    match parsed {
        Ok(mut m) => {
            let cons = Consumer::draw(t);
            let (data, res) = cons.drive(&mut m);
            if let Err(e) = res {
                rec.soft_fail(format!("C06:{what}:prefixed-message-read-error"), e.to_string());
                return;
            }
            if data != payload {
                rec.soft_fail(format!("C06:{what}:prefixed-message-payload-differs"), format!("cons {cons:?}"));
            }
            if let Err(e) = m.verify(pubk) {
                rec.soft_fail(sfx("Message::verify(prefixed)-rejects"), format!("payload \"{}\" cons {cons:?}: {e}", show(payload)));
            }
        }
        Err(e) => rec.soft_fail(format!("C06:{what}:prefixed-message-parse-error"), e.to_string()),
    };
}


/// subpacket configuration of a builder signature: rPGP's default, or a caller-provided list that
/// carries both issuer hints, only the fingerprint, only the key id, or none (the hints are optional)
fn signer_subpackets(key: &impl pgp::types::KeyDetails, hint: usize) -> pgp::composed::SubpacketConfig {
    use pgp::composed::SubpacketConfig;
    if hint == 0 {
        return SubpacketConfig::Default;
    }
    let mut hashed = vec![Subpacket::regular(SubpacketData::SignatureCreationTime(Timestamp::from_secs(1_700_000_555))).expect("subpacket")];
    let mut unhashed = vec![];
    if hint == 1 || hint == 2 {
        hashed.push(Subpacket::regular(SubpacketData::IssuerFingerprint(key.fingerprint())).expect("subpacket"));
    }
    if (hint == 1 || hint == 3) && key.version() != KeyVersion::V6 {
        unhashed.push(Subpacket::regular(SubpacketData::IssuerKeyId(key.legacy_key_id())).expect("subpacket"));
    }
    SubpacketConfig::UserDefined { hashed, unhashed }
}

fn data_case(t: &mut Tape, rec: &mut Rec, payload: Vec<u8>, kinds: &[Kind]) -> CaseResult {
    let kind = *t.pick(kinds);
    let z = zoo::get(kind);
    let key = &z.secret.primary_key;
    let hash = *t.pick(kind.hashes());
    let text = t.bool();
    let typ = if text { SignatureType::Text } else { SignatureType::Binary };
    let mut rng = ChaCha8Rng::from_seed(t.seed32());
    let pw = Password::empty();
    rec.label(format!("key:{kind:?}"));
    rec.label(if text { "type:text" } else { "type:binary" });
    rec.label(format!("hash:{hash:?}"));
    if payload.iter().any(|&b| b == b'\r' || b == b'\n') || payload.is_empty() || payload.last().map_or(false, |b| *b == b' ' || *b == b'\t') {
        rec.nontrivial((payload.clone(), kind, text));
    }
    rec.describe(|| format!("payload \"{}\" key {kind:?} {typ:?} {hash:?}", show(&payload)));

    // S1/S2 DetachedSignature::sign_*_data over a scheduled reader
    let sched = Sched::draw(t, payload.len(), &[512, 1024, 8192]);
    let src = SchedRead::new(payload.clone(), sched);
    let d = if text {
        DetachedSignature::sign_text_data(&mut rng, key, &pw, hash, src)
    } else {
        DetachedSignature::sign_binary_data(&mut rng, key, &pw, hash, src)
    };
    match d {
        Ok(d) => verify_detached_everywhere(rec, "detached-sign", &d.signature, kind, &payload, t),
        Err(e) => rec.soft_fail("C06:detached-sign-error", e.to_string()),
    }
    // S4 SignatureConfig::sign
    match make_config(key, typ, hash, &mut rng).and_then(|c| c.sign(key, &pw, &payload[..]).map_err(|e| e.to_string())) {
        Ok(sig) => verify_detached_everywhere(rec, "config-sign", &sig, kind, &payload, t),
        Err(e) => rec.soft_fail("C06:config-sign-error", e),
    }
    // S5 into_hasher + chunked writes
    match make_config(key, typ, hash, &mut rng).and_then(|c| c.into_hasher().map_err(|e| e.to_string())) {
        Ok(mut h) => {
            let mut pos = 0;
            while pos < payload.len() {
                let n = t.range(1, 9).min(payload.len() - pos);
                let n = if payload.len() > 64 { (n * 997).min(payload.len() - pos) } else { n };
                let _ = h.write_all(&payload[pos..pos + n]);
                pos += n;
            }
            match h.sign(key, &pw) {
                Ok(sig) => verify_detached_everywhere(rec, "hasher-sign", &sig, kind, &payload, t),
                Err(e) => rec.soft_fail("C06:hasher-sign-error", e.to_string()),
            }
        }
        Err(e) => rec.soft_fail("C06:into-hasher-error", e),
    }
    // S3 message builder with 1..3 signers
    let nsign = t.range(1, 3);
    let mut signers = vec![kind];
    for _ in 1..nsign {
        signers.push(*t.pick(kinds));
    }
    rec.label(format!("builder-signers={nsign}"));
    let from_reader = t.bool();
    let sched = Sched::draw(t, payload.len(), &[512, 8192]);
    // 0 = default subpackets, 1 = explicit with both issuer hints, 2 = fingerprint only, 3 = key id only (v4), 4 = no hint
    let hints: Vec<usize> = signers.iter().map(|_| if t.chance(150) { 0 } else { t.range(1, 4) }).collect();
    if hints.iter().any(|h| *h >= 2) {
        rec.label("builder-signer-without-full-issuer-hints");
    }
    let built = {
        if from_reader {
            let mut b = MessageBuilder::from_reader("", SchedRead::new(payload.clone(), sched));
            if text {
                b.sign_text();
            }
            for (i, k) in signers.iter().enumerate() {
                let sk = &zoo::get(*k).secret.primary_key;
                b.sign_with_subpackets(sk, Password::empty(), if i == 0 { hash } else { *k.hashes().last().unwrap() }, signer_subpackets(sk, hints[i]));
            }
            b.to_vec(&mut rng)
        } else {
            let mut b = MessageBuilder::from_bytes("", payload.clone());
            if text {
                b.sign_text();
            }
            for (i, k) in signers.iter().enumerate() {
                let sk = &zoo::get(*k).secret.primary_key;
                b.sign_with_subpackets(sk, Password::empty(), if i == 0 { hash } else { *k.hashes().last().unwrap() }, signer_subpackets(sk, hints[i]));
            }
            b.to_vec(&mut rng)
        }
    };
    match built {
        Err(e) => rec.soft_fail("C06:builder-sign-error", e.to_string()),
        Ok(bytes) => {
            let tail_cr = payload.last() == Some(&b'\r');
            match Message::from_bytes(&bytes[..]) {
                Err(e) => rec.soft_fail("C06:builder-message-parse-error", e.to_string()),
                Ok(mut m) => {
                    let cons = Consumer::draw(t);
                    let (data, res) = cons.drive(&mut m);
                    if let Err(e) = res {
                        rec.soft_fail("C06:builder-message-read-error", e.to_string());
                    } else {
                        if data != payload {
                            rec.soft_fail("C06:builder-message-payload-differs", format!("cons {cons:?}"));
                        }
                        // each signer's key verifies some index
                        for k in &signers {
                            let pk = &zoo::get(*k).public.primary_key;
                            let ok = (0..signers.len()).any(|i| m.verify_nested_explicit(i, pk).is_ok());
                            if !ok {
                                rec.soft_fail("C06:builder-sign:Message::verify-rejects", format!("signer {k:?} of {signers:?}, payload \"{}\"", show(&payload)));
                            }
                        }
                        let keys: Vec<&dyn pgp::types::VerifyingKey> = signers.iter().map(|k| &zoo::get(*k).public.primary_key as &dyn pgp::types::VerifyingKey).collect();
                        match m.verify_nested(&keys) {
                            Ok(v) => {
                                if v.iter().any(|r| matches!(r, pgp::composed::VerificationResult::Invalid)) {
                                    rec.soft_fail("C06:builder-sign:verify_nested-reports-invalid", format!("{signers:?}"));
                                }
                            }
                            Err(e) => rec.soft_fail("C06:builder-sign:verify_nested-error", e.to_string()),
                        }
                    }
                }
            }
            // extracted signature packets verify as detached signatures over the payload
            let mut n_sigs = 0;
            for p in PacketParser::new(&bytes[..]) {
                if let Ok(Packet::Signature(sig)) = p {
                    n_sigs += 1;
                    let ok = signers.iter().any(|k| sig.verify(&zoo::get(*k).public.primary_key, &payload[..]).is_ok());
                    if !ok {
                        let s = if tail_cr { "C06:builder-sign:extracted-signature-rejected-as-detached:payload-ends-with-CR" } else { "C06:builder-sign:extracted-signature-rejected-as-detached" };
                        rec.soft_fail(s, format!("payload \"{}\"", show(&payload)));
                    }
                }
            }
            if n_sigs != signers.len() {
                rec.soft_fail("C06:builder-sign:signature-count", format!("{n_sigs} signature packets for {} signers", signers.len()));
            }
        }
    }
    Ok(())
}

fn cleartext_case(t: &mut Tape, rec: &mut Rec, text: String, kinds: &[Kind]) -> CaseResult {
    let kind = *t.pick(kinds);
    let z = zoo::get(kind);
    let key = &z.secret.primary_key;
    let pubk = &z.public.primary_key;
    let mut rng = ChaCha8Rng::from_seed(t.seed32());
    let pw = Password::empty();
    rec.label(format!("cleartext:key:{kind:?}"));
    let trailing_blank = text.split('\n').any(|l| {
        let l = l.strip_suffix('\r').unwrap_or(l);
        l.ends_with(' ') || l.ends_with('\t')
    });
    let tail_cr = text.ends_with('\r');
    let lone_cr = {
        let b = text.as_bytes();
        (0..b.len()).any(|i| b[i] == b'\r' && b.get(i + 1) != Some(&b'\n'))
    };
    if trailing_blank {
        rec.label("cleartext:trailing-blank");
    }
    if lone_cr {
        rec.label("cleartext:lone-CR");
    }
    rec.nontrivial(("csf", text.clone(), kind));
    rec.describe(|| format!("cleartext \"{}\" key {kind:?}", show(text.as_bytes())));
    let class = |base: &str| -> String {
        if trailing_blank {
            format!("C06:cleartext:{base}:line-with-trailing-blank")
        } else if tail_cr {
            format!("C06:cleartext:{base}:text-ends-with-CR")
        } else if lone_cr {
            format!("C06:cleartext:{base}:text-with-lone-CR")
        } else {
            format!("C06:cleartext:{base}")
        }
    };
    let variant = t.below(3);
    let msg = match variant {
        0 => CleartextSignedMessage::sign(&mut rng, &text, key, &pw),
        1 => {
            let cfg = match make_config(key, SignatureType::Text, kind.hashes()[0], &mut rng) {
                Ok(c) => c,
                Err(e) => {
                    rec.soft_fail("C06:cleartext:config-error", e);
                    return Ok(());
                }
            };
            CleartextSignedMessage::new(&text, cfg, key, &pw)
        }
        _ => CleartextSignedMessage::new_many(&text, |norm| {
            let cfg = make_config(key, SignatureType::Text, *kind.hashes().last().unwrap(), &mut rng).map_err(|e| pgp::errors::Error::from(std::io::Error::other(e)))?;
            let s = cfg.sign(key, &pw, norm.as_bytes())?;
            Ok(vec![s])
        }),
    };
    rec.label(format!("cleartext:api={}", ["sign", "new", "new_many"][variant]));
    let msg = match msg {
        Ok(m) => m,
        Err(e) => {
            rec.soft_fail("C06:cleartext:sign-error", e.to_string());
            return Ok(());
        }
    };
    if let Err(e) = msg.verify(pubk) {
        rec.soft_fail(class("verify-rejects-own-signature"), format!("text \"{}\" api {}: {e}", show(text.as_bytes()), variant));
    }
    if let Err(e) = msg.verify_many(|_, sig, data| sig.verify(pubk, data)) {
        rec.soft_fail(class("verify_many-rejects-own-signature"), format!("text \"{}\": {e}", show(text.as_bytes())));
    }
    match msg.to_armored_string(ArmorOptions::default()) {
        Err(e) => rec.soft_fail("C06:cleartext:armor-error", e.to_string()),
        Ok(arm) => match CleartextSignedMessage::from_string(&arm) {
            Err(e) => rec.soft_fail(class("reparse-error"), format!("text \"{}\": {e}", show(text.as_bytes()))),
            Ok((m2, _)) => {
                if let Err(e) = m2.verify(pubk) {
                    rec.soft_fail(class("reparsed-verify-rejects"), format!("text \"{}\": {e}", show(text.as_bytes())));
                }
            }
        },
    }
    Ok(())
}

const SIGMA: [&str; 9] = ["\r", "\n", "\t", " ", "-", "a", "é", "€", "\0"];

fn random_text(t: &mut Tape, max: usize) -> String {
    let n = t.range(0, max);
    let mut s = String::new();
    for _ in 0..n {
        s.push_str(SIGMA[t.below(SIGMA.len())]);
    }
    s
}


// ---------------------------------------------------------------------------------------------
// key and certificate signatures: every making API crossed with every applicable checking API
// ---------------------------------------------------------------------------------------------

fn certificate_signature_case(t: &mut Tape, rec: &mut Rec, kinds: &[Kind]) -> CaseResult {
    use pgp::composed::{SignedPublicKey, SignedSecretKey};
    use pgp::packet::{KeyFlags, UserAttribute, UserId};
    use pgp::types::{KeyDetails, PacketHeaderVersion, SignedUser, SignedUserAttribute, Tag};
    let kind = *t.pick(kinds);
    let other_kind = zoo::decoy_for(kind);
    let z = zoo::get(kind);
    let o = zoo::get(other_kind);
    let key = &z.secret.primary_key;
    let pubk = &z.public.primary_key;
    let pw = Password::empty();
    let mut rng = ChaCha8Rng::from_seed(t.seed32());
    let bad = |rec: &mut Rec, what: &str, check: &str, e: String| {
        rec.soft_fail(format!("C06:certificate:{what}:{check}-rejects"), format!("{kind:?}: {e}"));
    };
    rec.label(format!("key:{kind:?}"));
    match t.below(6) {
        0 | 1 => {
            // user id self-certification and third-party certification
            let text = match t.below(5) {
                0 => String::new(),
                1 => "Alice <alice@example.org>".to_string(),
                2 => random_text(t, 40),
                3 => "ü€ line\r\nbreak\n".repeat(t.range(1, 20)),
                _ => "x".repeat(*t.pick(&[191usize, 192, 255, 256, 8383, 8384])),
            };
            let uid = UserId::from_str(if t.chance(40) { PacketHeaderVersion::Old } else { PacketHeaderVersion::New }, &text).map_err(|e| crate::engine::Fail { sig: "C06:certificate:user-id-refused".into(), detail: e.to_string() })?;
            let third = t.bool();
            rec.label(if third { "cert:user-id-third-party" } else { "cert:user-id-self" });
            rec.nontrivial(("uid", format!("{kind:?}"), third, text.len()));
            rec.describe(|| format!("{kind:?} {} a user id of {} bytes", if third { "certifies (third party, on the decoy key)" } else { "self-certifies" }, text.len()));
            let signed: SignedUser = if third {
                let typ = *t.pick(&[SignatureType::CertGeneric, SignatureType::CertPersona, SignatureType::CertCasual, SignatureType::CertPositive]);
                uid.sign_third_party(&mut rng, key, &pw, &o.public.primary_key, typ)
            } else {
                uid.sign(&mut rng, key, pubk, &pw)
            }
            .map_err(|e| crate::engine::Fail { sig: "C06:certificate:sign-error".into(), detail: format!("{kind:?}: {e}") })?;
            let bytes = signed.to_bytes().map_err(|e| crate::engine::Fail { sig: "C06:certificate:serialize-error".into(), detail: e.to_string() })?;
            // re-parse the user id and its signature from the serialized form
            let mut parsed_uid = None;
            let mut parsed_sig = None;
            for p in PacketParser::new(&bytes[..]) {
                match p {
                    Ok(Packet::UserId(u)) => parsed_uid = Some(u),
                    Ok(Packet::Signature(s)) => parsed_sig = Some(s),
                    _ => {}
                }
            }
            let (Some(pu), Some(ps)) = (parsed_uid, parsed_sig) else {
                rec.soft_fail("C06:certificate:own-serialization-rejected", format!("{kind:?}: signed user id of {} bytes does not parse back", text.len()));
                return Ok(());
            };
            for (form, u, s) in [("direct", &signed.id, &signed.signatures[0]), ("re-parsed", &pu, &ps)] {
                if third {
                    if let Err(e) = s.verify_third_party_certification(&o.public.primary_key, pubk, Tag::UserId, u) {
                        bad(rec, "user-id-third-party", &format!("Signature::verify_third_party_certification({form})"), e.to_string());
                    }
                    if let Err(e) = s.verify_third_party_certification(&o.public.primary_key, &z.public, Tag::UserId, u) {
                        bad(rec, "user-id-third-party", &format!("Signature::verify_third_party_certification(SignedPublicKey signer, {form})"), e.to_string());
                    }
                } else if let Err(e) = s.verify_certification(pubk, Tag::UserId, u) {
                    bad(rec, "user-id-self", &format!("Signature::verify_certification({form})"), e.to_string());
                }
            }
            let su2 = SignedUser::new(pu, vec![ps]);
            let r = if third { su2.verify_third_party(&o.public.primary_key, pubk) } else { su2.verify_bindings(pubk) };
            if let Err(e) = r {
                bad(rec, if third { "user-id-third-party" } else { "user-id-self" }, "SignedUser::verify(re-parsed)", e.to_string());
            }
            let r = if third { signed.verify_third_party(&o.public.primary_key, pubk) } else { signed.verify_bindings(pubk) };
            if let Err(e) = r {
                bad(rec, if third { "user-id-third-party" } else { "user-id-self" }, "SignedUser::verify", e.to_string());
            }
            if !third {
                // a certificate assembled from the zoo key and the new user id must pass import + verify_bindings
                let mut cert = z.public.clone();
                cert.details.users.push(signed.clone());
                match cert.to_bytes().map_err(|e| e.to_string()).and_then(|b| SignedPublicKey::from_bytes(&b[..]).map_err(|e| e.to_string())) {
                    Ok(c2) => {
                        if let Err(e) = c2.verify_bindings() {
                            bad(rec, "user-id-self", "SignedPublicKey::verify_bindings(after export and import)", e.to_string());
                        }
                    }
                    Err(e) => bad(rec, "user-id-self", "SignedPublicKey::from_bytes", e),
                }
            }
        }
        2 => {
            let n = *t.pick(&[0usize, 1, 100, 175, 176, 3000, 16303, 16304]);
            let attr = UserAttribute::new_image(crate::engine::expand(t.u64(), n).into()).map_err(|e| crate::engine::Fail { sig: "C06:certificate:user-attribute-refused".into(), detail: e.to_string() })?;
            let third = t.bool();
            rec.label(if third { "cert:user-attribute-third-party" } else { "cert:user-attribute-self" });
            rec.nontrivial(("attr", format!("{kind:?}"), third, n));
            rec.describe(|| format!("{kind:?} certifies a {n}-byte image attribute (third party: {third})"));
            let signed: SignedUserAttribute = if third { attr.sign_third_party(&mut rng, key, &pw, &o.public.primary_key, SignatureType::CertGeneric) } else { attr.sign(&mut rng, key, pubk, &pw) }.map_err(|e| crate::engine::Fail { sig: "C06:certificate:sign-error".into(), detail: format!("{kind:?}: {e}") })?;
            let r = if third { signed.verify_third_party(&o.public.primary_key, pubk) } else { signed.verify_bindings(pubk) };
            if let Err(e) = r {
                bad(rec, "user-attribute", "SignedUserAttribute::verify", e.to_string());
            }
            let s = &signed.signatures[0];
            let r = if third { s.verify_third_party_certification(&o.public.primary_key, pubk, Tag::UserAttribute, &signed.attr) } else { s.verify_certification(pubk, Tag::UserAttribute, &signed.attr) };
            if let Err(e) = r {
                bad(rec, "user-attribute", "Signature::verify_certification", e.to_string());
            }
            if !third {
                let mut cert = z.public.clone();
                cert.details.user_attributes.push(signed.clone());
                match cert.to_bytes().map_err(|e| e.to_string()).and_then(|b| SignedPublicKey::from_bytes(&b[..]).map_err(|e| e.to_string())) {
                    Ok(c2) => {
                        if let Err(e) = c2.verify_bindings() {
                            bad(rec, "user-attribute", "SignedPublicKey::verify_bindings(after export and import)", e.to_string());
                        }
                    }
                    Err(e) => bad(rec, "user-attribute", "SignedPublicKey::from_bytes", e),
                }
            }
        }
        3 | 4 => {
            // subkey binding made through the subkey packet API, with and without back signature
            if z.secret.secret_subkeys.is_empty() {
                rec.discard();
                return Ok(());
            }
            // bind the decoy's (same version) encryption subkey, and this key's own
            let own = t.bool();
            let sub_secret = if own { &z.secret.secret_subkeys[0].key } else { &o.secret.secret_subkeys[0].key };
            let sub_pub = sub_secret.public_key();
            let mut flags = KeyFlags::default();
            let signing = t.bool() && sub_secret.algorithm().can_sign();
            if signing {
                flags.set_sign(true);
            } else {
                flags.set_encrypt_comms(true);
                flags.set_encrypt_storage(true);
            }
            if t.chance(60) {
                flags.set_adsk(true);
            }
            rec.label(if signing { "cert:subkey-binding-with-back-signature" } else { "cert:subkey-binding" });
            rec.nontrivial(("subkey", format!("{kind:?}"), own, signing));
            rec.describe(|| format!("{kind:?} binds {} subkey (signing capable: {signing})", if own { "its own" } else { "the decoy's" }));
            let embedded = if signing { Some(sub_secret.sign_primary_key_binding(&mut rng, pubk, &pw).map_err(|e| crate::engine::Fail { sig: "C06:certificate:sign-error".into(), detail: format!("back signature: {e}") })?) } else { None };
            if let Some(b) = &embedded {
                if let Err(e) = b.verify_primary_key_binding(&sub_pub, pubk) {
                    bad(rec, "primary-key-binding", "Signature::verify_primary_key_binding", e.to_string());
                }
            }
            let sig = if t.bool() { sub_pub.sign(&mut rng, key, pubk, &pw, flags.clone(), embedded.clone()) } else { sub_secret.sign(&mut rng, key, pubk, &pw, flags.clone(), embedded.clone()) }.map_err(|e| crate::engine::Fail { sig: "C06:certificate:sign-error".into(), detail: format!("subkey binding: {e}") })?;
            if let Err(e) = sig.verify_subkey_binding(pubk, &sub_pub) {
                bad(rec, "subkey-binding", "Signature::verify_subkey_binding", e.to_string());
            }
            // through the composed types, after export and import, on the public and on the secret path
            let mut cert = z.public.clone();
            cert.public_subkeys.push(pgp::composed::SignedPublicSubKey::new(sub_pub.clone(), vec![sig.clone()]));
            match cert.to_bytes().map_err(|e| e.to_string()).and_then(|b| SignedPublicKey::from_bytes(&b[..]).map_err(|e| e.to_string())) {
                Ok(c2) => {
                    if let Err(e) = c2.verify_bindings() {
                        bad(rec, "subkey-binding", "SignedPublicKey::verify_bindings(after export and import)", e.to_string());
                    }
                    if c2 != cert {
                        rec.soft_fail("C06:certificate:subkey-binding:re-import-differs", format!("{kind:?}"));
                    }
                }
                Err(e) => bad(rec, "subkey-binding", "SignedPublicKey::from_bytes", e),
            }
            let mut scert = z.secret.clone();
            scert.secret_subkeys.push(pgp::composed::SignedSecretSubKey::new(sub_secret.clone(), vec![sig.clone()]));
            match scert.to_bytes().map_err(|e| e.to_string()).and_then(|b| SignedSecretKey::from_bytes(&b[..]).map_err(|e| e.to_string())) {
                Ok(c2) => {
                    if let Err(e) = c2.verify_bindings() {
                        bad(rec, "subkey-binding", "SignedSecretKey::verify_bindings(after export and import)", e.to_string());
                    }
                }
                Err(e) => bad(rec, "subkey-binding", "SignedSecretKey::from_bytes", e),
            }
        }
        _ => {
            // direct key signature / key revocation style signatures over a key
            let typ = *t.pick(&[SignatureType::Key, SignatureType::KeyRevocation]);
            let third = t.bool();
            rec.label(format!("cert:{typ:?}{}", if third { "-third-party" } else { "" }));
            rec.nontrivial(("key-sig", format!("{kind:?}"), format!("{typ:?}"), third));
            rec.describe(|| format!("{kind:?} makes a {typ:?} signature over {}", if third { "the decoy key" } else { "itself" }));
            let hash = *t.pick(kind.hashes());
            let mut cfg = make_config(key, typ, hash, &mut rng).map_err(|e| crate::engine::Fail { sig: "C06:certificate:config-error".into(), detail: e })?;
            cfg.hashed_subpackets = vec![Subpacket::regular(SubpacketData::SignatureCreationTime(Timestamp::from_secs(1_700_000_020))).expect("subpacket"), Subpacket::regular(SubpacketData::IssuerFingerprint(key.fingerprint())).expect("subpacket")];
            let target = if third { &o.public.primary_key } else { pubk };
            let sig = cfg.sign_key(key, &pw, target).map_err(|e| crate::engine::Fail { sig: "C06:certificate:sign-error".into(), detail: format!("{typ:?}: {e}") })?;
            let bytes = sig.to_bytes().map_err(|e| crate::engine::Fail { sig: "C06:certificate:serialize-error".into(), detail: e.to_string() })?;
            let reparsed = match PacketParser::new(&wire::new_packet(2, &bytes)[..]).next() {
                Some(Ok(Packet::Signature(s))) => s,
                _ => {
                    rec.soft_fail("C06:certificate:own-serialization-rejected", format!("{typ:?} signature by {kind:?}"));
                    return Ok(());
                }
            };
            for (form, s) in [("direct", &sig), ("re-parsed", &reparsed)] {
                let r = if third { s.verify_key_third_party(target, pubk) } else { s.verify_key(pubk) };
                if let Err(e) = r {
                    bad(rec, "key-signature", &format!("Signature::verify_key({form})"), e.to_string());
                }
            }
        }
    }
    Ok(())
}


// ---------------------------------------------------------------------------------------------
// many fresh signatures per algorithm: value-dependent encodings (short r / s, leading zero octets)
// ---------------------------------------------------------------------------------------------

const MANY_KINDS: [Kind; 8] = [Kind::P256V4, Kind::P384V4, Kind::P521V4, Kind::K256V4, Kind::DsaV4, Kind::RsaV4, Kind::Ed448V6, Kind::EdLegacyV4];

fn many_signatures_case(t: &mut Tape, rec: &mut Rec, per_kind: u64) -> CaseResult {
    let idx = t.u64();
    let kind = MANY_KINDS[(idx / per_kind) as usize % MANY_KINDS.len()];
    let i = idx % per_kind;
    let z = zoo::get(kind);
    let key = &z.secret.primary_key;
    let hash = kind.hashes()[(i % kind.hashes().len() as u64) as usize];
    let text = i % 2 == 1;
    let payload = format!("payload number {i} for {kind:?}\n").into_bytes();
    let mut rng = ChaCha8Rng::seed_from_u64(idx);
    let d = if text { DetachedSignature::sign_text_data(&mut rng, key, &Password::empty(), hash, &payload[..]) } else { DetachedSignature::sign_binary_data(&mut rng, key, &Password::empty(), hash, &payload[..]) };
    let d = match d {
        Ok(d) => d,
        Err(e) => {
            rec.soft_fail("C06:many:sign-error", format!("{kind:?} {hash:?}: {e}"));
            return Ok(());
        }
    };
    // shape of the signature value: is r or s encoded in fewer octets than the field size?
    let field = match kind {
        Kind::P256V4 | Kind::K256V4 | Kind::EdLegacyV4 | Kind::DsaV4 => Some(32usize),
        Kind::P384V4 => Some(48),
        Kind::P521V4 => Some(66),
        _ => None,
    };
    let body = d.signature.to_bytes().unwrap_or_default();
    let short = match (field, crate::refimpl::sigparse::parse_sig(&body)) {
        (Some(f), Some(sf)) => {
            let v = &sf.value;
            let mut p = 0;
            let mut any = false;
            while p + 2 <= v.len() {
                let octets = (u16::from_be_bytes([v[p], v[p + 1]]) as usize).div_ceil(8);
                any |= octets < f;
                p += 2 + octets;
            }
            Some(any)
        }
        _ => None,
    };
    rec.label(format!("many:{kind:?}"));
    if short == Some(true) {
        rec.label(format!("many:{kind:?}:r-or-s-shorter-than-the-field"));
    }
    rec.nontrivial(idx);
    rec.describe(|| format!("{kind:?} {hash:?} {} signature #{i}", if text { "text" } else { "binary" }));
    if let Err(e) = d.verify(&z.public.primary_key, &payload[..]) {
        rec.soft_fail(format!("C06:many:DetachedSignature::verify-rejects:{kind:?}"), format!("signature #{i} ({hash:?}): {e}; signature packet {}", hex::encode(&body)));
    }
    match DetachedSignature::from_bytes(&d.to_bytes().unwrap_or_default()[..]) {
        Ok(d2) => {
            if let Err(e) = d2.verify(&z.public, &payload[..]) {
                rec.soft_fail(format!("C06:many:re-parsed-signature-rejected:{kind:?}"), format!("signature #{i} ({hash:?}): {e}"));
            }
        }
        Err(e) => rec.soft_fail("C06:many:own-serialization-rejected", format!("{kind:?} #{i}: {e}")),
    }
    Ok(())
}

pub fn run(ctx: &Ctx) {
    ctx.set_rule("payloads: every string over {CR,LF,x} of length 0..=L (exhaustive) and random strings over {CR,LF,TAB,SP,'-',a,é,€,NUL} incl. long ones with CR/LF on the 512/1024/8192 buffer edges; each signed through every data-signing interface (detached binary/text, SignatureConfig::sign, hasher+io::Write chunks, message builder with 1..3 signers, cleartext sign/new/new_many) and checked through every applicable verify interface (Signature::verify via PublicKey and SignedPublicKey, DetachedSignature::verify, after binary and armored re-parse, Message::verify on a harness-built prefixed message, Message::verify/verify_nested on builder output, extracted one-pass signature as detached, cleartext verify/verify_many, after armor round trip); many-signatures group: 1200 (thorough 20000) fresh detached signatures per algorithm for ECDSA P-256/P-384/P-521/secp256k1, DSA, RSA, Ed448, EdDSA-legacy so that short r/s and leading-zero encodings occur (counted per run), verified directly and after re-parse; certificate group: UserId/UserAttribute::sign and sign_third_party (ids of 0..8384 bytes, images across the subpacket length classes), PublicSubkey/SecretSubkey::sign with and without SecretSubkey::sign_primary_key_binding back signature and ADSK flag, SignatureConfig::sign_key for direct-key and key-revocation signatures, each checked through Signature::verify_certification / verify_third_party_certification / verify_subkey_binding / verify_primary_key_binding / verify_key(_third_party), SignedUser(/Attribute)::verify_bindings / verify_third_party, and SignedPublicKey/SignedSecretKey::verify_bindings after export and import; non-trivial = payload contains CR/LF, is empty, or has a trailing blank; distinct = (payload, key, type)");
    ctx.assume("prefixed signed messages are assembled by the harness' own packet framer (signature packet followed by a literal packet)");
    let cheap = zoo::CHEAP_SIGNERS;
    zoo::warm(cheap);
    let l = ctx.tier.pick(7u32, 8);
    ctx.group("exhaustive-3sym-data", Source::Indexed { count: count_strings(l) }, |t, rec| {
        let idx = t.u64();
        let s = nth_string(idx);
        let sub = crate::engine::expand(ctx.seed ^ idx.wrapping_mul(0x9E3779B97F4A7C15), 128);
        let mut t2 = Tape::new(&sub);
        data_case(&mut t2, rec, s, cheap)
    });
    ctx.group("exhaustive-3sym-cleartext", Source::Indexed { count: count_strings(l) }, |t, rec| {
        let idx = t.u64();
        let s = nth_string(idx);
        let sub = crate::engine::expand(ctx.seed ^ idx.wrapping_mul(0x9E3779B97F4A7C15) ^ 0xC1EA, 128);
        let mut t2 = Tape::new(&sub);
        cleartext_case(&mut t2, rec, String::from_utf8(s).unwrap(), cheap)
    });
    let n = ctx.tier.pick(4000u64, 360_000);
    ctx.group("random-sigma-data", Source::Random { n, tape_len: 400 }, |t, rec| {
        let payload = if t.chance(90) {
            // long, with line-ending material on buffer edges
            let edge = *t.pick(&[512usize, 1024, 1536, 8192, 16384]);
            // mostly exactly on / next to the internal buffer edge, sometimes anywhere behind it
            let total = if t.chance(180) { edge + t.range(0, 4) - 2 } else { edge + t.range(0, 600) };
            let mut s = vec![b'q'; total];
            for k in 0..t.range(1, 6) {
                let p = (edge + k).saturating_sub(t.range(0, 4)).min(total - 1);
                s[p] = *t.pick(&[b'\r', b'\n', b' ', b'\t']);
            }
            if t.chance(180) {
                *s.last_mut().unwrap() = *t.pick(&[b'\r', b'\n', b' ', b'\t']);
            }
            s
        } else {
            random_text(t, 40).into_bytes()
        };
        data_case(t, rec, payload, cheap)
    });
    ctx.group("random-sigma-cleartext", Source::Random { n, tape_len: 300 }, |t, rec| {
        let text = random_text(t, 30);
        cleartext_case(t, rec, text, cheap)
    });
    // all zoo signing algorithms, sampled
    let all = zoo::ALL_SIGNERS;
    let n = ctx.tier.pick(150u64, 18_000);
    zoo::warm(all);
    ctx.group("all-algorithms-data", Source::Random { n, tape_len: 300 }, |t, rec| {
        let payload = random_text(t, 24).into_bytes();
        data_case(t, rec, payload, all)
    });
    ctx.group("all-algorithms-cleartext", Source::Random { n: n / 2, tape_len: 300 }, |t, rec| {
        let text = random_text(t, 24);
        cleartext_case(t, rec, text, all)
    });
    zoo::warm(&MANY_KINDS);
    let per_kind = ctx.tier.pick(1200u64, 120_000);
    ctx.group("many-signatures-per-algorithm", Source::Indexed { count: per_kind * MANY_KINDS.len() as u64 }, |t, rec| many_signatures_case(t, rec, per_kind));
    let cert_kinds = [Kind::Ed25519V4, Kind::Ed25519V6, Kind::EdLegacyV4, Kind::P256V4, Kind::RsaV4];
    zoo::warm(&[Kind::Ed25519V4B, Kind::Ed25519V6B, Kind::EdLegacyV4B, Kind::P256V4B, Kind::RsaV4B, Kind::RsaV4]);
    let n = ctx.tier.pick(3000u64, 360_000);
    ctx.group("certificate-signature-apis", Source::Random { n, tape_len: 200 }, |t, rec| certificate_signature_case(t, rec, &cert_kinds));
}
