//! C03 — ciphertext integrity: a modified encrypted message never decrypts cleanly.

use pgp::composed::{DecryptionOptions, Message, TheRing};
use pgp::crypto::sym::SymmetricKeyAlgorithm;
use pgp::types::{Password, Seipdv1ReadMode};

use crate::engine::{expand, fail, CaseResult, Ctx, Rec, Source, Tape, Tier};
use crate::io::{Consumer, Sched, SchedRead};
use crate::msg::{self, Enc, MsgConfig, Opener, PwSpec, S2kKind, SrcKind, AEADS, AES, CIPHERS};
use crate::refimpl::wire::{self, RawPacket};
use crate::zoo::{self, Kind};

pub struct Base {
    pub cfg: MsgConfig,
    pub payload: Vec<u8>,
    pub pkts: Vec<RawPacket>,
    pub raw: Vec<u8>,
    /// index of the SEIPD packet in pkts
    pub si: usize,
}

impl Base {
    pub fn build(cfg: MsgConfig, payload: Vec<u8>) -> Result<Base, String> {
        let raw = cfg.build(&payload).map_err(|e| format!("build: {e}"))?;
        let pkts = wire::split_packets(&raw)?;
        let si = pkts.iter().position(|p| p.tag == 18).ok_or("no SEIPD packet")?;
        Ok(Base { cfg, payload, pkts, raw, si })
    }
    pub fn body(&self) -> &[u8] {
        &self.pkts[self.si].body
    }
    /// ESK packets verbatim, SEIPD with `body` under a fixed-length header, then `after`.
    pub fn reassemble(&self, body: &[u8], after: &[u8]) -> Vec<u8> {
        let mut out = vec![];
        for p in &self.pkts[..self.si] {
            out.extend_from_slice(&self.raw[p.offset..p.offset + p.encoded_len]);
        }
        out.extend_from_slice(&wire::new_packet(18, body));
        out.extend_from_slice(after);
        out
    }
    /// (header_len, chunk_size, n_chunks) for SEIPDv2 bodies
    pub fn v2_layout(&self) -> Option<(usize, usize, usize)> {
        let b = self.body();
        if b.first() != Some(&2) || b.len() < 36 + 16 {
            return None;
        }
        let cs = 1usize << (b[3] as usize + 6);
        let rest = b.len() - 36 - 16;
        for n in 0..=(rest / 16) {
            let p = rest as isize - 16 * n as isize;
            if p < 0 {
                break;
            }
            let p = p as usize;
            if p.div_ceil(cs) == n {
                return Some((36, cs, n));
            }
        }
        None
    }
}

#[derive(Clone, Copy, Debug, PartialEq, Eq)]
pub enum Mode {
    Default,
    CheckFirstSmallLimit,
    Streaming,
}

pub struct Attempt {
    pub released: Vec<u8>,
    /// None = clean end of stream
    pub error: Option<String>,
    pub stage: &'static str,
}

/// parse -> decrypt -> decompress -> read to the end (stop at the first error)
pub fn attempt(cfg: &MsgConfig, bytes: &[u8], opener: &Opener, cons: Consumer, mode: Mode, sched: Sched) -> Attempt {
    let m = match Message::from_bytes(SchedRead::new(bytes.to_vec(), sched)) {
        Ok(m) => m,
        Err(e) => return Attempt { released: vec![], error: Some(e.to_string()), stage: "parse" },
    };
    if !m.is_encrypted() {
        return Attempt { released: vec![], error: Some("not an encrypted message any more".into()), stage: "parse" };
    }
    let opts = match mode {
        Mode::Default => DecryptionOptions::new(),
        Mode::CheckFirstSmallLimit => DecryptionOptions::new().set_seipdv1_read_mode(Seipdv1ReadMode::CheckFirst { max_message_size: 1 << 24 }),
        Mode::Streaming => DecryptionOptions::new().set_seipdv1_read_mode(Seipdv1ReadMode::Streaming),
    };
    let pw;
    let key_pw;
    let mut ring = TheRing { decrypt_options: opts, ..Default::default() };
    match opener {
        Opener::SessionKey => ring.session_keys = vec![cfg.plain_session_key().unwrap()],
        Opener::Password(i) => {
            pw = Password::from(&cfg.passwords[*i].pw[..]);
            ring.message_password = vec![&pw];
        }
        Opener::Recipient(i) => {
            key_pw = Password::empty();
            ring.secret_keys = vec![&zoo::get(cfg.recipients[*i].0).secret];
            ring.key_passwords = vec![&key_pw];
        }
        Opener::RecipientLocked(i) => {
            let z = zoo::get(cfg.recipients[*i].0);
            ring.secret_keys = vec![&z.locked];
            ring.key_passwords = vec![&z.pw];
        }
    }
    let m = match m.decrypt_the_ring(ring, true) {
        Ok((m, _)) => m,
        Err(e) => return Attempt { released: vec![], error: Some(e.to_string()), stage: "decrypt" },
    };
    let mut m = match msg::peel(m) {
        Ok(m) => m,
        Err(e) => return Attempt { released: vec![], error: Some(e.to_string()), stage: "decompress" },
    };
    let (data, res) = cons.drive(&mut m);
    Attempt { released: data, error: res.err().map(|e| e.to_string()), stage: "read" }
}

fn judge(rec: &mut Rec, base: &Base, a: &Attempt, mode: Mode, what: &str) {
    let v1 = matches!(base.cfg.enc, Enc::V1(_));
    let tag = if v1 { "seipdv1" } else { "seipdv2" };
    if what.contains("appended after the container") {
        // the container itself is intact and authenticated: only "never wrong plaintext" is required
        if !base.payload.starts_with(&a.released) {
            rec.soft_fail(format!("C03:{tag}:released-bytes-not-a-prefix-of-plaintext"), format!("{what}: {} bytes released", a.released.len()));
        }
        return;
    }
    match &a.error {
        None => {
            let same = a.released == base.payload;
            rec.soft_fail(
                format!("C03:{tag}:modified-container-reads-to-clean-eof"),
                format!("{what}: clean end of stream after {} bytes (equal to true plaintext: {same}); mode {mode:?}", a.released.len()),
            );
        }
        Some(_) => {
            if v1 && mode != Mode::Streaming && !a.released.is_empty() {
                rec.soft_fail(format!("C03:{tag}:plaintext-released-before-integrity-failure"), format!("{what}: {} bytes released in check-first mode", a.released.len()));
            }
            if !v1 && !base.payload.starts_with(&a.released) {
                rec.soft_fail(format!("C03:{tag}:released-bytes-not-a-prefix-of-plaintext"), format!("{what}: {} bytes released", a.released.len()));
            }
        }
    }
}

fn control(base: &Base) -> CaseResult {
    let bytes = base.reassemble(base.body(), &[]);
    let a = attempt(&base.cfg, &bytes, &Opener::SessionKey, Consumer::ReadToEnd, Mode::Default, Sched::whole());
    if a.error.is_some() || a.released != base.payload {
        return fail("C03:positive-control-failed", format!("unmodified re-framed message does not round trip: {:?} at {} ({} bytes)", a.error, a.stage, a.released.len()));
    }
    Ok(())
}

fn draw_base(t: &mut Tape, rec: &mut Rec, force_cs: Option<u8>) -> Result<Base, crate::engine::Fail> {
    let mut cfg = MsgConfig::plain();
    cfg.seed = t.seed32();
    cfg.src = if t.bool() { SrcKind::Bytes } else { SrcKind::Reader(Sched::fixed(t.range(1, 5000))) };
    cfg.chunk = 1 << t.range(9, 11);
    cfg.compression = match t.below(8) {
        0 => Some(pgp::types::CompressionAlgorithm::ZIP),
        1 => Some(pgp::types::CompressionAlgorithm::ZLIB),
        _ => None,
    };
    if t.chance(40) {
        cfg.signers = vec![(Kind::Ed25519V4, pgp::crypto::hash::HashAlgorithm::Sha256)];
    }
    let v2 = t.chance(150);
    cfg.enc = if v2 {
        let cs = force_cs.unwrap_or_else(|| if t.chance(40) { t.range(6, 16) as u8 } else { t.range(0, 5) as u8 });
        Enc::V2(*t.pick(&AES), *t.pick(&AEADS), cs)
    } else {
        Enc::V1(*t.pick(&CIPHERS))
    };
    if t.chance(80) {
        cfg.passwords = vec![PwSpec { pw: b"correct horse".to_vec(), s2k: S2kKind::Iterated(0) }];
    }
    if t.chance(60) {
        cfg.recipients = vec![(if v2 { Kind::Ed25519V6 } else { Kind::Ed25519V4 }, false)];
    }
    let unit = match cfg.enc {
        Enc::V2(_, _, cs) if cs <= 7 => 1usize << (cs as usize + 6),
        _ => 8192,
    };
    let len = match t.below(6) {
        0 => t.below(3),
        1..=3 => ((unit * t.range(1, 3)) as isize + t.range(0, 44) as isize - 40).max(0) as usize,
        _ => t.below(3 * unit + 50),
    };
    let payload = expand(t.u64(), len);
    cfg.labels(rec);
    let base = Base::build(cfg, payload).map_err(|e| crate::engine::Fail { sig: "C03:base-build-error".into(), detail: e })?;
    if let Some((_, _, n)) = base.v2_layout() {
        rec.label(format!("aead-chunks:{}", n.min(4)));
    }
    Ok(base)
}

fn draw_opener(t: &mut Tape, cfg: &MsgConfig) -> Opener {
    if t.chance(170) {
        Opener::SessionKey
    } else {
        Opener::draw(t, cfg)
    }
}

fn draw_mode(t: &mut Tape) -> Mode {
    match t.below(4) {
        0 => Mode::Streaming,
        1 => Mode::CheckFirstSmallLimit,
        _ => Mode::Default,
    }
}

fn sampled_case(t: &mut Tape, rec: &mut Rec) -> CaseResult {
    let class = t.below(10);
    let force_cs = if class == 9 { Some(t.range(0, 16) as u8) } else { None };
    let base = draw_base(t, rec, force_cs)?;
    control(&base)?;
    let body = base.body().to_vec();
    let n = body.len();
    let mut after: Vec<u8> = vec![];
    let (mutated, what): (Vec<u8>, String) = match class {
        0 | 1 => {
            // bit flip: bias to first/last bytes of chunks, tags, header
            let pos = match t.below(5) {
                0 => t.below(n.min(40)),
                1 => n - 1 - t.below(n.min(40)),
                2 => {
                    if let Some((h, cs, nc)) = base.v2_layout() {
                        let c = t.below(nc.max(1));
                        (h + c * (cs + 16) + *t.pick(&[0usize, 1, cs.saturating_sub(1), cs, cs + 15])).min(n - 1)
                    } else {
                        t.below(n)
                    }
                }
                _ => t.below(n),
            };
            let bit = t.below(8);
            let mut b = body.clone();
            b[pos] ^= 1 << bit;
            rec.label("mut:bitflip");
            (b, format!("bit {bit} of byte {pos}/{n} flipped"))
        }
        2 => {
            let off = if t.bool() { t.below(n) } else { n - 1 - t.below(n.min(60)) };
            rec.label("mut:truncate");
            (body[..off].to_vec(), format!("truncated to {off} of {n} bytes"))
        }
        3 => {
            let k = t.range(1, 40);
            let mut b = body.clone();
            let extra = if t.bool() { vec![0u8; k] } else { expand(t.u64(), k) };
            b.extend_from_slice(&extra);
            rec.label("mut:append-inside");
            (b, format!("{k} bytes appended inside the packet"))
        }
        4 => {
            // chunk surgery (SEIPDv2) / block surgery (SEIPDv1)
            if let Some((h, cs, nc)) = base.v2_layout() {
                let cl = cs + 16;
                let chunks: Vec<&[u8]> = (0..nc).map(|i| &body[h + i * cl..(h + (i + 1) * cl).min(n - 16)]).collect();
                let fin = &body[n - 16..];
                let op = t.below(8);
                let mut order: Vec<usize> = (0..nc).collect();
                let mut fin_v = fin.to_vec();
                let desc;
                match op {
                    0 if nc >= 1 => {
                        let i = t.below(nc);
                        order.remove(i);
                        desc = format!("chunk {i} of {nc} dropped");
                    }
                    1 if nc >= 1 => {
                        let i = t.below(nc);
                        order.insert(i, i);
                        desc = format!("chunk {i} of {nc} duplicated");
                    }
                    2 if nc >= 2 => {
                        let i = t.below(nc);
                        let j = (i + 1 + t.below(nc - 1)) % nc;
                        order.swap(i, j);
                        desc = format!("chunks {i} and {j} of {nc} swapped");
                    }
                    3 if nc >= 2 => {
                        order.rotate_left(1);
                        desc = format!("{nc} chunks rotated");
                    }
                    4 if nc >= 1 => {
                        // truncation attack: drop the last chunk, keep the final tag
                        order.pop();
                        desc = format!("last of {nc} chunks dropped, final tag kept");
                    }
                    5 if nc >= 1 => {
                        // final tag replaced by the tag of the last chunk
                        let last = chunks[nc - 1];
                        fin_v = last[last.len() - 16..].to_vec();
                        desc = "final tag replaced by last chunk tag".to_string();
                    }
                    6 => {
                        fin_v = vec![];
                        desc = "final tag removed".to_string();
                    }
                    _ => {
                        fin_v.extend_from_slice(fin);
                        desc = "final tag duplicated".to_string();
                    }
                }
                let mut b = body[..h].to_vec();
                for i in order {
                    b.extend_from_slice(chunks[i]);
                }
                b.extend_from_slice(&fin_v);
                rec.label("mut:aead-chunk-surgery");
                (b, desc)
            } else {
                // v1: swap / duplicate / drop a cipher block
                let bs = 16usize;
                let nb = (n - 1) / bs;
                if nb < 2 {
                    let mut b = body.clone();
                    b[n - 1] ^= 0x80;
                    (b, "last byte flipped".to_string())
                } else {
                    let i = t.below(nb);
                    let j = t.below(nb);
                    let mut b = body.clone();
                    match t.below(3) {
                        0 => {
                            let blk: Vec<u8> = b[1 + i * bs..1 + (i + 1) * bs].to_vec();
                            let pos = 1 + j * bs;
                            b.splice(pos..pos, blk);
                            rec.label("mut:cfb-block-surgery");
                            (b, format!("cipher block {i} duplicated at {j}"))
                        }
                        1 => {
                            b.drain(1 + i * bs..1 + (i + 1) * bs);
                            rec.label("mut:cfb-block-surgery");
                            (b, format!("cipher block {i} dropped"))
                        }
                        _ => {
                            if i == j {
                                b[1 + i * bs] ^= 1;
                            } else {
                                for k in 0..bs {
                                    b.swap(1 + i * bs + k, 1 + j * bs + k);
                                }
                            }
                            rec.label("mut:cfb-block-surgery");
                            (b, format!("cipher blocks {i},{j} swapped"))
                        }
                    }
                }
            }
        }
        5 => {
            // SEIPDv1 MDC area / SEIPDv2 tags: flip each of the last bytes
            let k = t.below(n.min(38));
            let mut b = body.clone();
            b[n - 1 - k] ^= 1 << t.below(8);
            rec.label("mut:tail-flip");
            (b, format!("bit flipped {k} bytes before the end"))
        }
        6 => {
            let k = t.range(1, 20);
            after = if t.bool() { vec![0u8; k] } else { expand(t.u64(), k) };
            // keep the first appended octet from forming a valid packet header by accident
            after[0] &= 0x7f;
            rec.label("mut:append-after-packet");
            (body.clone(), format!("{k} non-packet bytes appended after the container"))
        }
        7 | 8 | 9 => {
            // header field substitution
            let mut b = body.clone();
            let v2 = b[0] == 2;
            let nfields = if v2 { 5 } else { 1 };
            let f = t.below(nfields);
            let (pos, name) = match f {
                0 => (0usize, "version"),
                1 => (1, "cipher"),
                2 => (2, "aead"),
                3 => (3, "chunk-size"),
                _ => (4 + t.below(32), "salt"),
            };
            let pos = if class == 9 && v2 { 3 } else { pos };
            let name = if class == 9 && v2 { "chunk-size" } else { name };
            let old = b[pos];
            let mut new = t.u8();
            if new == old {
                new = old.wrapping_add(1);
            }
            b[pos] = new;
            rec.label(format!("mut:header-{name}"));
            (b, format!("header field {name} (offset {pos}) {old:#x} -> {new:#x}"))
        }
        _ => unreachable!(),
    };
    if mutated == body && after.is_empty() {
        rec.discard();
        return Ok(());
    }
    let opener = draw_opener(t, &base.cfg);
    let cons = Consumer::draw(t);
    let mode = draw_mode(t);
    let sched = Sched::draw(t, n, &[36, 512, 8192]);
    rec.label(format!("mode:{mode:?}"));
    rec.nontrivial((format!("{:?}", base.cfg.enc), base.payload.len(), what.clone()));
    rec.describe(|| format!("{} | payload {} bytes, body {} bytes | {what} | opener {opener:?} consumer {cons:?} mode {mode:?}", base.cfg.describe(), base.payload.len(), n));
    let bytes = base.reassemble(&mutated, &after);
    let a = attempt(&base.cfg, &bytes, &opener, cons, mode, sched);
    judge(rec, &base, &a, mode, &what);
    Ok(())
}


// ---------------------------------------------------------------------------------------------
// SEIPDv2: surgery behind the last genuine chunk, plaintext stream on / next to a chunk boundary
// ---------------------------------------------------------------------------------------------

const TAIL_AEADS: usize = 3;
const TAIL_CS: [u8; 2] = [0, 1];
const TAIL_LENS: usize = 9;
const TAIL_OPS: usize = 20;
const TAIL_CONS: usize = 4;

fn tail_count() -> u64 {
    (TAIL_AEADS * TAIL_CS.len() * TAIL_LENS * TAIL_OPS * TAIL_CONS) as u64
}

fn tail_surgery_case(t: &mut Tape, rec: &mut Rec) -> CaseResult {
    let mut i = t.u64() as usize;
    let mut take = |n: usize| {
        let r = i % n;
        i /= n;
        r
    };
    let cons_i = take(TAIL_CONS);
    let op = take(TAIL_OPS);
    let len_i = take(TAIL_LENS);
    let cs_octet = TAIL_CS[take(TAIL_CS.len())];
    let aead = AEADS[take(TAIL_AEADS)];
    let cs = 1usize << (cs_octet as usize + 6);
    // length of the encrypted packet stream (literal packet incl. its header): k*cs + d
    let k = 1 + len_i / 3;
    let d = [-1isize, 0, 1][len_i % 3];
    let stream = (k * cs) as isize + d;
    // literal packet = 1 tag + 1 or 2 length octets + 6 + payload
    let payload_len = if stream - 8 < 192 { stream - 8 } else { stream - 9 } as usize;
    let mut cfg = MsgConfig::plain();
    cfg.enc = Enc::V2(SymmetricKeyAlgorithm::AES128, aead, cs_octet);
    cfg.seed = [(len_i * 7 + op) as u8; 32];
    let base = Base::build(cfg, expand(0x7A11 + len_i as u64, payload_len)).map_err(|e| crate::engine::Fail { sig: "C03:base-build-error".into(), detail: e })?;
    control(&base)?;
    let body = base.body().to_vec();
    let n = body.len();
    let Some((h, _, nc)) = base.v2_layout() else {
        return fail("C03:harness-layout", "no SEIPDv2 layout");
    };
    let cl = cs + 16;
    let chunk = |j: usize| body[h + j * cl..(h + (j + 1) * cl).min(n - 16)].to_vec();
    let fin = body[n - 16..].to_vec();
    let head = body[..n - 16].to_vec();
    let last = chunk(nc - 1);
    let junk = |m: usize| expand(0xBAD + op as u64, m);
    let (mutated, what): (Vec<u8>, String) = match op {
        0 => ([head.clone(), last.clone(), fin.clone()].concat(), "last chunk duplicated before the final tag".into()),
        1 => ([head.clone(), last.clone(), last.clone(), fin.clone()].concat(), "last chunk duplicated twice before the final tag".into()),
        2 => ([head.clone(), chunk(0), fin.clone()].concat(), "first chunk repeated before the final tag".into()),
        3 => ([head.clone(), fin.clone(), last.clone()].concat(), "last chunk repeated after the final tag".into()),
        4 => ([head.clone(), fin.clone(), fin.clone()].concat(), "final tag duplicated".into()),
        5 => ([head.clone(), fin.clone(), last.clone(), fin.clone()].concat(), "last chunk and final tag repeated after the final tag".into()),
        6 => (head.clone(), "final tag removed".into()),
        7 => ([head[..head.len() - last.len()].to_vec(), fin.clone()].concat(), "last chunk removed, final tag kept".into()),
        _ => {
            let r = [1usize, 15, 16, 17, cs - 1, cs, cs + 1, cs + 15, cs + 16, cs + 17, 2 * cs + 15, 2 * cs + 16][op - 8];
            ([body.clone(), junk(r)].concat(), format!("{r} bytes appended inside the packet after the final tag"))
        }
    };
    let cons = match cons_i {
        0 => Consumer::ReadToEnd,
        1 => Consumer::Fixed(1),
        2 => Consumer::Fixed(cs),
        _ => Consumer::Fixed(4096),
    };
    rec.label(format!("tail:{}", what.split(' ').take(3).collect::<Vec<_>>().join("-")));
    rec.label(format!("tail:stream=k*cs{:+}", d));
    rec.nontrivial((format!("{aead:?}"), cs, stream, op, cons_i));
    rec.describe(|| format!("SEIPDv2 {aead:?} chunk {cs}: packet stream of {stream} bytes ({nc} chunks) | {what} | consumer {cons:?}"));
    let bytes = base.reassemble(&mutated, &[]);
    let a = attempt(&base.cfg, &bytes, &Opener::SessionKey, cons, Mode::Default, Sched::whole());
    judge(rec, &base, &a, Mode::Default, &what);
    Ok(())
}


// ---------------------------------------------------------------------------------------------
// SEIPDv1: every payload length around the decryptor's 8 KiB refills x tail tampering x read modes
// ---------------------------------------------------------------------------------------------

const EDGE_WINDOW: usize = 100;
const EDGE_MUTS: usize = 4;
const EDGE_MODES: [Mode; 2] = [Mode::Streaming, Mode::Default];

fn v1_edge_count(ks: usize) -> u64 {
    (ks * EDGE_WINDOW * EDGE_MUTS * EDGE_MODES.len()) as u64
}

fn v1_buffer_edge_case(t: &mut Tape, rec: &mut Rec) -> CaseResult {
    let mut i = t.u64() as usize;
    let mut take = |n: usize| {
        let r = i % n;
        i /= n;
        r
    };
    let mode = EDGE_MODES[take(EDGE_MODES.len())];
    let mutation = take(EDGE_MUTS);
    let off = take(EDGE_WINDOW);
    let k = 1 + i;
    // payload lengths 8192*k - 70 .. 8192*k + 29: the encrypted stream adds the literal header,
    // the 18-octet prefix and the 22-octet MDC, so this window covers every alignment of its end
    let len = 8192 * k + off - 70;
    let mut cfg = MsgConfig::plain();
    cfg.enc = Enc::V1(SymmetricKeyAlgorithm::AES128);
    cfg.seed = [(off % 251) as u8; 32];
    let base = Base::build(cfg, expand(0xED6E + len as u64, len)).map_err(|e| crate::engine::Fail { sig: "C03:base-build-error".into(), detail: e })?;
    let body = base.body().to_vec();
    let n = body.len();
    let mut b = body.clone();
    let what = match mutation {
        0 => {
            b[n - 1] ^= 1;
            "last MDC octet flipped".to_string()
        }
        1 => {
            b[n - 21] ^= 0x80;
            "MDC hash first octet flipped".to_string()
        }
        2 => {
            b[n - 23] ^= 4;
            "last payload octet flipped".to_string()
        }
        _ => {
            b.truncate(n - 1);
            "container truncated by one octet".to_string()
        }
    };
    rec.label(format!("v1-edge:{mode:?}"));
    rec.nontrivial((len, mutation, format!("{mode:?}")));
    rec.describe(|| format!("SEIPDv1 AES128, payload {len} bytes (body {n} bytes) | {what} | mode {mode:?}"));
    let bytes = base.reassemble(&b, &[]);
    let cons = if off % 2 == 0 { Consumer::ReadToEnd } else { Consumer::Fixed(4096) };
    let a = attempt(&base.cfg, &bytes, &Opener::SessionKey, cons, mode, Sched::whole());
    judge(rec, &base, &a, mode, &what);
    Ok(())
}

/// fixed list of small base messages for the exhaustive scope
fn small_bases(thorough: bool) -> Vec<Base> {
    let mut v = vec![];
    let mut seed = 1u8;
    let mut add = |enc: Enc, len: usize, comp: bool| {
        let mut cfg = MsgConfig::plain();
        cfg.enc = enc;
        cfg.seed = [seed; 32];
        seed = seed.wrapping_add(1);
        if comp {
            cfg.compression = Some(pgp::types::CompressionAlgorithm::ZIP);
        }
        let payload = expand(seed as u64, len);
        v.push(Base::build(cfg, payload).expect("small base"));
    };
    for a in AEADS {
        for len in [0usize, 1, 57, 58, 59, 130] {
            // literal header is 6 bytes + 2 bytes packet header: 58+8 = 66 > 64 => 2 chunks
            add(Enc::V2(SymmetricKeyAlgorithm::AES128, a, 0), len, false);
        }
    }
    add(Enc::V2(SymmetricKeyAlgorithm::AES256, pgp::crypto::aead::AeadAlgorithm::Ocb, 1), 200, false);
    add(Enc::V2(SymmetricKeyAlgorithm::AES192, pgp::crypto::aead::AeadAlgorithm::Gcm, 0), 100, true);
    for c in [SymmetricKeyAlgorithm::AES128, SymmetricKeyAlgorithm::CAST5, SymmetricKeyAlgorithm::Twofish] {
        for len in [0usize, 1, 33] {
            add(Enc::V1(c), len, false);
        }
    }
    add(Enc::V1(SymmetricKeyAlgorithm::AES256), 150, true);
    if thorough {
        for c in CIPHERS {
            add(Enc::V1(c), 70, false);
        }
        for a in AEADS {
            for c in AES {
                add(Enc::V2(c, a, 0), 140, false);
                add(Enc::V2(c, a, 2), 300, false);
            }
        }
    }
    v
}

pub fn run(ctx: &Ctx) {
    ctx.set_rule("base messages built by rPGP (SEIPDv1 x 11 ciphers, SEIPDv2 x 9 AEAD/cipher pairs x chunk sizes, plaintext lengths around 0..3 chunks / the 8 KiB buffer), SEIPD body extracted and re-framed by the harness' own framer; mutation classes: bit flip, truncation, append inside/after, AEAD chunk drop/dup/swap/rotate/truncation-attack/tag surgery, CFB block surgery, header field substitution (version, cipher, AEAD, chunk size, salt); consumer = read_to_end | fixed | alternating | exact; SEIPDv1 modes default/check-first/streaming; tail-surgery group (enumerated): SEIPDv2 x 3 AEAD modes x chunk 64/128 x encrypted packet stream of k*chunk-1, k*chunk, k*chunk+1 bytes (k = 1..3) x 20 manipulations behind the last genuine chunk (chunk / final-tag duplication, repetition, removal, 1..2*chunk+16 bytes appended inside the packet) x 4 consumers; SEIPDv1 buffer-edge group (enumerated): every payload length 8192k-70..8192k+29 (k = 1..2, thorough 1..5) x {MDC / last payload octet flip, truncation by one} x {streaming, default} read mode; exhaustive group: every single-bit flip and every truncation offset of the listed small messages; non-trivial = container differs from the original; distinct = (config, plaintext length, mutation)");
    ctx.assume("positive control: the unmodified, re-framed message round-trips (otherwise the case fails as control failure)");
    ctx.assume("forgery probability of the primitives (2^-128 tags, SHA-1 MDC) is not reachable by the generator");
    zoo::warm(&[Kind::Ed25519V4, Kind::Ed25519V6]);
    let thorough = ctx.tier == Tier::Thorough;
    let n = ctx.tier.pick(20_000u64, 1_600_000);
    ctx.group("sampled-mutations", Source::Random { n, tape_len: 200 }, sampled_case);
    ctx.group("seipdv2-tail-surgery-at-chunk-boundaries", Source::Indexed { count: tail_count() }, tail_surgery_case);
    let ks = ctx.tier.pick(2usize, 5);
    ctx.group("seipdv1-tail-tampering-at-buffer-edges", Source::Indexed { count: v1_edge_count(ks) }, v1_buffer_edge_case);

    let bases = small_bases(thorough);
    let offsets: Vec<u64> = {
        let mut acc = 0u64;
        let mut v = vec![0u64];
        for b in &bases {
            acc += b.body().len() as u64 + 1;
            v.push(acc);
        }
        v
    };
    let total = *offsets.last().unwrap();
    ctx.note("exhaustive_small_messages", serde_json::json!(bases.iter().map(|b| format!("{:?} payload {} body {}", b.cfg.enc, b.payload.len(), b.body().len())).collect::<Vec<_>>()));
    // quick: every 3rd position (rotating with the seed) of the smaller base list; thorough: all positions
    let stride = if thorough { 1 } else { 3 };
    let phase = ctx.seed % stride;
    ctx.group("exhaustive-bitflips-and-truncations", Source::Indexed { count: total.div_ceil(stride) }, |t, rec| {
        let idx = t.u64() * stride + phase;
        if idx >= total {
            rec.discard();
            return Ok(());
        }
        let bi = offsets.partition_point(|&o| o <= idx) - 1;
        let base = &bases[bi];
        let pos = (idx - offsets[bi]) as usize;
        let body = base.body();
        let n = body.len();
        if pos == 0 {
            control(base)?;
        }
        rec.describe(|| format!("{:?} payload {} bytes: all 8 bit flips of body byte {pos}/{n} and truncation to {pos} bytes", base.cfg.enc, base.payload.len()));
        rec.nontrivial((bi, pos));
        let cons = [Consumer::ReadToEnd, Consumer::Fixed(1), Consumer::Fixed(7), Consumer::Fixed(4096)][(pos + bi) % 4];
        let mode = [Mode::Default, Mode::Streaming][(pos / 4 + bi) % 2];
        let mut evals = 0;
        if pos < n {
            for bit in 0..8 {
                let mut b = body.to_vec();
                b[pos] ^= 1 << bit;
                let bytes = base.reassemble(&b, &[]);
                let a = attempt(&base.cfg, &bytes, &Opener::SessionKey, cons, mode, Sched::whole());
                judge(rec, base, &a, mode, &format!("bit {bit} of byte {pos}/{n} flipped"));
                evals += 1;
            }
        }
        // truncation to `pos` bytes (pos == n is the unmodified message: skipped)
        if pos < n {
            let bytes = base.reassemble(&body[..pos], &[]);
            let a = attempt(&base.cfg, &bytes, &Opener::SessionKey, cons, mode, Sched::whole());
            judge(rec, base, &a, mode, &format!("truncated to {pos} of {n} bytes"));
            evals += 1;
        }
        rec.add_evals(evals);
        Ok(())
    });
    ctx.note("exhaustive_scope", serde_json::json!(if thorough { "every single-bit flip and truncation offset of the listed small messages" } else { "every third byte position (phase = seed mod 3) of the listed small messages: all 8 bit flips + truncation" }));
}
