//! C13 — fingerprints and key IDs are the RFC-defined hashes and are stable.

use pgp::composed::{Deserializable, DetachedSignature, EncryptionCaps, KeyType, SecretKeyParamsBuilder, SignedPublicKey, SignedSecretKey, SubkeyParamsBuilder};
use pgp::crypto::ecc_curve::ECCCurve;
use pgp::crypto::hash::HashAlgorithm;
use pgp::packet::{Packet, PacketParser};
use pgp::ser::Serialize;
use pgp::types::{KeyDetails, KeyVersion, Password, Timestamp};
use rand::SeedableRng;
use rand_chacha::ChaCha8Rng;

use crate::engine::{expand, fail, CaseResult, Ctx, Fail, Rec, Source, Tape};
use crate::msg::{Enc, MsgConfig};
use crate::refimpl::crypto as rc;
use crate::refimpl::keys;
use crate::refimpl::pkesk::parse_pkesk;
use crate::refimpl::sigparse::{parse_sig, SigFields};
use crate::refimpl::wire::{self, mpi};
use crate::zoo;

fn f(sig: &str, d: impl Into<String>) -> Fail {
    Fail { sig: sig.to_string(), detail: d.into() }
}

/// reference (fingerprint, key id) of a key packet body
fn ref_ids(body: &[u8], secret: bool) -> Option<(Vec<u8>, Vec<u8>, u8)> {
    let kb = keys::parse_key(body, secret)?;
    if kb.version <= 3 {
        // MD5 over the magnitudes of n and e
        let nb = u16::from_be_bytes([kb.public[0], kb.public[1]]) as usize;
        let nl = nb.div_ceil(8);
        let n = &kb.public[2..2 + nl];
        let eb = u16::from_be_bytes([kb.public[2 + nl], kb.public[3 + nl]]) as usize;
        let e = &kb.public[4 + nl..4 + nl + eb.div_ceil(8)];
        let (fp, mut id) = rc::v3_fingerprint(n, e);
        while id.len() < 8 {
            id.insert(0, 0);
        }
        return Some((fp, id, kb.version));
    }
    let fp = rc::fingerprint(kb.version, &kb.public_body);
    let id = rc::key_id(kb.version, &fp);
    Some((fp, id, kb.version))
}

fn check_key_packets(rec: &mut Rec, what: &str, bytes: &[u8]) -> CaseResult {
    let raws = wire::split_packets(bytes).map_err(|e| f("C13:serialization-does-not-deframe", e))?;
    let mut parsed = PacketParser::new(bytes);
    for rp in &raws {
        let p = match parsed.next() {
            Some(Ok(p)) => p,
            Some(Err(e)) => return fail("C13:own-serialization-rejected", format!("{what}: {e}")),
            None => return fail("C13:own-serialization-rejected", format!("{what}: parser ended early")),
        };
        if !matches!(rp.tag, 5 | 6 | 7 | 14) {
            continue;
        }
        let secret = matches!(rp.tag, 5 | 7);
        let Some((fp, id, ver)) = ref_ids(&rp.body, secret) else {
            return fail("C13:reference-key-parse", format!("{what}: tag {}", rp.tag));
        };
        let (got_fp, got_id): (Vec<u8>, Vec<u8>) = match &p {
            Packet::PublicKey(k) => (k.fingerprint().as_bytes().to_vec(), k.legacy_key_id().as_ref().to_vec()),
            Packet::PublicSubkey(k) => (k.fingerprint().as_bytes().to_vec(), k.legacy_key_id().as_ref().to_vec()),
            Packet::SecretKey(k) => (k.fingerprint().as_bytes().to_vec(), k.legacy_key_id().as_ref().to_vec()),
            Packet::SecretSubkey(k) => (k.fingerprint().as_bytes().to_vec(), k.legacy_key_id().as_ref().to_vec()),
            _ => return fail("C13:packet-type", format!("{what}: tag {} parsed as something else", rp.tag)),
        };
        rec.add_evals(1);
        if got_fp != fp {
            let sig = if ver <= 3 { "C13:v3-fingerprint-differs-from-rfc" } else { "C13:fingerprint-differs-from-rfc" };
            rec.soft_fail(sig, format!("{what} tag {} v{ver}: rPGP {} vs RFC {}", rp.tag, hex::encode(&got_fp), hex::encode(&fp)));
        }
        if got_id != id {
            rec.soft_fail("C13:key-id-differs-from-rfc", format!("{what} tag {} v{ver}: rPGP {} vs RFC {}", rp.tag, hex::encode(&got_id), hex::encode(&id)));
        }
        // secret and public half agree
        if let Packet::SecretKey(k) = &p {
            let pk = k.public_key();
            rec.check(pk.fingerprint().as_bytes() == &fp[..], "C13:public-half-fingerprint-differs", || what.to_string());
        }
        if let Packet::SecretSubkey(k) = &p {
            let pk = k.public_key();
            rec.check(pk.fingerprint().as_bytes() == &fp[..], "C13:public-half-fingerprint-differs", || what.to_string());
        }
    }
    Ok(())
}

fn generated_key_case(t: &mut Tape, rec: &mut Rec) -> CaseResult {
    let shape = t.below(7);
    let (version, prim, sub) = match shape {
        0 => (KeyVersion::V4, KeyType::Ed25519Legacy, KeyType::ECDH(ECCCurve::Curve25519Legacy)),
        1 => (KeyVersion::V4, KeyType::Ed25519, KeyType::X25519),
        2 => (KeyVersion::V6, KeyType::Ed25519, KeyType::X25519),
        3 => (KeyVersion::V4, KeyType::ECDSA(ECCCurve::P256), KeyType::ECDH(ECCCurve::P256)),
        4 => (KeyVersion::V6, KeyType::Ed448, KeyType::X448),
        5 => (KeyVersion::V4, KeyType::ECDSA(ECCCurve::P521), KeyType::ECDH(ECCCurve::P521)),
        _ => (KeyVersion::V4, KeyType::ECDSA(ECCCurve::Secp256k1), KeyType::ECDH(ECCCurve::P384)),
    };
    let created = t.u32();
    let mut rng = ChaCha8Rng::from_seed(t.seed32());
    let mut b = SecretKeyParamsBuilder::default();
    b.version(version).key_type(prim.clone()).can_certify(true).can_sign(true).created_at(Timestamp::from_secs(created)).primary_user_id("fp <fp@example.org>".into());
    b.subkey(SubkeyParamsBuilder::default().version(version).key_type(sub).can_encrypt(EncryptionCaps::All).created_at(Timestamp::from_secs(created ^ 0x5555)).build().map_err(|e| f("C13:params", e.to_string()))?);
    let signing_subkey = matches!(shape, 0 | 2 | 3) && t.bool();
    if signing_subkey {
        b.subkey(SubkeyParamsBuilder::default().version(version).key_type(prim.clone()).can_sign(true).created_at(Timestamp::from_secs(created ^ 0x3333)).build().map_err(|e| f("C13:params", e.to_string()))?);
    }
    let key = b.build().map_err(|e| f("C13:params", e.to_string()))?.generate(&mut rng).map_err(|e| f("C13:keygen-error", e.to_string()))?;
    rec.label(format!("generated:{:?}:{:?}", version, prim));
    rec.nontrivial((shape, created, hex::encode(&key.fingerprint().as_bytes()[..4])));
    rec.describe(|| format!("generated {version:?} {prim:?} key created {created}"));
    let sec = key.to_bytes().map_err(|e| f("C13:serialize", e.to_string()))?;
    let pubk = key.to_public_key();
    let pb = pubk.to_bytes().map_err(|e| f("C13:serialize", e.to_string()))?;
    // leading-zero statistics of the public material (measured, reported)
    for rp in wire::split_packets(&pb).unwrap() {
        if matches!(rp.tag, 6 | 14) {
            if let Some(kb) = keys::parse_key(&rp.body, false) {
                let lead = match kb.alg {
                    27 | 25 | 28 | 26 => kb.public.first() == Some(&0),
                    _ => false,
                };
                if lead {
                    rec.label("public-material:leading-zero-octet");
                }
            }
        }
    }
    check_key_packets(rec, "generated secret key", &sec)?;
    check_key_packets(rec, "generated public key", &pb)?;
    // composite accessors
    let fp_ref = ref_ids(&wire::split_packets(&pb).unwrap()[0].body, false).unwrap();
    rec.check(key.fingerprint().as_bytes() == &fp_ref.0[..] && pubk.fingerprint().as_bytes() == &fp_ref.0[..], "C13:composite-fingerprint-differs", || "SignedSecretKey / SignedPublicKey".into());
    rec.check(key.legacy_key_id().as_ref() == &fp_ref.1[..] && pubk.legacy_key_id().as_ref() == &fp_ref.1[..], "C13:composite-key-id-differs", || "SignedSecretKey / SignedPublicKey".into());
    // re-parsed copies
    match SignedSecretKey::from_bytes(&sec[..]) {
        Ok(k2) => {
            rec.check(k2.fingerprint() == key.fingerprint(), "C13:reparsed-fingerprint-differs", || "secret".into());
        }
        Err(e) => rec.soft_fail("C13:own-serialization-rejected", e.to_string()),
    }
    match SignedPublicKey::from_bytes(&pb[..]) {
        Ok(k2) => {
            rec.check(k2.fingerprint() == key.fingerprint(), "C13:reparsed-fingerprint-differs", || "public".into());
        }
        Err(e) => rec.soft_fail("C13:own-serialization-rejected", e.to_string()),
    }
    // issuer subpackets of the self-signatures the generator made (issuer = primary), and of the
    // embedded primary-key-binding signatures of signing subkeys (issuer = that subkey)
    if signing_subkey {
        rec.label("generated:with-signing-subkey");
    }
    let v = if version == KeyVersion::V6 { 6u8 } else { 4 };
    let mut current_subkey: Option<(Vec<u8>, Vec<u8>, u8)> = None;
    for rp in wire::split_packets(&pb).unwrap() {
        if rp.tag == 14 {
            current_subkey = ref_ids(&rp.body, false);
        }
        if rp.tag == 2 {
            let sf = parse_sig(&rp.body).ok_or_else(|| f("C13:self-signature-does-not-decode", ""))?;
            check_issuer(rec, "generated key self-signature", &sf, v, &fp_ref.0, &fp_ref.1, true);
            if let Some((sfp, sid, _)) = &current_subkey {
                for area in [&sf.hashed, &sf.unhashed] {
                    for (typ, body) in SigFields::subpackets(area).unwrap_or_default() {
                        if typ & 0x7f == 32 {
                            match parse_sig(&body) {
                                Some(esf) => {
                                    rec.label("embedded-back-signature-checked");
                                    check_issuer(rec, "embedded primary key binding signature", &esf, v, sfp, sid, true)
                                }
                                None => rec.soft_fail("C13:embedded-signature-does-not-decode", String::new()),
                            }
                        }
                    }
                }
            }
        }
    }
    Ok(())
}

fn check_issuer(rec: &mut Rec, what: &str, sf: &SigFields, key_version: u8, fp: &[u8], id: &[u8], require_fpr: bool) {
    let mut seen_fpr = false;
    for area in [&sf.hashed, &sf.unhashed] {
        let Some(sps) = SigFields::subpackets(area) else {
            rec.soft_fail("C13:subpacket-area-does-not-decode", what.to_string());
            return;
        };
        for (typ, body) in sps {
            match typ & 0x7f {
                33 => {
                    seen_fpr = true;
                    if body.first() != Some(&key_version) || &body[1..] != fp {
                        rec.soft_fail("C13:embedded-issuer-fingerprint-differs", format!("{what}: subpacket {} vs key v{key_version} {}", hex::encode(&body), hex::encode(fp)));
                    }
                }
                16 => {
                    if body != id {
                        rec.soft_fail("C13:embedded-issuer-key-id-differs", format!("{what}: {} vs {}", hex::encode(&body), hex::encode(id)));
                    }
                    if key_version == 6 {
                        rec.soft_fail("C13:issuer-key-id-subpacket-in-v6-signature", what.to_string());
                    }
                }
                _ => {}
            }
        }
    }
    if require_fpr && !seen_fpr {
        rec.soft_fail("C13:default-signature-lacks-issuer-fingerprint", what.to_string());
    }
}

fn zoo_case(t: &mut Tape, rec: &mut Rec) -> CaseResult {
    let kind = *t.pick(zoo::ALL);
    let z = zoo::get(kind);
    let v = if kind.is_v6() { 6u8 } else { 4 };
    rec.label(format!("zoo:{kind:?}"));
    let which = t.below(4);
    rec.nontrivial((format!("{kind:?}"), which));
    let pb = z.public.to_bytes().unwrap();
    let raws = wire::split_packets(&pb).unwrap();
    let prim = ref_ids(&raws[0].body, false).ok_or_else(|| f("C13:reference-key-parse", format!("{kind:?}")))?;
    match which {
        0 => {
            rec.describe(|| format!("{kind:?}: all key packets of public / secret / locked certificate"));
            check_key_packets(rec, &format!("{kind:?} public"), &pb)?;
            check_key_packets(rec, &format!("{kind:?} secret"), &z.secret.to_bytes().unwrap())?;
            check_key_packets(rec, &format!("{kind:?} locked"), &z.locked.to_bytes().unwrap())?;
            // armored re-parse
            let arm = z.public.to_armored_string(Default::default()).unwrap();
            let (k2, _) = SignedPublicKey::from_string(&arm).map_err(|e| f("C13:own-serialization-rejected", e.to_string()))?;
            rec.check(k2.fingerprint().as_bytes() == &prim.0[..], "C13:reparsed-fingerprint-differs", || format!("{kind:?} armored"));
        }
        1 => {
            // detached signature with default subpackets
            let data = expand(t.u64(), 20);
            let d = DetachedSignature::sign_binary_data(ChaCha8Rng::seed_from_u64(t.u64()), &z.secret.primary_key, &Password::empty(), kind.hashes()[0], &data[..]).map_err(|e| f("C13:sign-error", e.to_string()))?;
            rec.describe(|| format!("{kind:?}: issuer subpackets of a default detached signature"));
            let body = d.signature.to_bytes().unwrap();
            let sf = parse_sig(&body).ok_or_else(|| f("C13:signature-does-not-decode", ""))?;
            check_issuer(rec, "detached signature", &sf, v, &prim.0, &prim.1, true);
        }
        2 => {
            // message builder: OPS + signature
            let mut cfg = MsgConfig::plain();
            cfg.signers = vec![(kind, kind.hashes()[0])];
            // default subpackets, or caller-provided ones with every combination of issuer hints: the
            // one-pass header names the signer whatever the signature's subpackets say
            cfg.fixed_sig_time = t.bool();
            cfg.issuer_hints = t.below(4) as u8;
            let hints = if cfg.fixed_sig_time { cfg.issuer_hints } else { 0 };
            rec.label(format!("ops:issuer-hints={hints}"));
            cfg.seed = t.seed32();
            let bytes = cfg.build(b"hello").map_err(|e| f("C13:builder-error", e.to_string()))?;
            rec.describe(|| format!("{kind:?}: OPS and signature issuer fields of a builder-made message (explicit subpackets: {}, issuer hints {hints})", cfg.fixed_sig_time));
            for rp in wire::split_packets(&bytes).unwrap() {
                match rp.tag {
                    4 => {
                        let b = &rp.body;
                        if b[0] == 3 {
                            rec.check(v == 4 && b[4..12] == prim.1[..], "C13:ops-key-id-differs", || format!("OPS v3 key id {} vs {}", hex::encode(&b[4..12]), hex::encode(&prim.1)));
                        } else if b[0] == 6 {
                            let sl = b[4] as usize;
                            let fp = &b[5 + sl..5 + sl + 32];
                            rec.check(v == 6 && fp == &prim.0[..], "C13:ops-fingerprint-differs", || format!("OPS v6 fingerprint {} vs {}", hex::encode(fp), hex::encode(&prim.0)));
                        } else {
                            rec.soft_fail("C13:ops-version", format!("{}", b[0]));
                        }
                    }
                    2 => {
                        let sf = parse_sig(&rp.body).ok_or_else(|| f("C13:signature-does-not-decode", ""))?;
                        check_issuer(rec, "message signature", &sf, v, &prim.0, &prim.1, hints == 0 || hints == 1);
                    }
                    _ => {}
                }
            }
        }
        _ => {
            // PKESK recipient fields
            if !kind.has_enc_subkey() {
                rec.discard();
                return Ok(());
            }
            let sub_raw = raws.iter().find(|p| p.tag == 14).ok_or_else(|| f("C13:no-subkey", ""))?;
            let sub = ref_ids(&sub_raw.body, false).ok_or_else(|| f("C13:reference-key-parse", "subkey"))?;
            for v2 in [false, true] {
                let mut cfg = MsgConfig::plain();
                cfg.enc = if v2 { Enc::V2(pgp::crypto::sym::SymmetricKeyAlgorithm::AES128, pgp::crypto::aead::AeadAlgorithm::Ocb, 0) } else { Enc::V1(pgp::crypto::sym::SymmetricKeyAlgorithm::AES128) };
                cfg.recipients = vec![(kind, false)];
                cfg.seed = t.seed32();
                let bytes = cfg.build(b"hello").map_err(|e| f("C13:builder-error", e.to_string()))?;
                let raws = wire::split_packets(&bytes).unwrap();
                let pk = raws.iter().find(|p| p.tag == 1).ok_or_else(|| f("C13:no-pkesk", ""))?;
                let pbody = parse_pkesk(&pk.body).ok_or_else(|| f("C13:pkesk-does-not-decode", ""))?;
                if v2 {
                    let want: Vec<u8> = [&[sub.2][..], &sub.0[..]].concat();
                    rec.check(pbody.recipient == want, "C13:pkesk-v6-recipient-differs", || format!("{} vs {}", hex::encode(&pbody.recipient), hex::encode(&want)));
                } else {
                    rec.check(pbody.recipient == sub.1, "C13:pkesk-v3-key-id-differs", || format!("{} vs {}", hex::encode(&pbody.recipient), hex::encode(&sub.1)));
                }
            }
            // several recipients, named and anonymous in a drawn order: every PKESK carries the
            // identity of *its* recipient (or the wildcard), in the order the recipients were added
            let pool: Vec<crate::zoo::Kind> = zoo::CHEAP_RECIPIENTS.iter().copied().collect();
            let n_rcpt = t.range(2, 4);
            let mut rcpts: Vec<(crate::zoo::Kind, bool)> = vec![(kind, t.bool())];
            // (bounded: an exhausted tape keeps drawing the same element)
            let start = t.below(pool.len());
            for j in 0..pool.len() {
                if rcpts.len() >= n_rcpt {
                    break;
                }
                let k = pool[(start + j) % pool.len()];
                if !rcpts.iter().any(|(x, _)| *x == k) {
                    rcpts.push((k, t.bool()));
                }
            }
            // put the original recipient at a drawn position
            let pos = t.below(rcpts.len());
            rcpts.swap(0, pos);
            for v2 in [false, true] {
                let mut cfg = MsgConfig::plain();
                cfg.enc = if v2 { Enc::V2(pgp::crypto::sym::SymmetricKeyAlgorithm::AES128, pgp::crypto::aead::AeadAlgorithm::Ocb, 0) } else { Enc::V1(pgp::crypto::sym::SymmetricKeyAlgorithm::AES128) };
                cfg.recipients = rcpts.clone();
                cfg.seed = t.seed32();
                let bytes = cfg.build(b"hello").map_err(|e| f("C13:builder-error", e.to_string()))?;
                let raws = wire::split_packets(&bytes).unwrap();
                let pkesks: Vec<_> = raws.iter().filter(|p| p.tag == 1).collect();
                if pkesks.len() != rcpts.len() {
                    rec.soft_fail("C13:pkesk-count-differs", format!("{} recipients, {} PKESK packets", rcpts.len(), pkesks.len()));
                    continue;
                }
                for (pk, (rk, anon)) in pkesks.iter().zip(rcpts.iter()) {
                    let zr = zoo::get(*rk);
                    let sub_bytes = zr.public.public_subkeys[0].key.to_bytes().map_err(|e| f("C13:serialize", e.to_string()))?;
                    let sub = ref_ids(&sub_bytes, false).ok_or_else(|| f("C13:reference-key-parse", "recipient subkey"))?;
                    let pbody = parse_pkesk(&pk.body).ok_or_else(|| f("C13:pkesk-does-not-decode", ""))?;
                    let want: Vec<u8> = match (v2, *anon) {
                        (true, false) => [&[sub.2][..], &sub.0[..]].concat(),
                        (true, true) => vec![],
                        (false, false) => sub.1.clone(),
                        (false, true) => vec![0u8; 8],
                    };
                    rec.check(pbody.recipient == want, if *anon { "C13:anonymous-recipient-pkesk-not-wildcard" } else { "C13:pkesk-recipient-field-differs-in-multi-recipient-message" }, || format!("recipients {rcpts:?}, PKESK v{} for {rk:?} (anonymous: {anon}): field {} expected {}", if v2 { 6 } else { 3 }, hex::encode(&pbody.recipient), hex::encode(&want)));
                }
            }
            rec.label(format!("pkesk:recipients={}", rcpts.len()));
            rec.describe(|| format!("{kind:?}: PKESK v3 key id / v6 versioned fingerprint of the encryption subkey, alone and among {rcpts:?}"));
        }
    }
    Ok(())
}

/// keys assembled by R-wire: v3 RSA (several modulus sizes), v4/v6 with odd creation times
fn wire_key_case(t: &mut Tape, rec: &mut Rec) -> CaseResult {
    let version = *t.pick(&[3u8, 3, 4, 6]);
    let nbytes = *t.pick(&[128usize, 256, 384, 129, 255]);
    // real RSA moduli are not needed for hashing, but rPGP validates the key on parse: use a
    // product-looking odd number with the top bit set
    let mut n = expand(t.u64(), nbytes);
    n[0] |= 0x80;
    if t.chance(40) {
        n[0] = 0x01;
    }
    n[nbytes - 1] |= 1;
    let e: Vec<u8> = if t.bool() { vec![1, 0, 1] } else { vec![0x11] };
    let mut params = mpi(&n);
    params.extend_from_slice(&mpi(&e));
    let body = crate::refimpl::gen::public_key_body(version, t.u32(), 1, &params);
    let pkt = wire::new_packet(6, &body);
    rec.label(format!("wire-built:v{version}"));
    rec.describe(|| format!("R-wire built v{version} RSA public key, modulus {} bytes (first octet {:#x})", nbytes, n[0]));
    let parsed = PacketParser::new(&pkt[..]).next();
    match parsed {
        Some(Ok(Packet::PublicKey(k))) => {
            rec.nontrivial((version, hex::encode(&n[..6])));
            let (fp, id, _) = ref_ids(&body, false).ok_or_else(|| f("C13:reference-key-parse", "wire key"))?;
            let got = k.fingerprint().as_bytes().to_vec();
            if got != fp {
                let sig = if version <= 3 { "C13:v3-fingerprint-differs-from-rfc" } else { "C13:fingerprint-differs-from-rfc" };
                rec.soft_fail(sig, format!("v{version} RSA-{}: rPGP {} vs RFC {}", nbytes * 8, hex::encode(&got), hex::encode(&fp)));
            }
            let gid = k.legacy_key_id().as_ref().to_vec();
            rec.check(gid == id, "C13:key-id-differs-from-rfc", || format!("v{version}: {} vs {}", hex::encode(&gid), hex::encode(&id)));
        }
        _ => {
            rec.label("wire-built:rejected");
        }
    }
    Ok(())
}

pub fn run(ctx: &Ctx) {
    ctx.set_rule("keys: all zoo certificates (17 keys x public/secret/locked, primary and subkeys), freshly generated keys of 7 shapes with random creation times, R-wire built RSA keys v3/v4/v6 with several modulus sizes; oracle: fingerprint()/legacy_key_id() on every key packet type and composite == reference (v3 MD5 of n,e magnitudes; v4 SHA-1 over 0x99 framing; v6 SHA-256 over 0x9B framing; key id low/high 64 bits), equal for secret key, public half and re-parsed (binary and armored) copies; embedded values decoded by R-wire (issuer fingerprint / key id subpackets of default signatures and self-signatures, OPS v3/v6, PKESK v3/v6 recipient) equal the reference of the key used; non-trivial = every key; distinct = (key, view)");
    ctx.assume("key packet bodies are taken from rPGP's serialization and de-framed/decoded by the harness; the hash functions are RustCrypto's");
    zoo::warm(zoo::ALL);
    let n = ctx.tier.pick(1500u64, 800_000);
    ctx.group("generated-keys", Source::Random { n, tape_len: 96 }, generated_key_case);
    let n = ctx.tier.pick(1200u64, 400_000);
    ctx.group("zoo-keys-and-embedded-ids", Source::Random { n, tape_len: 96 }, zoo_case);
    let n = ctx.tier.pick(1500u64, 600_000);
    ctx.group("wire-built-keys", Source::Random { n, tape_len: 64 }, wire_key_case);
    let _ = HashAlgorithm::Sha256;
}
