//! C04 — hostile input never panics: every processing entry point returns Ok or Err.
//!
//! All cases run in worker processes on 2 MiB stacks (engine: group_isolated), so panics, aborts,
//! stack exhaustion and failed allocations are all observed and attributed to a case.

use std::io::Read;

use rand::SeedableRng;

use pgp::armor::Dearmor;
use pgp::composed::{Any, CleartextSignedMessage, DecryptionOptions, Deserializable, DetachedSignature, Message, PlainSessionKey, RawSessionKey, SignedPublicKey, SignedSecretKey, TheRing};
use pgp::crypto::sym::SymmetricKeyAlgorithm;
use pgp::packet::{Packet, PacketParser};
use pgp::ser::Serialize;
use pgp::types::{KeyDetails, Password, Seipdv1ReadMode};

use crate::engine::{expand, CaseResult, Ctx, Rec, Source, Tape, Tier};
use crate::msg::{Enc, MsgConfig, PwSpec, S2kKind};
use crate::refimpl::crypto::{self as rc, S2k};
use crate::refimpl::gen;
use crate::refimpl::keys;
use crate::refimpl::pkesk;
use crate::refimpl::wire;
use crate::zoo::{self, Kind};

const LIMIT: u64 = 32 << 20;

/// reads to the end (or LIMIT); false when the reader reported an error
fn drain<R: Read>(r: &mut R) -> bool {
    let mut buf = vec![0u8; 16 * 1024];
    let mut total = 0u64;
    loop {
        match r.read(&mut buf) {
            Ok(0) => return true,
            Err(_) => return false,
            Ok(n) => {
                total += n as u64;
                if total > LIMIT {
                    return true;
                }
            }
        }
    }
}

/// natural consumption of a message: peel, read, verify
fn consume_message(rec: &mut Rec, m: Message<'_>, keys: &[Kind]) {
    consume_message_sk(rec, m, keys, None)
}

/// natural consumption: peel compression (and, when the session key is known, further encryption)
/// layers, read, verify
fn consume_message_sk(rec: &mut Rec, m: Message<'_>, keys: &[Kind], sk: Option<&[u8]>) {
    let mut m = m;
    let mut depth = 0;
    loop {
        if m.is_compressed() {
            rec.checkpoint("Message::decompress");
            match m.decompress() {
                Ok(n) => m = n,
                Err(_) => return,
            }
        } else if m.is_encrypted() && sk.is_some() {
            rec.checkpoint("Message::decrypt(inner layer)");
            let key = sk.map(|k| PlainSessionKey::V6 { key: RawSessionKey::from(&k[..k.len().min(16)]) }).expect("some");
            match m.decrypt_with_session_key(key) {
                Ok(n) => m = n,
                Err(_) => return,
            }
        } else {
            break;
        }
        depth += 1;
        if depth > 20_000 {
            return;
        }
    }
    rec.checkpoint("Message::read");
    if !drain(&mut m) {
        // a reader that reported an error is in its terminal state; a caller stops here, and what
        // the accessors do afterwards is not part of the property (DESIGN.md, C04 "not asserted")
        rec.checkpoint("Message::drop");
        return;
    }
    rec.checkpoint("Message::verify");
    for k in keys {
        let _ = m.verify(&zoo::get(*k).public.primary_key);
        let _ = m.verify_nested(&[&zoo::get(*k).public.primary_key]);
    }
    let _ = m.literal_data_header();
    rec.checkpoint("Message::drop");
    drop(m);
}

/// every way a recipient would open a message
fn open_message(rec: &mut Rec, bytes: &[u8], sk: Option<&[u8]>, keys: &[Kind], t: &mut Tape) {
    let pw = Password::from("hostile-pw");
    let kpw = Password::empty();
    for mode in 0..3 {
        rec.checkpoint("Message::from_bytes");
        let parsed = Message::from_bytes(bytes);
        let Ok(m) = parsed else { return };
        if !m.is_encrypted() {
            consume_message(rec, m, keys);
            return;
        }
        let opts = match mode {
            0 => DecryptionOptions::new(),
            1 => DecryptionOptions::new().enable_legacy().enable_gnupg_aead(),
            _ => DecryptionOptions::new().set_seipdv1_read_mode(Seipdv1ReadMode::Streaming).enable_gnupg_aead(),
        };
        let mut ring = TheRing { decrypt_options: opts, ..Default::default() };
        let secrets: Vec<&pgp::composed::SignedSecretKey> = keys.iter().map(|k| &zoo::get(*k).secret).collect();
        ring.secret_keys = secrets;
        ring.key_passwords = vec![&kpw];
        ring.message_password = vec![&pw];
        if let Some(sk) = sk {
            if mode != 0 || t.bool() {
                ring.session_keys = vec![PlainSessionKey::V6 { key: RawSessionKey::from(sk) }, PlainSessionKey::V3_4 { sym_alg: SymmetricKeyAlgorithm::AES128, key: RawSessionKey::from(sk) }, PlainSessionKey::V5 { key: RawSessionKey::from(sk) }];
            }
        }
        rec.checkpoint("Message::decrypt_the_ring");
        let abort_early = mode != 1;
        match m.decrypt_the_ring(ring, abort_early) {
            Ok((m, _)) => consume_message_sk(rec, m, keys, sk),
            Err(_) => {}
        }
    }
}

fn exercise_key_bytes(rec: &mut Rec, bytes: &[u8]) {
    rec.checkpoint("SignedPublicKey::from_bytes_many");
    if let Ok(it) = SignedPublicKey::from_bytes_many(bytes) {
        for k in it.take(8).flatten() {
            rec.checkpoint("SignedPublicKey::verify_bindings");
            let _ = k.verify_bindings();
            rec.checkpoint("SignedPublicKey::serialize");
            let _ = k.to_bytes();
            let _ = k.write_len();
            let _ = k.to_armored_bytes(Default::default());
            let _ = k.fingerprint();
            let _ = k.legacy_key_id();
        }
    }
    rec.checkpoint("SignedSecretKey::from_bytes_many");
    if let Ok(it) = SignedSecretKey::from_bytes_many(bytes) {
        for k in it.take(8).flatten() {
            rec.checkpoint("SignedSecretKey::verify_bindings");
            let _ = k.verify_bindings();
            rec.checkpoint("SignedSecretKey::serialize");
            let _ = k.to_bytes();
            let _ = k.write_len();
            let _ = k.to_public_key().to_bytes();
            rec.checkpoint("SecretKey::unlock");
            for pw in [zoo::LOCK_PW, "", "hostile-pw"] {
                let mut pk = k.primary_key.clone();
                let _ = pk.remove_password(&Password::from(pw));
                for s in &k.secret_subkeys {
                    let mut sk = s.key.clone();
                    let _ = sk.remove_password(&Password::from(pw));
                }
            }
        }
    }
}

fn exercise_any(rec: &mut Rec, bytes: &[u8], t: &mut Tape) {
    rec.checkpoint("PacketParser");
    let mut n = 0;
    for p in PacketParser::new(bytes) {
        n += 1;
        if n > 5000 {
            break;
        }
        if let Ok(p) = p {
            rec.checkpoint("Packet::serialize");
            let _ = p.to_bytes();
            let _ = p.write_len();
            if let Packet::Signature(s) = &p {
                rec.checkpoint("Signature::verify");
                let _ = s.verify(&zoo::get(Kind::Ed25519V4).public.primary_key, &b"data"[..]);
                let _ = s.key_flags();
                let _ = s.embedded_signature();
                let _ = s.issuer_fingerprint();
            }
            if let Packet::SymKeyEncryptedSessionKey(s) = &p {
                rec.checkpoint("SymKeyEncryptedSessionKey::decrypt");
                // the key a caller derives has the size of the announced cipher (any other length is a
                // caller error, not hostile input)
                let kl = s.sym_algorithm().map(|a| a.key_size()).unwrap_or(0);
                let _ = s.decrypt(vec![7u8; kl]);
            }
        }
    }
    exercise_key_bytes(rec, bytes);
    rec.checkpoint("DetachedSignature::from_bytes_many");
    if let Ok(it) = DetachedSignature::from_bytes_many(bytes) {
        for d in it.take(8).flatten() {
            let _ = d.verify(&zoo::get(Kind::Ed25519V4).public.primary_key, b"data");
            let _ = d.to_bytes();
        }
    }
    open_message(rec, bytes, None, &[Kind::Ed25519V4, Kind::RsaV4], t);
    // text based entry points
    rec.checkpoint("Dearmor");
    let mut d = Dearmor::new(bytes);
    let _ = drain(&mut d);
    let s = String::from_utf8_lossy(bytes).to_string();
    rec.checkpoint("CleartextSignedMessage::from_string");
    if let Ok((m, _)) = CleartextSignedMessage::from_string(&s) {
        let _ = m.verify(&zoo::get(Kind::Ed25519V4).public.primary_key);
        let _ = m.signed_text();
        let _ = m.to_armored_string(Default::default());
    }
    rec.checkpoint("Any::from_string");
    if let Ok((a, _)) = Any::from_string(&s) {
        match a {
            Any::Message(m) => consume_message(rec, m, &[Kind::Ed25519V4]),
            Any::PublicKey(k) => {
                let _ = k.verify_bindings();
            }
            Any::SecretKey(k) => {
                let _ = k.verify_bindings();
            }
            _ => {}
        }
    }
    rec.checkpoint("Message::from_string");
    if let Ok((m, _)) = Message::from_string(&s) {
        consume_message(rec, m, &[Kind::Ed25519V4]);
    }
    rec.checkpoint("SignedPublicKey::from_string");
    let _ = SignedPublicKey::from_string(&s).map(|k| k.0.verify_bindings());
    let _ = SignedSecretKey::from_string(&s).map(|k| k.0.verify_bindings());
    let _ = DetachedSignature::from_string(&s);
}

// ---------------------------------------------------------------------------------------------
// (1a) PKESK with attacker-chosen decrypted octets
// ---------------------------------------------------------------------------------------------

fn hostile_pkesk_case(t: &mut Tape, rec: &mut Rec, kinds: &[Kind], li_classes: usize) -> CaseResult {
    let idx = t.u64();
    // enumerate: kind x version x length class x first octet
    let kind = kinds[(idx % kinds.len() as u64) as usize];
    let i = idx / kinds.len() as u64;
    let v6 = i & 1 == 1;
    let i = i >> 1;
    let first = (i & 0xff) as u8;
    let li = (i >> 8) as usize;
    let z = zoo::get(kind);
    let sub = z.secret.secret_subkeys[0].key.to_bytes().unwrap();
    let kb = keys::parse_key(&sub, true).unwrap();
    let fp = rc::fingerprint(kb.version, &kb.public_body);
    let rsa = matches!(kb.alg, 1 | 2 | 3);
    let len = if rsa { if li_classes == 41 { li } else { [0usize, 1, 3, 19, 35, 40][li % 6] } } else { [16usize, 24, 32, 40, 48][li % 5] };
    let sub = expand(idx ^ 0xA11CE, 80);
    let mut m: Vec<u8> = sub[..len].to_vec();
    if !m.is_empty() {
        m[0] = first;
        // last octet doubles as the (PKCS5) padding octet / checksum low octet: sweep it too
        let l = m.len();
        m[l - 1] = sub[70].wrapping_add(first);
    }
    let version = if v6 { 6 } else { 3 };
    rec.label(format!("pkesk:{kind:?}:v{version}"));
    rec.describe(|| format!("PKESK v{version} to {kind:?} whose decrypted octets are attacker chosen: {} bytes, first octet {first:#x}", m.len()));
    let mut seed32 = [0u8; 32];
    seed32[..8].copy_from_slice(&idx.to_le_bytes());
    seed32[9] = 1;
    let Ok(fields) = pkesk::pkesk_hostile_fields(version, &kb, &fp, &m, first, seed32) else {
        rec.discard();
        return Ok(());
    };
    rec.nontrivial((format!("{kind:?}"), v6, m.len(), first));
    let body = pkesk::pkesk_body(version, &kb, &fp, &fields, t.chance(40));
    // a container that matches the ESK version, with garbage and with a "valid" body for the chosen key
    let sk: Vec<u8> = m.iter().skip(if v6 { 0 } else { 1 }).copied().collect();
    let inner = wire::new_packet(11, &wire::literal_body(b'b', b"", 0, b"hi"));
    let container = if v6 {
        let salt: [u8; 32] = [9; 32];
        match rc::seipdv2_encrypt(7, 2, 0, &salt, &sk[..sk.len().min(16)].iter().copied().chain(std::iter::repeat(0)).take(16).collect::<Vec<_>>(), &inner) {
            Ok(b) => wire::new_packet(18, &b),
            Err(_) => wire::new_packet(18, &[2, 7, 2, 0]),
        }
    } else {
        let mut b = vec![1u8];
        b.extend_from_slice(&expand(idx, 60));
        wire::new_packet(18, &b)
    };
    let msg = [wire::new_packet(1, &body), container].concat();
    rec.checkpoint("hostile-pkesk:Message::decrypt");
    open_message(rec, &msg, None, &[kind], t);
    // (quick tier: only where the announced cipher octet is an assigned id or a few others; the
    // thorough tier does it for every first octet)
    if !v6 && (li_classes == 41 || first <= 13 || first % 41 == 0) {
        // the other containers a v3 PKESK may precede: GnuPG OCB (cipher octet = the announced one) and SED
        let mut b = vec![1u8, first, 2, (idx % 7) as u8];
        b.extend_from_slice(&expand(idx ^ 0x0CB, 15 + 48));
        let msg = [wire::new_packet(1, &body), wire::new_packet(20, &b)].concat();
        rec.checkpoint("hostile-pkesk:Message::decrypt(gnupg-aead)");
        open_message(rec, &msg, None, &[kind], t);
        let msg = [wire::new_packet(1, &body), wire::new_packet(9, &expand(idx ^ 0x5ED, 50))].concat();
        rec.checkpoint("hostile-pkesk:Message::decrypt(sed)");
        open_message(rec, &msg, None, &[kind], t);
    }
    // the low level decryption API directly
    rec.checkpoint("hostile-pkesk:DecryptionKey::decrypt");
    if let Some(Ok(Packet::PublicKeyEncryptedSessionKey(p))) = PacketParser::new(&wire::new_packet(1, &body)[..]).next() {
        use pgp::types::DecryptionKey;
        if let Ok(values) = p.values() {
            for typ in [pgp::types::EskType::V3_4, pgp::types::EskType::V6] {
                let _ = z.secret.secret_subkeys[0].key.decrypt(&Password::empty(), values, typ);
                // (unlocking costs an S2K derivation: every case in the thorough tier, one in eight otherwise)
                if li_classes == 41 || idx % 8 == 0 {
                    let _ = z.locked.secret_subkeys[0].key.decrypt(&Password::from(zoo::LOCK_PW), values, typ);
                }
            }
        }
    }
    Ok(())
}

// ---------------------------------------------------------------------------------------------
// (1b) containers with attacker-chosen header octets and attacker-chosen inner packet streams
// ---------------------------------------------------------------------------------------------

fn nest_compressed(inner: Vec<u8>, depth: usize, alg: u8) -> Vec<u8> {
    let mut cur = inner;
    for _ in 0..depth {
        let mut body = vec![alg];
        match alg {
            1 => {
                use std::io::Write;
                let mut e = flate2::write::DeflateEncoder::new(Vec::new(), flate2::Compression::default());
                let _ = e.write_all(&cur);
                body.extend_from_slice(&e.finish().unwrap_or_default());
            }
            _ => body.extend_from_slice(&cur),
        }
        cur = wire::new_packet(8, &body);
    }
    cur
}

fn hostile_inner(t: &mut Tape, rec: &mut Rec, sk: &[u8]) -> Vec<u8> {
    let lit = wire::new_packet(11, &wire::literal_body(b'b', b"", 0, b"payload"));
    match t.below(15) {
        0 => {
            let d = *t.pick(&[1usize, 10, 31, 32, 33, 100, 1000, 4000]);
            rec.label(format!("inner:compressed-nest-{d}"));
            nest_compressed(lit, d, 0)
        }
        1 => {
            let d = *t.pick(&[2usize, 8, 31, 40]);
            rec.label(format!("inner:deflate-nest-{d}"));
            nest_compressed(lit, d, 1)
        }
        2 => {
            rec.label("inner:many-markers");
            let mut v = vec![];
            for _ in 0..*t.pick(&[10usize, 1000, 10_000]) {
                v.extend_from_slice(&wire::new_packet(10, b"PGP"));
            }
            v.extend_from_slice(&lit);
            v
        }
        3 => {
            rec.label("inner:ops-without-signature");
            let g = gen::gen_ops(t);
            [wire::new_packet(4, &g.body), lit].concat()
        }
        4 => {
            rec.label("inner:bad-partial-lengths");
            let mut v = vec![0xCB, 224 + t.below(31) as u8];
            v.extend_from_slice(&expand(t.u64(), t.range(0, 600)));
            v
        }
        5 => {
            rec.label("inner:signed-nest");
            // many prefixed signatures before a literal
            let mut v = vec![];
            let n = *t.pick(&[1usize, 50, 1000]);
            let mut last = vec![];
            for i in 0..n {
                if i < 8 {
                    last = wire::new_packet(2, &gen::gen_signature(t).body);
                }
                v.extend_from_slice(&last);
            }
            v.extend_from_slice(&lit);
            v
        }
        6 => {
            rec.label("inner:truncated");
            let full = [lit.clone(), lit].concat();
            full[..t.below(full.len())].to_vec()
        }
        7 => {
            rec.label("inner:encrypted-in-compressed");
            let mut b = vec![1u8];
            b.extend_from_slice(&expand(t.u64(), 60));
            nest_compressed(wire::new_packet(18, &b), t.range(1, 3), 0)
        }
        8 => {
            rec.label("inner:random-packets");
            let mut v = vec![];
            for _ in 0..t.range(1, 6) {
                let g = match t.below(5) {
                    0 => gen::gen_signature(t),
                    1 => gen::gen_skesk(t),
                    2 => gen::gen_pkesk(t),
                    3 => gen::gen_ops(t),
                    _ => gen::gen_simple(t),
                };
                v.extend_from_slice(&wire::new_packet(g.tag, &g.body));
            }
            v
        }
        9 => {
            rec.label("inner:indeterminate-length");
            let mut v = vec![0x80 | (8 << 2) | 3, 0];
            v.extend_from_slice(&lit);
            v
        }
        10 => {
            rec.label("inner:empty");
            vec![]
        }
        13 => {
            // mostly (cheap) compression layers with an encryption layer every k levels
            let d = *t.pick(&[100usize, 1000, 6000]);
            let k = *t.pick(&[8usize, 31]);
            rec.label(format!("inner:compressed-nest-{d}-encrypted-every-{k}"));
            let mut cur = lit;
            for i in 0..d {
                cur = if i % k == k - 1 {
                    match rc::seipdv2_encrypt(7, 2, 10, &[(i % 251) as u8; 32], &sk[..16], &cur) {
                        Ok(b) => wire::new_packet(18, &b),
                        Err(_) => cur,
                    }
                } else {
                    wire::new_packet(8, &[vec![0u8], cur].concat())
                };
            }
            cur
        }
        12 => {
            // a tower of encryption (or alternating encryption / compression) layers under one session key
            let d = *t.pick(&[2usize, 30, 31, 33, 40, 200, 1200, 3500]);
            let alternate = t.bool();
            rec.label(format!("inner:{}-nest-{d}", if alternate { "encrypted+compressed" } else { "encrypted" }));
            let mut cur = lit;
            for i in 0..d {
                cur = if alternate && i % 2 == 1 {
                    wire::new_packet(8, &[vec![0u8], cur].concat())
                } else {
                    match rc::seipdv2_encrypt(7, 2, 10, &[(i % 251) as u8; 32], &sk[..16], &cur) {
                        Ok(b) => wire::new_packet(18, &b),
                        Err(_) => cur,
                    }
                };
            }
            cur
        }
        11 => {
            rec.label("inner:literal-then-skippable-packets");
            let mut v = if t.bool() { lit.clone() } else { wire::partial_packet(11, &wire::literal_body(b'b', b"", 0, &expand(t.u64(), 700)), &[9], 1).unwrap_or_default() };
            for _ in 0..t.range(1, 4) {
                match t.below(3) {
                    0 => v.extend_from_slice(&wire::new_packet(21, &expand(t.u64(), t.range(0, 40)))),
                    1 => v.extend_from_slice(&wire::new_packet(10, b"PGP")),
                    _ => v.extend_from_slice(&wire::new_packet(62, &expand(t.u64(), t.range(0, 10)))),
                }
            }
            v
        }
        _ => {
            rec.label("inner:random-bytes");
            let n = t.range(0, 200);
            expand(t.u64(), n)
        }
    }
}

fn hostile_container_case(t: &mut Tape, rec: &mut Rec) -> CaseResult {
    gen::set_argon2_m_max(13);
    let sk = expand(t.u64(), 32);
    let class = t.below(6);
    let inner = hostile_inner(t, rec, &sk);
    let (msg, what): (Vec<u8>, String) = match class {
        0 | 1 => {
            // SEIPDv2 header octets: one field takes any value
            let field = t.below(4);
            let val = t.u8();
            let mut hdr = [2u8, 7, 2, 0];
            let cs = t.range(0, 16) as u8;
            hdr[3] = cs;
            let body = match rc::seipdv2_encrypt(7, 2, cs.min(8), &[5; 32], &sk[..16], &inner) {
                Ok(mut b) => {
                    b[3] = cs;
                    b[field] = val;
                    b
                }
                Err(_) => vec![2, 7, 2, 0],
            };
            let _ = hdr;
            (wire::new_packet(18, &body), format!("SEIPDv2 header field {field} = {val:#x}"))
        }
        2 => {
            let cipher = *t.pick(&[7u8, 9, 3, 2, 10]);
            let ks = rc::sym_key_size(cipher).unwrap();
            let bs = rc::sym_block_size(cipher).unwrap();
            let body = rc::seipdv1_encrypt(cipher, &sk[..ks], &expand(t.u64(), bs), &inner);
            (wire::new_packet(18, &body), format!("valid SEIPDv1 ({cipher}) around a hostile inner stream"))
        }
        3 => {
            let aead = *t.pick(&[1u8, 2, 3]);
            let cs = t.range(0, 6) as u8;
            let body = rc::seipdv2_encrypt(9, aead, cs, &[6; 32], &sk, &inner).unwrap_or_default();
            (wire::new_packet(18, &body), format!("valid SEIPDv2 (aead {aead}, chunk {cs}) around a hostile inner stream"))
        }
        4 => {
            let body = rc::gnupg_aead_encrypt(7, 2, t.range(0, 6) as u8, &expand(t.u64(), 15), &sk[..16], &inner).unwrap_or_default();
            (wire::new_packet(20, &body), "valid GnuPG OCB packet around a hostile inner stream".to_string())
        }
        _ => {
            // unencrypted: the hostile stream itself is the message
            (inner.clone(), "hostile packet stream as the message".to_string())
        }
    };
    rec.label(format!("container:{}", what.split(' ').take(2).collect::<Vec<_>>().join("-")));
    rec.nontrivial((what.clone(), inner.len(), msg.len()));
    rec.describe(|| format!("{what}; inner stream {} bytes, message {} bytes", inner.len(), msg.len()));
    // add an ESK so that password / key based opening reaches the container as well
    let with_esk = t.bool();
    let msg = if with_esk && msg.first().map_or(false, |b| *b == 0xD2) {
        let s2k = S2k::Iterated { hash: 8, salt: [1; 8], coded: 0 };
        match rc::skesk_v6_encrypt(9, 2, &s2k, b"hostile-pw", &[3; 15], &sk) {
            Ok(b) => [wire::new_packet(3, &b), msg].concat(),
            Err(_) => msg,
        }
    } else {
        msg
    };
    // the container re-framed with partial body lengths, followed by skippable packets, cut anywhere
    let msg = if t.chance(100) {
        match wire::split_packets(&msg) {
            Ok(ps) if !ps.is_empty() => {
                let mut v = vec![];
                let last = ps.len() - 1;
                for (i, p) in ps.iter().enumerate() {
                    if i == last && p.body.len() >= 520 && t.chance(200) {
                        let mut exps = vec![9u8];
                        let mut used = 512;
                        while used + 64 < p.body.len() && exps.len() < 6 && t.bool() {
                            let e = *t.pick(&[0u8, 3, 6, 9]);
                            if used + (1usize << e) >= p.body.len() {
                                break;
                            }
                            used += 1usize << e;
                            exps.push(e);
                        }
                        v.extend_from_slice(&wire::partial_packet(p.tag, &p.body, &exps, *t.pick(&[1u8, 2, 5])).unwrap_or_else(|| wire::new_packet(p.tag, &p.body)));
                        rec.label("outer:partial-framing");
                    } else {
                        v.extend_from_slice(&wire::new_packet(p.tag, &p.body));
                    }
                }
                for _ in 0..t.below(3) {
                    v.extend_from_slice(&wire::new_packet(*t.pick(&[21u8, 10, 62]), &expand(t.u64(), t.range(0, 20))));
                    rec.label("outer:trailing-skippable-packets");
                }
                if t.chance(200) {
                    let cut = t.below(v.len() + 1);
                    v.truncate(cut);
                    rec.label("outer:truncated");
                }
                v
            }
            _ => msg,
        }
    } else {
        msg
    };
    for (kind, keylen) in [(0, 16usize), (1, 32), (2, 24)] {
        let _ = kind;
        rec.checkpoint("hostile-container:open");
        open_message(rec, &msg, Some(&sk[..keylen]), &[Kind::Ed25519V6], t);
    }
    Ok(())
}


// ---------------------------------------------------------------------------------------------
// (1b') partial-body framed containers with skippable packets inside / after, cut at every offset
// ---------------------------------------------------------------------------------------------

fn truncation_bases() -> Vec<(String, Vec<u8>, Vec<u8>)> {
    let sk = expand(0x7_C04, 32);
    let mut v = vec![];
    for inner_kind in 0..3 {
        let lit_body = wire::literal_body(b'b', b"", 0, &expand(0x11_C04, 700));
        let mut inner = match inner_kind {
            0 => wire::new_packet(11, &lit_body),
            _ => wire::partial_packet(11, &lit_body, &[9, 6], 1).unwrap_or_default(),
        };
        if inner_kind == 2 {
            inner.extend_from_slice(&wire::new_packet(21, &[0u8; 9]));
            inner.extend_from_slice(&wire::new_packet(10, b"PGP"));
        }
        for container in 0..3 {
            let (tag, body) = match container {
                0 => (18u8, rc::seipdv1_encrypt(7, &sk[..16], &expand(0x12_C04, 16), &inner)),
                1 => (18u8, rc::seipdv2_encrypt(7, 2, 0, &[5; 32], &sk[..16], &inner).unwrap_or_default()),
                _ => (20u8, rc::gnupg_aead_encrypt(7, 2, 1, &expand(0x13_C04, 15), &sk[..16], &inner).unwrap_or_default()),
            };
            for outer in 0..3 {
                let mut msg = match outer {
                    0 => wire::new_packet(tag, &body),
                    _ => wire::partial_packet(tag, &body, &[9, 5, 0], 2).unwrap_or_default(),
                };
                if outer == 2 {
                    msg.extend_from_slice(&wire::new_packet(21, &[1u8; 7]));
                    msg.extend_from_slice(&wire::new_packet(10, b"PGP"));
                }
                v.push((format!("container {container} (0 SEIPDv1, 1 SEIPDv2, 2 GnuPG-OCB), inner {inner_kind} (0 fixed literal, 1 partial literal, 2 partial literal + padding + marker), outer {outer} (0 fixed, 1 partial, 2 partial + padding + marker)"), msg, sk[..16].to_vec()));
            }
        }
    }
    v
}

fn truncation_case(t: &mut Tape, rec: &mut Rec, bases: &[(String, Vec<u8>, Vec<u8>)], starts: &[u64]) -> CaseResult {
    let idx = t.u64();
    let bi = match starts.binary_search(&idx) {
        Ok(i) => i,
        Err(i) => i - 1,
    };
    let (what, msg, sk) = &bases[bi];
    let cut = (idx - starts[bi]) as usize;
    rec.label(format!("truncation-base-{bi}"));
    rec.nontrivial((bi, cut));
    rec.describe(|| format!("{what}, {} bytes, cut to {cut}", msg.len()));
    let sub = expand(idx, 16);
    let mut t2 = Tape::new(&sub);
    rec.checkpoint("truncated-container:open");
    open_message(rec, &msg[..cut], Some(sk), &[Kind::Ed25519V6], &mut t2);
    Ok(())
}

// ---------------------------------------------------------------------------------------------
// (1c) SKESK / secret keys / signatures with attacker-chosen parameter octets
// ---------------------------------------------------------------------------------------------

fn hostile_params_case(t: &mut Tape, rec: &mut Rec) -> CaseResult {
    gen::set_argon2_m_max(13);
    let class = t.below(6);
    match class {
        0 => {
            // SKESK: every cipher / AEAD / S2K type octet, empty and short ESK
            let version = *t.pick(&[4u8, 5, 6]);
            let mut body = vec![version];
            let sym = t.u8();
            let aead = if t.bool() { t.u8() } else { *t.pick(&[1u8, 2, 3]) };
            let s2k: Vec<u8> = match t.below(5) {
                0 => vec![t.u8(), t.u8()],
                1 => [vec![0u8, 8]].concat(),
                2 => [vec![3u8, 8], expand(t.u64(), 8), vec![t.u8()]].concat(),
                3 => [vec![4u8], expand(t.u64(), 16), vec![t.u8().min(3), t.u8().min(3), t.u8() % 12]].concat(),
                _ => [vec![1u8, t.u8()], expand(t.u64(), 8)].concat(),
            };
            let tail = expand(t.u64(), *t.pick(&[0usize, 1, 2, 15, 16, 17, 33]));
            match version {
                4 => {
                    body.push(sym);
                    body.extend_from_slice(&s2k);
                    body.extend_from_slice(&tail);
                }
                5 => {
                    body.push(sym);
                    body.push(aead);
                    body.extend_from_slice(&s2k);
                    body.extend_from_slice(&tail);
                }
                _ => {
                    body.push(t.u8());
                    body.push(sym);
                    body.push(aead);
                    body.push(if t.bool() { s2k.len() as u8 } else { t.u8() });
                    body.extend_from_slice(&s2k);
                    body.extend_from_slice(&tail);
                }
            }
            rec.label(format!("params:skesk-v{version}"));
            rec.nontrivial(("skesk", body.clone()));
            rec.describe(|| format!("SKESK v{version} with chosen octets: {}", hex::encode(&body[..body.len().min(40)])));
            let mut seipd = vec![if version == 6 { 2u8 } else { 1 }];
            seipd.extend_from_slice(&expand(t.u64(), 70));
            let msg = [wire::new_packet(3, &body), wire::new_packet(if version == 5 { 20 } else { 18 }, &seipd)].concat();
            exercise_any(rec, &wire::new_packet(3, &body), t);
            rec.checkpoint("hostile-skesk:open");
            open_message(rec, &msg, None, &[], t);
        }
        1 | 2 => {
            // secret keys with every S2K usage octet / cipher / AEAD / S2K type, truncated blobs,
            // wrong length nonces; also correctly locked ones that are then damaged
            let kind = *t.pick(&[Kind::Ed25519V4, Kind::Ed25519V6, Kind::RsaV4, Kind::P256V4, Kind::EdLegacyV4]);
            let z = zoo::get(kind);
            let cert = z.locked.to_bytes().unwrap();
            let raws = wire::split_packets(&cert).unwrap();
            let mut out = vec![];
            let target = t.below(raws.iter().filter(|p| matches!(p.tag, 5 | 7)).count().max(1));
            let mut seen = 0;
            let mut what = String::new();
            for rp in &raws {
                if matches!(rp.tag, 5 | 7) {
                    if seen == target {
                        let kb = keys::parse_key(&rp.body, true).unwrap();
                        let pl = kb.public_body.len();
                        let mut b = rp.body.clone();
                        match t.below(5) {
                            0 => {
                                b[pl] = t.u8();
                                what = format!("S2K usage octet {:#x}", b[pl]);
                            }
                            1 => {
                                let p = pl + 1 + t.below(6.min(b.len() - pl - 1));
                                b[p] = t.u8();
                                what = format!("protection parameter octet at +{} = {:#x}", p - pl, b[p]);
                            }
                            2 => {
                                let cut = pl + t.below(b.len() - pl);
                                b.truncate(cut);
                                what = format!("secret part truncated to {} octets", cut - pl);
                            }
                            3 => {
                                let p = t.below(pl);
                                b[p] = t.u8();
                                what = format!("public field octet {p} = {:#x}", b[p]);
                            }
                            _ => {
                                b.extend_from_slice(&expand(t.u64(), t.range(1, 40)));
                                what = "extra octets appended to the protected blob".to_string();
                            }
                        }
                        out.extend_from_slice(&wire::new_packet(rp.tag, &b));
                    } else {
                        out.extend_from_slice(&cert[rp.offset..rp.offset + rp.encoded_len]);
                    }
                    seen += 1;
                } else {
                    out.extend_from_slice(&cert[rp.offset..rp.offset + rp.encoded_len]);
                }
            }
            rec.label("params:secret-key");
            rec.nontrivial(("seckey", format!("{kind:?}"), what.clone()));
            rec.describe(|| format!("locked {kind:?} certificate, secret key packet #{target}: {what}"));
            exercise_key_bytes(rec, &out);
            // decrypt a message to the key with the damaged certificate as the recipient's key
            if let Ok(k) = SignedSecretKey::from_bytes(&out[..]) {
                let mut cfg = MsgConfig::plain();
                cfg.enc = if kind.is_v6() { Enc::V2(SymmetricKeyAlgorithm::AES128, pgp::crypto::aead::AeadAlgorithm::Ocb, 0) } else { Enc::V1(SymmetricKeyAlgorithm::AES128) };
                cfg.recipients = vec![(kind, false)];
                if let Ok(bytes) = cfg.build(b"to a damaged key") {
                    rec.checkpoint("damaged-secret-key:decrypt");
                    let parsed = Message::from_bytes(&bytes[..]);
                    if let Ok(m) = parsed {
                        if let Ok(m) = m.decrypt(&Password::from(zoo::LOCK_PW), &k) {
                            consume_message(rec, m, &[]);
                        }
                    };
                }
            }
        }
        3 => {
            // deeply nested embedded signatures
            let depth = *t.pick(&[1usize, 10, 100, 1000, 5000, 20_000]);
            let v6 = t.bool();
            let mut cur: Vec<u8> = if v6 { vec![6, 0, 27, 8, 0, 0, 0, 0, 0, 0, 0, 0, 0xaa, 0xbb, 0] } else { vec![4, 0, 27, 8, 0, 0, 0, 0, 0xaa, 0xbb] };
            cur.extend_from_slice(&[0u8; 64]);
            let mut reached = 0;
            for _ in 0..depth {
                let sp = gen::subpacket(32, false, &cur, true);
                let fits = if v6 { sp.len() < 1 << 24 } else { sp.len() <= 65535 };
                if !fits {
                    break;
                }
                let mut b = if v6 { vec![6, 0, 27, 8] } else { vec![4, 0, 27, 8] };
                if v6 {
                    b.extend_from_slice(&(sp.len() as u32).to_be_bytes());
                    b.extend_from_slice(&sp);
                    b.extend_from_slice(&0u32.to_be_bytes());
                    b.extend_from_slice(&[0xaa, 0xbb, 0]);
                } else {
                    b.extend_from_slice(&(sp.len() as u16).to_be_bytes());
                    b.extend_from_slice(&sp);
                    b.extend_from_slice(&0u16.to_be_bytes());
                    b.extend_from_slice(&[0xaa, 0xbb]);
                }
                b.extend_from_slice(&[0u8; 64]);
                cur = b;
                reached += 1;
            }
            rec.label(format!("params:embedded-signature-depth-{}", match reached { 0..=1 => "1", 2..=10 => "<=10", 11..=100 => "<=100", 101..=1000 => "<=1000", _ => ">1000" }));
            rec.nontrivial(("embedded", v6, reached));
            rec.describe(|| format!("v{} signature with {reached} nested Embedded Signature subpackets ({} bytes)", if v6 { 6 } else { 4 }, cur.len()));
            let pkt = wire::new_packet(2, &cur);
            rec.checkpoint("nested-embedded-signature:parse");
            let mut sigs = vec![];
            for p in PacketParser::new(&pkt[..]).take(3) {
                if let Ok(Packet::Signature(s)) = p {
                    sigs.push(s);
                }
            }
            rec.checkpoint("nested-embedded-signature:use");
            for s in &sigs {
                let _ = s.verify(&zoo::get(Kind::Ed25519V4).public.primary_key, &b"x"[..]);
                let _ = s.to_bytes();
                let _ = s.embedded_signature().map(|e| e.embedded_signature().is_some());
                let c = s.clone();
                drop(c);
            }
            rec.checkpoint("nested-embedded-signature:drop");
            drop(sigs);
            rec.checkpoint("nested-embedded-signature:as-detached-and-in-certificate");
            let _ = DetachedSignature::from_bytes(&pkt[..]);
            let mut cert = zoo::get(Kind::Ed25519V4).public.to_bytes().unwrap();
            cert.extend_from_slice(&pkt);
            exercise_key_bytes(rec, &cert);
        }
        4 => {
            // signatures with every subpacket type at length 0 / 1 / short, big areas
            let v6 = t.bool();
            let n = t.range(1, 30);
            let mut area = vec![];
            for _ in 0..n {
                let typ = t.u8() & 0x7f;
                let body = match t.below(4) {
                    0 => vec![],
                    1 => vec![t.u8()],
                    2 => expand(t.u64(), t.range(2, 6)),
                    _ => gen::subpacket_body(t, typ, 1),
                };
                let mut sp = gen::subpacket(typ, t.bool(), &body, t.bool());
                if t.chance(20) && !sp.is_empty() {
                    // inconsistent subpacket length
                    sp[0] = sp[0].wrapping_add(t.range(1, 5) as u8);
                }
                area.extend_from_slice(&sp);
            }
            if t.chance(25) {
                area.extend_from_slice(&gen::subpacket(100, false, &expand(t.u64(), 60_000), true));
            }
            area.truncate(if v6 { 200_000 } else { 65_535 });
            let mut b = if v6 { vec![6, t.u8(), 27, 8] } else { vec![4, t.u8(), 27, 8] };
            if v6 {
                b.extend_from_slice(&(area.len() as u32).to_be_bytes());
                b.extend_from_slice(&area);
                b.extend_from_slice(&0u32.to_be_bytes());
                b.extend_from_slice(&[1, 2, 16]);
                b.extend_from_slice(&[7; 16]);
            } else {
                b.extend_from_slice(&(area.len() as u16).to_be_bytes());
                b.extend_from_slice(&area);
                b.extend_from_slice(&0u16.to_be_bytes());
                b.extend_from_slice(&[1, 2]);
            }
            b.extend_from_slice(&[0u8; 64]);
            rec.label("params:odd-subpackets");
            rec.nontrivial(("subpackets", b.len(), area.len()));
            rec.describe(|| format!("v{} signature with {n} odd subpackets ({} byte area)", if v6 { 6 } else { 4 }, area.len()));
            exercise_any(rec, &wire::new_packet(2, &b), t);
        }
        _ => {
            // S2K derive_key with arbitrary parameter octets (Argon2 only tiny or invalid)
            let body: Vec<u8> = match t.below(4) {
                0 => [vec![4u8], expand(t.u64(), 16), vec![t.u8() % 40, t.u8() % 40, t.u8() % 12]].concat(),
                1 => [vec![3u8, t.u8()], expand(t.u64(), 8), vec![t.u8() % 120]].concat(),
                2 => vec![t.u8(), t.u8()],
                _ => [vec![1u8, t.u8()], expand(t.u64(), 8)].concat(),
            };
            rec.label("params:s2k");
            rec.nontrivial(("s2k", body.clone()));
            rec.describe(|| format!("S2K specifier {}", hex::encode(&body)));
            rec.checkpoint("StringToKey::derive_key");
            if let Ok(s) = pgp::types::StringToKey::try_from_reader(&body[..]) {
                for ks in [0usize, 16, 24, 32] {
                    let _ = s.derive_key(b"password", ks);
                }
                let _ = s.to_bytes();
            }
        }
    }
    Ok(())
}


// ---------------------------------------------------------------------------------------------
// (1d) key packets whose algorithm-specific fields are degenerate
// ---------------------------------------------------------------------------------------------

/// one MPI-like field: plausible, empty, zero-valued in several encodings, truncated, oversized
fn hostile_mpi(t: &mut Tape, plausible: &[u8]) -> Vec<u8> {
    match t.below(10) {
        0 | 1 | 2 => wire::mpi(plausible),
        3 => vec![0, 0],
        4 => vec![0, 8, 0],
        5 => {
            // all-zero body of the plausible length: strips to nothing
            let n = plausible.len().max(1);
            let mut v = ((n * 8) as u16).to_be_bytes().to_vec();
            v.extend_from_slice(&vec![0u8; n]);
            v
        }
        6 => vec![0, 1, 1],
        7 => {
            // announces more bits than are supplied
            let mut v = vec![0xff, 0xff];
            v.extend_from_slice(&plausible[..plausible.len().min(5)]);
            v
        }
        8 => {
            let mut p = plausible.to_vec();
            p.truncate(p.len() / 2);
            wire::mpi(&p)
        }
        _ => {
            let mut p = plausible.to_vec();
            p.extend_from_slice(&expand(t.u64(), 40));
            wire::mpi(&p)
        }
    }
}

fn hostile_oid(t: &mut Tape, oid: &[u8]) -> Vec<u8> {
    match t.below(8) {
        0 => vec![0],
        1 => vec![0xff],
        2 => {
            let mut v = vec![oid.len() as u8 + 1];
            v.extend_from_slice(oid);
            v
        }
        _ => {
            let mut v = vec![oid.len() as u8];
            v.extend_from_slice(oid);
            v
        }
    }
}

fn hostile_key_material_case(t: &mut Tape, rec: &mut Rec) -> CaseResult {
    const OID_ED25519: &[u8] = &[0x2B, 0x06, 0x01, 0x04, 0x01, 0xDA, 0x47, 0x0F, 0x01];
    const OID_CV25519: &[u8] = &[0x2B, 0x06, 0x01, 0x04, 0x01, 0x97, 0x55, 0x01, 0x05, 0x01];
    const OID_P256: &[u8] = &[0x2A, 0x86, 0x48, 0xCE, 0x3D, 0x03, 0x01, 0x07];
    const OID_P384: &[u8] = &[0x2B, 0x81, 0x04, 0x00, 0x22];
    const OID_P521: &[u8] = &[0x2B, 0x81, 0x04, 0x00, 0x23];
    const OID_K256: &[u8] = &[0x2B, 0x81, 0x04, 0x00, 0x0A];
    let alg = *t.pick(&[1u8, 2, 3, 16, 17, 18, 19, 22, 25, 26, 27, 28]);
    let version = *t.pick(&[4u8, 4, 6, 3]);
    let r = |t: &mut Tape, n: usize| -> Vec<u8> {
        let mut v = expand(t.u64(), n);
        if !v.is_empty() {
            v[0] |= 0x80;
        }
        v
    };
    let curve = match t.below(6) {
        0 => (OID_ED25519, 33usize),
        1 => (OID_CV25519, 33),
        2 => (OID_P256, 65),
        3 => (OID_P384, 97),
        4 => (OID_P521, 133),
        _ => (OID_K256, 65),
    };
    let point = |t: &mut Tape, n: usize| -> Vec<u8> {
        let mut v = expand(t.u64(), n);
        if !v.is_empty() {
            v[0] = if n == 33 { 0x40 } else { 0x04 };
        }
        v
    };
    let mut public = vec![];
    match alg {
        1 | 2 | 3 => {
            let nl = *t.pick(&[64usize, 128, 256]);
            let n = r(t, nl);
            public.extend_from_slice(&hostile_mpi(t, &n));
            public.extend_from_slice(&hostile_mpi(t, &[1, 0, 1]));
        }
        16 => {
            for len in [128usize, 1, 128] {
                let v = r(t, len);
                public.extend_from_slice(&hostile_mpi(t, &v));
            }
        }
        17 => {
            for len in [128usize, 32, 128, 128] {
                let v = r(t, len);
                public.extend_from_slice(&hostile_mpi(t, &v));
            }
        }
        18 | 19 | 22 => {
            // matching curve for the algorithm most of the time, any curve otherwise
            let c = if t.chance(180) {
                match alg {
                    22 => (OID_ED25519, 33),
                    18 => *t.pick(&[(OID_CV25519, 33usize), (OID_P256, 65), (OID_P384, 97), (OID_P521, 133)]),
                    _ => *t.pick(&[(OID_P256, 65usize), (OID_P384, 97), (OID_P521, 133), (OID_K256, 65)]),
                }
            } else {
                curve
            };
            public.extend_from_slice(&hostile_oid(t, c.0));
            let p = point(t, c.1);
            public.extend_from_slice(&hostile_mpi(t, &p));
            if alg == 18 {
                match t.below(6) {
                    0 => public.extend_from_slice(&[0]),
                    1 => public.extend_from_slice(&[3, 1, 8]),
                    2 => public.extend_from_slice(&[0xff, 1, 8, 7]),
                    3 => public.extend_from_slice(&[3, 0xff, t.u8(), t.u8()]),
                    _ => public.extend_from_slice(&[3, 1, *t.pick(&[8u8, 9, 10, 2, 0]), *t.pick(&[7u8, 8, 9, 0, 2])]),
                }
            }
        }
        _ => {
            let n = match alg {
                25 | 27 => 32usize,
                26 => 56,
                _ => 57,
            };
            let n = *t.pick(&[n, n, n, 0, 1, n - 1, n + 1]);
            public.extend_from_slice(&expand(t.u64(), n));
        }
    }
    let secret_packet = t.chance(100);
    let mut body = gen::public_key_body(version, 1_600_000_000, alg, &public);
    if version == 6 && t.chance(40) {
        // the v6 octet count of the public material: off by some
        let l = public.len() as u32;
        let wrong = match t.below(4) {
            0 => 0,
            1 => l.saturating_sub(1),
            2 => l + 1,
            _ => u32::MAX,
        };
        body[6..10].copy_from_slice(&wrong.to_be_bytes());
    }
    if secret_packet {
        // unprotected secret material: degenerate as well, with a checksum that may or may not match
        let mut sec = vec![];
        for _ in 0..t.range(1, 4) {
            let vl = *t.pick(&[32usize, 1, 64, 128]);
            let v = r(t, vl);
            sec.extend_from_slice(&hostile_mpi(t, &v));
        }
        body.push(0);
        if version == 6 {
            // (no checksum for v6)
            body.extend_from_slice(&sec);
        } else {
            let sum: u16 = sec.iter().fold(0u16, |a, b| a.wrapping_add(*b as u16));
            body.extend_from_slice(&sec);
            body.extend_from_slice(&(if t.bool() { sum } else { sum.wrapping_add(1) }).to_be_bytes());
        }
    }
    let tag = match (secret_packet, t.bool()) {
        (false, true) => 6u8,
        (false, false) => 14,
        (true, true) => 5,
        (true, false) => 7,
    };
    rec.label(format!("key-material:alg{alg}:v{version}"));
    rec.nontrivial((tag, body.clone()));
    rec.describe(|| format!("v{version} key packet (tag {tag}), algorithm {alg}, {} octets of degenerate material: {}", public.len(), hex::encode(&body[..body.len().min(80)])));
    // alone, and as the (sub)key of a certificate made of real packets
    let z = zoo::get(Kind::Ed25519V4);
    let cert = z.public.to_bytes().unwrap_or_default();
    let ps = wire::split_packets(&cert).unwrap_or_default();
    let mut v = vec![];
    if tag == 14 || tag == 7 {
        for p in &ps {
            v.extend_from_slice(&wire::new_packet(p.tag, &p.body));
        }
        v.extend_from_slice(&wire::new_packet(tag, &body));
        if let Some(sig) = ps.iter().rev().find(|p| p.tag == 2) {
            v.extend_from_slice(&wire::new_packet(2, &sig.body));
        }
    } else {
        v.extend_from_slice(&wire::new_packet(tag, &body));
        for p in ps.iter().skip(1) {
            v.extend_from_slice(&wire::new_packet(p.tag, &p.body));
        }
    }
    exercise_any(rec, &v, t);
    // a message "encrypted to" / "signed by" such a key: the key is the verifier / the ring member
    rec.checkpoint("degenerate-key:use");
    if let Some(Ok(p)) = PacketParser::new(&wire::new_packet(tag, &body)[..]).next() {
        use pgp::types::KeyDetails;
        match &p {
            Packet::PublicKey(k) => {
                let _ = k.fingerprint();
                let _ = k.legacy_key_id();
                let _ = zoo::get(Kind::Ed25519V4).public.details.users.first().map(|u| u.signatures.first().map(|s| s.verify_certification(k, pgp::types::Tag::UserId, &u.id)));
                let _ = pgp::packet::PublicKeyEncryptedSessionKey::from_session_key_v3(rand_chacha::ChaCha8Rng::from_seed([1; 32]), &RawSessionKey::from(&[7u8; 16][..]), SymmetricKeyAlgorithm::AES128, k);
            }
            Packet::PublicSubkey(k) => {
                let _ = k.fingerprint();
                let _ = pgp::packet::PublicKeyEncryptedSessionKey::from_session_key_v6(rand_chacha::ChaCha8Rng::from_seed([1; 32]), &RawSessionKey::from(&[7u8; 16][..]), k);
            }
            _ => {}
        }
    }
    Ok(())
}

// ---------------------------------------------------------------------------------------------
// (2) mutated fixtures
// ---------------------------------------------------------------------------------------------

fn fixtures() -> Vec<(String, Vec<u8>)> {
    let mut v = vec![];
    for k in [Kind::Ed25519V4, Kind::Ed25519V6, Kind::RsaV4, Kind::P256V4, Kind::EdLegacyV4, Kind::Ed448V6] {
        let z = zoo::get(k);
        v.push((format!("public key {k:?}"), z.public.to_bytes().unwrap()));
        v.push((format!("secret key {k:?}"), z.secret.to_bytes().unwrap()));
        v.push((format!("locked key {k:?}"), z.locked.to_bytes().unwrap()));
        v.push((format!("armored public key {k:?}"), z.public.to_armored_bytes(Default::default()).unwrap()));
    }
    let mut cfg = MsgConfig::plain();
    cfg.signers = vec![(Kind::Ed25519V4, pgp::crypto::hash::HashAlgorithm::Sha256)];
    v.push(("signed message".into(), cfg.build(b"signed\r\nmessage").unwrap()));
    cfg.compression = Some(pgp::types::CompressionAlgorithm::ZIP);
    v.push(("compressed signed message".into(), cfg.build(&expand(1, 3000)).unwrap()));
    cfg.enc = Enc::V1(SymmetricKeyAlgorithm::AES128);
    cfg.recipients = vec![(Kind::Ed25519V4, false), (Kind::RsaV4, true)];
    cfg.passwords = vec![PwSpec { pw: b"hostile-pw".to_vec(), s2k: S2kKind::Iterated(0) }];
    v.push(("SEIPDv1 message".into(), cfg.build(&expand(2, 2000)).unwrap()));
    cfg.enc = Enc::V2(SymmetricKeyAlgorithm::AES256, pgp::crypto::aead::AeadAlgorithm::Gcm, 0);
    cfg.recipients = vec![(Kind::Ed25519V6, false)];
    cfg.signers = vec![(Kind::Ed25519V6, pgp::crypto::hash::HashAlgorithm::Sha512)];
    v.push(("SEIPDv2 message".into(), cfg.build(&expand(3, 500)).unwrap()));
    cfg.armor = Some(true);
    v.push(("armored SEIPDv2 message".into(), cfg.build(&expand(3, 500)).unwrap()));
    let z = zoo::get(Kind::Ed25519V4);
    let csf = CleartextSignedMessage::sign(<rand_chacha::ChaCha8Rng as rand::SeedableRng>::seed_from_u64(1), "- dash\r\nhello \n-----BEGIN X\n", &z.secret.primary_key, &Password::empty()).unwrap();
    v.push(("cleartext message".into(), csf.to_armored_bytes(Default::default()).unwrap()));
    let det = DetachedSignature::sign_binary_data(<rand_chacha::ChaCha8Rng as rand::SeedableRng>::seed_from_u64(1), &z.secret.primary_key, &Password::empty(), pgp::crypto::hash::HashAlgorithm::Sha256, &b"x"[..]).unwrap();
    v.push(("detached signature".into(), det.to_bytes().unwrap()));
    v.push(("armored detached signature".into(), det.to_armored_bytes(Default::default()).unwrap()));
    v
}

fn mutated_fixture_case(t: &mut Tape, rec: &mut Rec, fx: &[(String, Vec<u8>)]) -> CaseResult {
    let (name, base) = &fx[t.below(fx.len())];
    let mut b = base.clone();
    let nm = t.range(1, 4);
    let mut what = vec![];
    for _ in 0..nm {
        if b.is_empty() {
            break;
        }
        match t.below(7) {
            0 | 1 => {
                let p = t.below(b.len());
                b[p] ^= 1 << t.below(8);
                what.push(format!("flip@{p}"));
            }
            2 => {
                let p = t.below(b.len());
                b[p] = t.u8();
                what.push(format!("set@{p}"));
            }
            3 => {
                let p = t.below(b.len());
                b.truncate(p);
                what.push(format!("truncate@{p}"));
            }
            4 => {
                let p = t.below(b.len());
                let n = t.range(1, 40).min(b.len() - p);
                let chunk: Vec<u8> = b[p..p + n].to_vec();
                let q = t.below(b.len());
                b.splice(q..q, chunk);
                what.push(format!("dup {n}@{p}->{q}"));
            }
            5 => {
                let p = t.below(b.len());
                let n = t.range(1, 40).min(b.len() - p);
                b.drain(p..p + n);
                what.push(format!("drop {n}@{p}"));
            }
            _ => {
                // set a length-like octet to an extreme
                let p = t.below(b.len().min(64));
                b[p] = *t.pick(&[0u8, 0xff, 0xfe, 0x80, 0xe0, 0xc0]);
                what.push(format!("extreme@{p}"));
            }
        }
    }
    rec.label(format!("fixture:{}", name.split(' ').take(2).collect::<Vec<_>>().join("-")));
    rec.nontrivial((name.clone(), what.clone()));
    rec.describe(|| format!("{name} ({} bytes) with {what:?}", base.len()));
    exercise_any(rec, &b, t);
    Ok(())
}

fn random_packets_case(t: &mut Tape, rec: &mut Rec) -> CaseResult {
    gen::set_argon2_m_max(13);
    // streams of generated packets (valid structure, arbitrary ids), also armored
    let mut v = vec![];
    let n = t.range(1, 8);
    for _ in 0..n {
        let g = match t.below(6) {
            0 => gen::gen_signature(t),
            1 => gen::gen_skesk(t),
            2 => gen::gen_pkesk(t),
            3 => gen::gen_ops(t),
            _ => gen::gen_simple(t),
        };
        let framed = if g.tag <= 15 && t.chance(40) { wire::old_packet(g.tag, &g.body, 2).unwrap() } else { wire::new_packet(g.tag, &g.body) };
        v.extend_from_slice(&framed);
    }
    if t.chance(40) {
        let cut = t.below(v.len().max(1));
        v.truncate(cut);
    }
    rec.label("random-packet-stream");
    rec.nontrivial(v.clone());
    rec.describe(|| format!("{n} generated packets, {} bytes", v.len()));
    if t.chance(60) {
        let mut a = vec![];
        let _ = pgp::armor::write(&crate::props::c10::Raw(v.clone()), *t.pick(&[pgp::armor::BlockType::Message, pgp::armor::BlockType::PublicKey, pgp::armor::BlockType::PrivateKey, pgp::armor::BlockType::Signature]), &mut a, None, t.bool());
        exercise_any(rec, &a, t);
    }
    exercise_any(rec, &v, t);
    Ok(())
}

pub fn run(ctx: &Ctx) {
    ctx.set_rule("every case runs in a worker process on a 2 MiB stack; failure = panic (caught, signature = site), abort / stack overflow / failed allocation of the worker (signature = kind @ last checkpoint); generators: (1a) PKESK v3/v6 to RSA, ECDH cv25519/P-256, X25519, X448 recipients whose *decrypted* octets are attacker chosen - enumerated over length class x every first octet 0..255; (1b) SEIPDv1/SEIPDv2/GnuPG-OCB containers valid under a known session key around hostile inner streams (compressed nests to depth 4000, 10^4 markers, OPS without signature, bad partial lengths, thousands of prefixed signatures, truncations, indeterminate lengths, random packets) and SEIPDv2 header fields set to every value; (1c) SKESK v4/v5/v6, secret-key protection fields, S2K specifiers with arbitrary octets, signatures with nested embedded signatures to depth 20000 and odd subpacket areas, damaged locked certificates used for decryption; (1d) key packets (public, secret, subkey; v3/v4/v6; RSA, ElGamal, DSA, ECDH, ECDSA, EdDSA-legacy, X25519/X448, Ed25519/Ed448) whose MPIs, curve OIDs, KDF parameters, fixed-size fields and v6 octet count are degenerate (empty, zero-valued in several encodings, truncated, oversized, mismatching curve), alone and inside a certificate, then used as verifier and as encryption target; (2) mutated fixtures (keys, messages, signatures, cleartext, armor: flips, sets, truncations, splices, extreme length octets); (3) generated packet streams, binary and armored; entry points: PacketParser, Message from_bytes/from_string + decrypt_the_ring (3 option sets) + decompress + read + verify + drop, Signed{Public,Secret}Key from_bytes_many/from_string + verify_bindings + serialize + unlock, DetachedSignature, CleartextSignedMessage, Dearmor, Any, SymKeyEncryptedSessionKey::decrypt, DecryptionKey::decrypt, StringToKey::derive_key; non-trivial = artifact constructed; distinct = (generator class, parameters)");
    ctx.assume("a worker that makes no progress for 120 s is reported as inconclusive (exit 2), never as a violation");
    // rPGP documents an Argon2 ceiling of 2 GiB; a mutation can turn a small Argon2 setting of a fixture
    // into one inside that ceiling, which the worker's allocator (1 GiB per request) refuses
    ctx.tolerate_worker_abort(&["memory allocation of 2147483648 bytes failed", "argon2"], "Argon2 with 2 GiB, inside the documented ceiling, refused by the harness allocator");
    let thorough = ctx.tier == Tier::Thorough;
    let kinds = [Kind::RsaV4, Kind::EdLegacyV4, Kind::P256V4, Kind::Ed25519V4, Kind::Ed25519V6, Kind::Ed448V6];
    zoo::warm(&kinds);
    zoo::warm(&[Kind::Ed448V6, Kind::RsaV6]);
    // kind x version x first octet x length class: RSA lengths 0..=40, others 5 classes
    let li_classes = if thorough { 41 } else { 6 };
    let n_pkesk = (kinds.len() * 2 * 256 * li_classes) as u64;
    ctx.group_isolated("hostile-pkesk-plaintext", Source::Indexed { count: n_pkesk }, |t, rec| hostile_pkesk_case(t, rec, &kinds, li_classes));
    let n = ctx.tier.pick(10_000u64, 300_000);
    ctx.group_isolated("hostile-containers", Source::Random { n, tape_len: 300 }, hostile_container_case);
    let tb = truncation_bases();
    let mut starts = vec![];
    let mut total = 0u64;
    for b in &tb {
        starts.push(total);
        total += b.1.len() as u64 + 1;
    }
    ctx.group_isolated("truncated-partial-containers", Source::Indexed { count: total }, |t, rec| truncation_case(t, rec, &tb, &starts));
    let n = ctx.tier.pick(3000u64, 200_000);
    ctx.group_isolated("hostile-parameters", Source::Random { n, tape_len: 400 }, hostile_params_case);
    let n = ctx.tier.pick(6000u64, 200_000);
    ctx.group_isolated("degenerate-key-material", Source::Random { n, tape_len: 260 }, hostile_key_material_case);
    let fx = fixtures();
    let n = ctx.tier.pick(20_000u64, 600_000);
    ctx.group_isolated("mutated-fixtures", Source::Random { n, tape_len: 120 }, |t, rec| mutated_fixture_case(t, rec, &fx));
    let n = ctx.tier.pick(10_000u64, 300_000);
    ctx.group_isolated("generated-packet-streams", Source::Random { n, tape_len: 700 }, random_packets_case);
}
