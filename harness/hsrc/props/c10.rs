//! C10 — ASCII armor round trip, checksum correctness and tolerant reading.
//!
//! Oracles (all independent of rPGP): own CRC-24, own strict base64 decoder, own line-structure
//! parser of the emitted armor; metamorphic tolerance variants; accept-iff-match for CRC checking.

use std::collections::BTreeMap;

use pgp::armor::{self, ArmorCrc24Status, BlockType, Dearmor, DearmorOptions, PKCS1Type};

use crate::engine::{expand, fail, CaseResult, Ctx, Rec, Source, Tape};
use crate::io::{Consumer, Sched, SchedRead};
use crate::refimpl::text::{b64_decode_strict, b64_encode, crc24};

pub struct Raw(pub Vec<u8>);
impl pgp::ser::Serialize for Raw {
    fn to_writer<W: std::io::Write>(&self, w: &mut W) -> pgp::errors::Result<()> {
        w.write_all(&self.0)?;
        Ok(())
    }
    fn write_len(&self) -> usize {
        self.0.len()
    }
}

type Headers = BTreeMap<String, Vec<String>>;

fn draw_type(t: &mut Tape) -> BlockType {
    match t.below(14) {
        0 => BlockType::Message,
        1 => BlockType::PublicKey,
        2 => BlockType::PrivateKey,
        3 => BlockType::Signature,
        4 => BlockType::File,
        5 => BlockType::MultiPartMessage(t.range(1, 300), t.range(1, 300)),
        6 => BlockType::PublicKeyPKCS1(PKCS1Type::RSA),
        7 => BlockType::PublicKeyPKCS1(PKCS1Type::DSA),
        8 => BlockType::PublicKeyPKCS1(PKCS1Type::EC),
        9 => BlockType::PublicKeyPKCS8,
        10 => BlockType::PublicKeyOpenssh,
        11 => BlockType::PrivateKeyPKCS1(PKCS1Type::RSA),
        12 => BlockType::PrivateKeyPKCS8,
        _ => BlockType::PrivateKeyOpenssh,
    }
}

fn draw_value(t: &mut Tape, rec: &mut Rec) -> String {
    match t.below(10) {
        0 => String::new(),
        1 => "rPGP verification harness".to_string(),
        2 => {
            rec.label("hdr:utf8");
            "Grüße — ключ 鍵 🔑".to_string()
        }
        3 => {
            rec.label("hdr:long");
            let n = t.range(65, 400);
            (0..n).map(|i| (b'a' + (i % 26) as u8) as char).collect()
        }
        4 => {
            rec.label("hdr:colon-inside");
            "https://example.org:8080/a: b".to_string()
        }
        5 => {
            rec.label("hdr:spaces");
            "  padded  ".to_string()
        }
        6 => {
            rec.label("hdr:dashes");
            "-----BEGIN PGP MESSAGE-----".to_string()
        }
        7 => {
            rec.label("hdr:equals");
            "=abcd".to_string()
        }
        8 => {
            rec.label("hdr:colon-tail");
            "see also:".to_string()
        }
        _ => {
            let n = t.range(1, 30);
            (0..n).map(|_| (0x20 + t.below(0x5f) as u8) as char).collect::<String>().replace(":", ";")
        }
    }
}

fn draw_headers(t: &mut Tape, rec: &mut Rec) -> Option<Headers> {
    let n = match t.below(8) {
        0..=2 => return None,
        3 => 0,
        4 | 5 => 1,
        6 => 2,
        _ => t.range(2, 4),
    };
    let keys = ["Comment", "Version", "Hash", "Charset", "MessageID", "X-Custom-1", "k"];
    let mut h = Headers::new();
    for _ in 0..n {
        let k = t.pick(&keys).to_string();
        let nv = if t.chance(40) { 2 } else { 1 };
        for _ in 0..nv {
            let v = draw_value(t, rec);
            h.entry(k.clone()).or_default().push(v);
        }
    }
    rec.label(format!("hdr:keys={}", h.len()));
    Some(h)
}

fn armor_text(payload: &[u8], typ: BlockType, headers: Option<&Headers>, checksum: bool) -> Result<String, String> {
    let mut out = Vec::new();
    armor::write(&Raw(payload.to_vec()), typ, &mut out, headers, checksum).map_err(|e| e.to_string())?;
    String::from_utf8(out).map_err(|e| e.to_string())
}

struct Dearmored {
    typ: Option<BlockType>,
    headers: Headers,
    data: Vec<u8>,
    status: ArmorCrc24Status,
}

fn dearmor(input: &[u8], sched: Sched, cons: Consumer, opts: DearmorOptions) -> Result<Dearmored, String> {
    let src = SchedRead::new(input.to_vec(), sched);
    let mut d = Dearmor::with_options(src, opts);
    let (data, res) = cons.drive(&mut d);
    res.map_err(|e| e.to_string())?;
    Ok(Dearmored { typ: d.typ, headers: d.headers.clone(), data, status: d.crc24_status() })
}

/// Independent structural validation of writer output.
fn check_structure(text: &str, payload: &[u8], typ: BlockType, headers: Option<&Headers>, checksum: bool) -> CaseResult {
    let lines: Vec<&str> = text.split('\n').collect();
    crate::ensure_prop!(text.ends_with('\n'), "C10:writer-structure", "no final newline");
    let lines = &lines[..lines.len() - 1];
    let tname = typ.to_string();
    crate::ensure_prop!(lines.first() == Some(&format!("-----BEGIN {tname}-----").as_str()), "C10:writer-structure", "bad BEGIN line {:?}", lines.first());
    crate::ensure_prop!(lines.last() == Some(&format!("-----END {tname}-----").as_str()), "C10:writer-structure", "bad END line {:?}", lines.last());
    let mut i = 1;
    let mut expect_h = vec![];
    if let Some(h) = headers {
        for (k, vs) in h {
            for v in vs {
                expect_h.push(format!("{k}: {v}"));
            }
        }
    }
    for e in &expect_h {
        crate::ensure_prop!(lines.get(i) == Some(&e.as_str()), "C10:writer-structure", "header line {} is {:?}, expected {:?}", i, lines.get(i), e);
        i += 1;
    }
    crate::ensure_prop!(lines.get(i) == Some(&""), "C10:writer-structure", "no blank separator line");
    i += 1;
    let end = lines.len() - 1;
    let body_end = if checksum { end - 1 } else { end };
    crate::ensure_prop!(body_end >= i, "C10:writer-structure", "missing checksum line");
    let body = &lines[i..body_end];
    let mut joined = String::new();
    for (bi, l) in body.iter().enumerate() {
        crate::ensure_prop!(l.len() <= 64, "C10:body-line-longer-than-64", "line {} has {} chars", bi, l.len());
        if bi + 1 < body.len() {
            crate::ensure_prop!(l.len() == 64, "C10:body-line-not-64", "non-final line {} has {} chars", bi, l.len());
        }
        crate::ensure_prop!(!l.is_empty(), "C10:writer-structure", "empty body line");
        joined.push_str(l);
    }
    let dec = b64_decode_strict(&joined);
    crate::ensure_prop!(dec.as_deref() == Some(payload), "C10:body-not-canonical-base64-of-data", "independent decode differs (len {} vs {:?})", payload.len(), dec.map(|d| d.len()));
    crate::ensure_prop!(joined == b64_encode(payload), "C10:body-not-canonical-base64-of-data", "encoding differs from reference encoder");
    if checksum {
        let c = crc24(payload);
        let exp = format!("={}", b64_encode(&[(c >> 16) as u8, (c >> 8) as u8, c as u8]));
        crate::ensure_prop!(lines[body_end] == exp, "C10:emitted-checksum-is-not-crc24-of-data", "emitted {:?}, RFC CRC-24 gives {:?}", lines[body_end], exp);
    }
    Ok(())
}

fn norm_headers(h: Option<&Headers>) -> Headers {
    // empty value vectors emit nothing
    let mut out = Headers::new();
    if let Some(h) = h {
        for (k, v) in h {
            if !v.is_empty() {
                out.insert(k.clone(), v.clone());
            }
        }
    }
    out
}

fn len_class(n: usize) -> &'static str {
    match n {
        0 => "len:0",
        1..=47 => "len:<48",
        48..=4096 => "len:48..4096",
        _ => "len:>4096",
    }
}

/// one full case: write, validate structure, dearmor under schedules, tolerance variants, crc modes
fn case(t: &mut Tape, rec: &mut Rec, len: usize, pseed: u64) -> CaseResult {
    let payload = match t.below(6) {
        0 => vec![0u8; len],
        1 => vec![0xffu8; len],
        _ => expand(pseed, len),
    };
    let typ = draw_type(t);
    let headers = draw_headers(t, rec);
    let checksum = !t.chance(80);
    rec.label(len_class(len));
    rec.label(format!("mod3={}", len % 3));
    rec.label(if checksum { "checksum:on" } else { "checksum:off" });
    rec.nontrivial((len, format!("{typ:?}"), headers.as_ref().map(|h| h.len()), checksum));
    rec.describe(|| format!("len={len} typ={typ:?} headers={headers:?} checksum={checksum}"));

    let text = match armor_text(&payload, typ, headers.as_ref(), checksum) {
        Ok(t) => t,
        Err(e) => return fail("C10:writer-error", e),
    };
    check_structure(&text, &payload, typ, headers.as_ref(), checksum)?;

    let want_h = norm_headers(headers.as_ref());

    let edges: Vec<usize> = {
        let mut e = vec![];
        let mut pos = 0;
        for l in text.split_inclusive('\n') {
            pos += l.len();
            e.push(pos);
        }
        e
    };
    let sched = Sched::draw(t, text.len(), &edges);
    let cons = Consumer::draw(t);
    rec.label(format!("cons:{}", match cons { Consumer::ReadToEnd => "read_to_end", Consumer::Fixed(1) => "1byte", Consumer::Fixed(_) => "fixed", Consumer::Alt(..) => "alt", Consumer::ReadExactThenEnd(_) => "exact+end" }));
    let check_same = |rec: &mut Rec, what: &str, input: &[u8], sched: Sched, cons: Consumer, opts: DearmorOptions| -> Option<Dearmored> {
        match dearmor(input, sched.clone(), cons, opts) {
            Err(e) => {
                rec.soft_fail(format!("C10:{what}-rejected"), format!("{e}; sched={} cons={cons:?}", sched.describe()));
                None
            }
            Ok(d) => {
                if d.data != payload {
                    rec.soft_fail(format!("C10:{what}-data-differs"), format!("got {} bytes, want {}; sched={} cons={cons:?}", d.data.len(), payload.len(), sched.describe()));
                }
                if d.typ != Some(typ) {
                    rec.soft_fail(format!("C10:{what}-type-differs"), format!("{:?} vs {:?}", d.typ, typ));
                }
                if d.headers != want_h {
                    rec.soft_fail(format!("C10:{what}-headers-differ"), format!("{:?} vs {:?}", d.headers, want_h));
                }
                Some(d)
            }
        }
    };
    // (1) plain round trip
    if let Some(d) = check_same(rec, "roundtrip", text.as_bytes(), sched.clone(), cons, DearmorOptions::new()) {
        let want = if checksum { ArmorCrc24Status::Unchecked { footer_crc: crc24(&payload) } } else { ArmorCrc24Status::NoCrc24 };
        rec.check(d.status == want, "C10:crc-status-unchecked-wrong", || format!("{:?} vs {:?}", d.status, want));
    }
    // (3) tolerance variants
    let variant = t.below(9);
    let vtext: Option<(String, &str)> = match variant {
        0 => Some((text.replace('\n', "\r\n"), "crlf")),
        1 => Some((format!("Hello,\nsome leading text - with dashes --\n\n{text}"), "leading-text")),
        2 => {
            // whitespace-only separator line
            let sep = if want_h.is_empty() { format!("-----BEGIN {typ}-----\n") } else { String::new() };
            if want_h.is_empty() {
                Some((text.replacen(&format!("{sep}\n"), &format!("{sep} \t \n"), 1), "ws-separator"))
            } else {
                None
            }
        }
        3 => {
            let endl = format!("-----END {typ}-----");
            Some((text.replacen(&endl, &format!("\n\n{endl}"), 1), "blank-before-end"))
        }
        4 => Some((text.trim_end_matches('\n').to_string(), "no-final-newline")),
        5 if checksum => {
            let c = crc24(&payload);
            let line = format!("={}\n", b64_encode(&[(c >> 16) as u8, (c >> 8) as u8, c as u8]));
            Some((text.replacen(&line, "", 1), "checksum-removed"))
        }
        6 => Some((format!("{text}trailing text after the end line\nmore\n"), "text-after-end")),
        7 if checksum => {
            let c = crc24(&payload);
            let line = format!("={}\n", b64_encode(&[(c >> 16) as u8, (c >> 8) as u8, c as u8]));
            Some((text.replacen(&line, &format!("\n{line}"), 1), "blank-before-checksum"))
        }
        _ => None,
    };
    if let Some((vt, vname)) = vtext {
        rec.label(format!("variant:{vname}"));
        rec.nontrivial((len % 192, vname, checksum));
        let sched2 = Sched::draw(t, vt.len(), &[]);
        check_same(rec, &format!("tolerance-{vname}"), vt.as_bytes(), sched2, cons, DearmorOptions::new());
    }
    // (4) CRC modes
    if checksum {
        let c = crc24(&payload);
        let good = format!("={}\n", b64_encode(&[(c >> 16) as u8, (c >> 8) as u8, c as u8]));
        // correct checksum with checking enabled => accepted, CheckedOk
        match dearmor(text.as_bytes(), sched.clone(), cons, DearmorOptions::new().enable_crc24_check()) {
            Ok(d) => {
                rec.check(d.data == payload, "C10:crc-check-data-differs", || "data differs".into());
                rec.check(d.status == ArmorCrc24Status::CheckedOk { crc: c }, "C10:crc-status-checked-wrong", || format!("{:?}", d.status));
            }
            Err(e) => {
                if len == 0 {
                    rec.soft_fail("C10:crc-check-rejects-valid-checksum-empty", e);
                } else {
                    rec.soft_fail("C10:crc-check-rejects-valid-checksum", e);
                }
            }
        }
        // single-bit flip of the 24-bit CRC
        let bit = t.below(24);
        let bad = c ^ (1 << bit);
        let badl = format!("={}\n", b64_encode(&[(bad >> 16) as u8, (bad >> 8) as u8, bad as u8]));
        let btext = text.replacen(&good, &badl, 1);
        rec.label("crc:flipped");
        rec.nontrivial((len % 192, "crcflip", bit));
        match dearmor(btext.as_bytes(), sched.clone(), cons, DearmorOptions::new().enable_crc24_check()) {
            Ok(d) => {
                // with len==0 under the known defect the untouched initial CRC is compared; an
                // accepted wrong checksum is a violation in every case
                rec.soft_fail("C10:crc-check-accepts-wrong-checksum", format!("bit {bit} flipped, status {:?}", d.status));
            }
            Err(_) => {}
        }
        // without checking: wrong checksum ignored
        match dearmor(btext.as_bytes(), sched.clone(), cons, DearmorOptions::new()) {
            Ok(d) => {
                rec.check(d.data == payload, "C10:unchecked-data-differs", || "data differs".into());
                rec.check(d.status == ArmorCrc24Status::Unchecked { footer_crc: bad }, "C10:crc-status-unchecked-wrong", || format!("{:?}", d.status));
            }
            Err(e) => rec.soft_fail("C10:unchecked-wrong-checksum-rejected", e),
        }
    }
    Ok(())
}

pub fn run(ctx: &Ctx) {
    ctx.set_rule("cases = (payload length, content class, block type, header map, checksum on/off, source read schedule, consumer pattern, tolerance variant, CRC flip bit); lengths enumerated 0..=L plus boundary/random lengths; non-trivial = every case with its own (length, type, header-shape, checksum) key plus (len mod 192, variant) and (len mod 192, crc-flip bit) keys; distinct counted by hash set");
    ctx.assume("own bitwise CRC-24 (RFC 9580 6.1), own base64 codec and own line parser are the reference");
    ctx.assume("tolerance variants are those the documented header/footer grammar admits: CRLF, leading text without '-----', whitespace-only separator, blank lines before checksum/END, missing final newline, removed checksum, text after END");
    let seed = ctx.seed;
    let max_len = ctx.tier.pick(700u64, 4097);
    let reps = ctx.tier.pick(2u64, 6);
    ctx.group("every-length", Source::Indexed { count: max_len * reps }, |t, rec| {
        let idx = t.u64();
        let len = (idx / reps) as usize;
        let sub = expand(seed ^ idx.wrapping_mul(0x9E3779B97F4A7C15), 96);
        let mut t2 = Tape::new(&sub);
        case(&mut t2, rec, len, seed ^ idx)
    });
    let n = ctx.tier.pick(3000u64, 40000);
    ctx.group("random-config", Source::Random { n, tape_len: 400 }, |t, rec| {
        let len = match t.below(5) {
            0 => t.range(0, 200),
            1 => {
                let base = *t.pick(&[48usize, 64, 192, 512, 4096, 8192, 16384, 65536]);
                let k = t.range(1, 3);
                (base * k + t.range(0, 6)).saturating_sub(3)
            }
            2 => t.range(4097, 70000),
            _ => t.range(0, 5000),
        };
        let ps = t.u64();
        case(t, rec, len, ps)
    });
    if ctx.tier == crate::engine::Tier::Thorough {
        ctx.group("large", Source::Random { n: 64, tape_len: 160 }, |t, rec| {
            let len = t.range(200_000, 1_048_576 + 100);
            let ps = t.u64();
            case(t, rec, len, ps)
        });
    }
}
