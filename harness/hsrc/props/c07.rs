//! C07 — generated keys are valid, self-consistent and usable for every seed and shape.

use std::io::Read;

use pgp::composed::{ArmorOptions, Deserializable, DetachedSignature, EncryptionCaps, KeyType, Message, MessageBuilder, SecretKeyParamsBuilder, SignedPublicKey, SignedSecretKey, SubkeyParams, SubkeyParamsBuilder};
use pgp::crypto::aead::{AeadAlgorithm, ChunkSize};
use pgp::crypto::ecc_curve::ECCCurve;
use pgp::crypto::hash::HashAlgorithm;
use pgp::crypto::sym::SymmetricKeyAlgorithm;
use pgp::ser::Serialize;
use pgp::types::{CompressionAlgorithm, KeyDetails, KeyVersion, Password, S2kParams, StringToKey, Timestamp};
use rand::{RngCore, SeedableRng};
use rand_chacha::ChaCha8Rng;
use smallvec::smallvec;

use crate::engine::{fail, CaseResult, Ctx, Fail, Rec, Source, Tape};
use crate::refimpl::keys;
use crate::refimpl::wire;

fn f(sig: &str, d: impl Into<String>) -> Fail {
    Fail { sig: sig.to_string(), detail: d.into() }
}

#[derive(Clone, Debug)]
struct Shape {
    v6: bool,
    primary: KeyType,
    /// (type, signing?) of subkeys
    subkeys: Vec<(KeyType, bool)>,
    lock_primary: bool,
    lock_subkeys: bool,
    nuids: usize,
    can_sign: bool,
    legacy_header: bool,
}

fn hash_for(kt: &KeyType) -> HashAlgorithm {
    match kt {
        KeyType::Ed448 | KeyType::ECDSA(ECCCurve::P521) => HashAlgorithm::Sha512,
        KeyType::ECDSA(ECCCurve::P384) => HashAlgorithm::Sha384,
        _ => HashAlgorithm::Sha256,
    }
}

fn draw_shape(t: &mut Tape, cheap: bool) -> Shape {
    let v6 = t.bool();
    let primaries_v4: Vec<KeyType> = if cheap {
        vec![KeyType::Ed25519Legacy, KeyType::Ed25519, KeyType::Ed25519Legacy, KeyType::ECDSA(ECCCurve::P256)]
    } else {
        vec![KeyType::Ed448, KeyType::ECDSA(ECCCurve::P384), KeyType::ECDSA(ECCCurve::P521), KeyType::ECDSA(ECCCurve::Secp256k1), KeyType::Rsa(2048), KeyType::Dsa(pgp::composed::DsaKeySize::B2048)]
    };
    let primaries_v6: Vec<KeyType> = if cheap { vec![KeyType::Ed25519, KeyType::ECDSA(ECCCurve::P256)] } else { vec![KeyType::Ed448, KeyType::ECDSA(ECCCurve::P384), KeyType::ECDSA(ECCCurve::P521), KeyType::Rsa(2048)] };
    let primary = if v6 { t.pick(&primaries_v6).clone() } else { t.pick(&primaries_v4).clone() };
    let enc_v4: Vec<KeyType> = if cheap { vec![KeyType::ECDH(ECCCurve::Curve25519Legacy), KeyType::ECDH(ECCCurve::Curve25519Legacy), KeyType::X25519, KeyType::ECDH(ECCCurve::P256)] } else { vec![KeyType::ECDH(ECCCurve::P384), KeyType::ECDH(ECCCurve::P521), KeyType::X448, KeyType::Rsa(2048)] };
    let enc_v6: Vec<KeyType> = if cheap { vec![KeyType::X25519, KeyType::ECDH(ECCCurve::P256)] } else { vec![KeyType::ECDH(ECCCurve::P384), KeyType::ECDH(ECCCurve::P521), KeyType::X448, KeyType::Rsa(2048)] };
    let n_sub = t.below(4);
    let mut subkeys = vec![];
    for i in 0..n_sub {
        if i > 0 && t.chance(70) {
            // signing subkey of a signing type
            let st = if v6 { t.pick(&primaries_v6).clone() } else { t.pick(&primaries_v4).clone() };
            if !matches!(st, KeyType::Dsa(_) | KeyType::Rsa(_)) || !cheap {
                subkeys.push((st, true));
                continue;
            }
        }
        subkeys.push((if v6 { t.pick(&enc_v6).clone() } else { t.pick(&enc_v4).clone() }, false));
    }
    Shape { v6, primary, subkeys, lock_primary: t.chance(70), lock_subkeys: t.chance(60), nuids: t.below(4), can_sign: !t.chance(30), legacy_header: !v6 && t.chance(50) }
}

fn tiny_s2k(rng: &mut ChaCha8Rng, v6: bool, t: &mut Tape) -> S2kParams {
    if v6 && t.bool() {
        let mut nonce = vec![0u8; 15];
        rng.fill_bytes(&mut nonce);
        let mut salt = [0u8; 16];
        rng.fill_bytes(&mut salt);
        S2kParams::Aead { sym_alg: SymmetricKeyAlgorithm::AES256, aead_mode: AeadAlgorithm::Ocb, s2k: StringToKey::Argon2 { salt, t: 1, p: 1, m_enc: 4 }, nonce: nonce.into() }
    } else {
        let mut iv = vec![0u8; 16];
        rng.fill_bytes(&mut iv);
        S2kParams::Cfb { sym_alg: SymmetricKeyAlgorithm::AES128, s2k: StringToKey::new_iterated(rng, HashAlgorithm::Sha256, *t.pick(&[0u8, 16, 96])), iv: iv.into() }
    }
}

const PW: &str = "gen-pässword";

fn key_case(t: &mut Tape, rec: &mut Rec, cheap: bool) -> CaseResult {
    let shape = draw_shape(t, cheap);
    let seed = t.seed32();
    let mut rng = ChaCha8Rng::from_seed(seed);
    let version = if shape.v6 { KeyVersion::V6 } else { KeyVersion::V4 };
    let created = 1_600_000_000 + t.u32() % 100_000_000;
    let pref_sym: smallvec::SmallVec<[SymmetricKeyAlgorithm; 8]> = if t.bool() { smallvec![SymmetricKeyAlgorithm::AES256, SymmetricKeyAlgorithm::AES128] } else { smallvec![] };
    let pref_hash: smallvec::SmallVec<[HashAlgorithm; 8]> = if t.bool() { smallvec![HashAlgorithm::Sha512, HashAlgorithm::Sha256] } else { smallvec![] };
    let pref_comp: smallvec::SmallVec<[CompressionAlgorithm; 8]> = if t.bool() { smallvec![CompressionAlgorithm::ZLIB] } else { smallvec![] };
    let pref_aead: smallvec::SmallVec<[(SymmetricKeyAlgorithm, AeadAlgorithm); 4]> = if shape.v6 && t.bool() { smallvec![(SymmetricKeyAlgorithm::AES256, AeadAlgorithm::Ocb)] } else { smallvec![] };
    let can_auth = t.chance(40);
    let seipd2 = shape.v6 || t.chance(40);
    let mut b = SecretKeyParamsBuilder::default();
    b.version(version)
        .key_type(shape.primary.clone())
        .can_certify(true)
        .can_sign(shape.can_sign)
        .can_authenticate(can_auth)
        .created_at(Timestamp::from_secs(created))
        .feature_seipd_v2(seipd2)
        .preferred_symmetric_algorithms(pref_sym.clone())
        .preferred_hash_algorithms(pref_hash.clone())
        .preferred_compression_algorithms(pref_comp.clone())
        .preferred_aead_algorithms(pref_aead.clone());
    if shape.legacy_header {
        b.packet_version(pgp::types::PacketHeaderVersion::Old);
    }
    let uids: Vec<String> = (0..shape.nuids).map(|i| match i { 0 => "Primary Üser <p@example.org>".to_string(), 1 => "x".repeat(300), _ => format!("uid{i} <u{i}@example.org>") }).collect();
    let has_primary_uid = !uids.is_empty() || !shape.v6;
    if has_primary_uid {
        b.primary_user_id(uids.first().cloned().unwrap_or_else(|| "Only <only@example.org>".to_string()));
    }
    for u in uids.iter().skip(1) {
        b.user_id(u.clone());
    }
    if shape.lock_primary {
        b.passphrase(Some(PW.to_string()));
        b.s2k(Some(tiny_s2k(&mut rng, shape.v6, t)));
    }
    let mut subs: Vec<SubkeyParams> = vec![];
    let mut sub_auth: Vec<bool> = vec![];
    for (kt, signing) in &shape.subkeys {
        let mut sb = SubkeyParamsBuilder::default();
        sb.version(version).key_type(kt.clone()).created_at(Timestamp::from_secs(created + 1));
        if *signing {
            sb.can_sign(true);
            // signing-capable subkeys may be asked to authenticate as well, independently of the primary
            let auth = t.chance(90);
            sb.can_authenticate(auth);
            sub_auth.push(auth);
        } else {
            sb.can_encrypt(EncryptionCaps::All);
            sub_auth.push(false);
        }
        if shape.lock_subkeys {
            sb.passphrase(Some(PW.to_string()));
            sb.s2k(Some(tiny_s2k(&mut rng, shape.v6, t)));
        }
        subs.push(sb.build().map_err(|e| f("C07:subkey-params-refused", e.to_string()))?);
    }
    b.subkeys(subs);
    rec.label(format!("primary:{:?}:{}", shape.primary, if shape.v6 { "v6" } else { "v4" }));
    for (kt, s) in &shape.subkeys {
        rec.label(format!("subkey:{kt:?}{}", if *s { ":signing" } else { "" }));
    }
    rec.label(format!("uids:{}", shape.nuids));
    if shape.lock_primary {
        rec.label("locked:primary");
    }
    if shape.lock_subkeys && !shape.subkeys.is_empty() {
        rec.label("locked:subkeys");
    }
    rec.nontrivial((format!("{shape:?}"), seed));
    rec.describe(|| format!("{shape:?} seed {}", hex::encode(&seed[..8])));
    let params = b.build().map_err(|e| f("C07:params-refused", format!("{e}; {shape:?}")))?;
    let key = params.generate(&mut rng).map_err(|e| f("C07:generate-error", format!("{e}; {shape:?}")))?;
    let pubk = key.to_public_key();
    let ctxs = || format!("{shape:?} seed {}", hex::encode(&seed[..8]));

    // 1. bindings
    if let Err(e) = key.verify_bindings() {
        return fail("C07:secret-key-bindings-do-not-verify", format!("{e}; {}", ctxs()));
    }
    if let Err(e) = pubk.verify_bindings() {
        return fail("C07:public-key-bindings-do-not-verify", format!("{e}; {}", ctxs()));
    }
    // back signatures of signing subkeys, checked explicitly
    let n_signing = shape.subkeys.iter().filter(|s| s.1).count();
    let mut found_backsigs = 0;
    for sk in &pubk.public_subkeys {
        for sig in &sk.signatures {
            if sig.key_flags().sign() {
                match sig.embedded_signature() {
                    Some(bs) => {
                        found_backsigs += 1;
                        if let Err(e) = bs.verify_primary_key_binding(&sk.key, &pubk.primary_key) {
                            rec.soft_fail("C07:back-signature-does-not-verify", format!("{e}; {}", ctxs()));
                        }
                    }
                    None => rec.soft_fail("C07:signing-subkey-without-back-signature", ctxs()),
                }
            }
        }
    }
    rec.check(found_backsigs == n_signing, "C07:signing-subkey-flags-or-back-signatures-missing", || format!("{found_backsigs} of {n_signing}; {}", ctxs()));
    // 2. export / import equality
    let bytes = key.to_bytes().map_err(|e| f("C07:serialize-error", e.to_string()))?;
    match SignedSecretKey::from_bytes(&bytes[..]) {
        Ok(k2) => {
            rec.check(k2 == key, "C07:secret-key-differs-after-binary-reimport", || ctxs());
            rec.check(k2.fingerprint() == key.fingerprint(), "C07:fingerprint-changes-on-reimport", || ctxs());
        }
        Err(e) => return fail("C07:exported-secret-key-rejected", format!("{e}; {}", ctxs())),
    }
    match key.to_armored_string(ArmorOptions::default()).map_err(|e| e.to_string()).and_then(|s| SignedSecretKey::from_string(&s).map_err(|e| e.to_string())) {
        Ok((k2, _)) => {
            rec.check(k2 == key, "C07:secret-key-differs-after-armored-reimport", || ctxs());
        }
        Err(e) => return fail("C07:exported-secret-key-rejected", format!("armored: {e}; {}", ctxs())),
    }
    let pbytes = pubk.to_bytes().map_err(|e| f("C07:serialize-error", e.to_string()))?;
    match SignedPublicKey::from_bytes(&pbytes[..]) {
        Ok(k2) => {
            rec.check(k2 == pubk, "C07:public-key-differs-after-binary-reimport", || ctxs());
            rec.check(k2.fingerprint() == key.fingerprint(), "C07:fingerprint-differs-between-secret-and-public", || ctxs());
        }
        Err(e) => return fail("C07:exported-public-key-rejected", format!("{e}; {}", ctxs())),
    }
    match pubk.to_armored_string(ArmorOptions::default()).map_err(|e| e.to_string()).and_then(|s| SignedPublicKey::from_string(&s).map_err(|e| e.to_string())) {
        Ok((k2, _)) => {
            rec.check(k2 == pubk, "C07:public-key-differs-after-armored-reimport", || ctxs());
        }
        Err(e) => return fail("C07:exported-public-key-rejected", format!("armored: {e}; {}", ctxs())),
    }
    // R-wire strict decode + leading zero statistics
    match wire::split_packets(&bytes) {
        Ok(raws) => {
            for rp in &raws {
                if let Err(e) = wire::framing_is_legal(rp) {
                    rec.soft_fail("C07:exported-key-illegally-framed", e);
                }
                if matches!(rp.tag, 5 | 7) {
                    match keys::parse_key(&rp.body, true) {
                        Some(kb) => {
                            let lead_pub = match kb.alg {
                                25 | 26 | 27 | 28 => kb.public.first() == Some(&0),
                                _ => false,
                            };
                            if lead_pub {
                                rec.label("leading-zero:public-native-field");
                            }
                            if let Some(keys::Protection::Plain { material_and_checksum }) = &kb.protection {
                                // MPI encoded secrets: bit count below the nominal size means leading zero octet(s)
                                if matches!(kb.alg, 18 | 19 | 22) && material_and_checksum.len() >= 2 {
                                    let bits = u16::from_be_bytes([material_and_checksum[0], material_and_checksum[1]]) as usize;
                                    let nominal = match bits {
                                        0..=256 => 256,
                                        257..=384 => 384,
                                        _ => 521,
                                    };
                                    if bits <= nominal - 8 {
                                        rec.label("leading-zero:secret-scalar-mpi");
                                    }
                                }
                            }
                        }
                        None => rec.soft_fail("C07:exported-key-packet-does-not-decode", format!("tag {}; {}", rp.tag, ctxs())),
                    }
                }
            }
        }
        Err(e) => rec.soft_fail("C07:exported-key-does-not-deframe", e),
    }
    // 4. flags and preferences as requested
    let primary_sig = if shape.v6 { pubk.details.direct_signatures.first() } else { pubk.details.users.iter().find(|u| u.signatures.iter().any(|s| s.is_primary())).and_then(|u| u.signatures.first()).or_else(|| pubk.details.users.first().and_then(|u| u.signatures.first())) };
    match primary_sig {
        Some(sig) => {
            let kf = sig.key_flags();
            rec.check(kf.certify() && kf.sign() == shape.can_sign && kf.authentication() == can_auth, "C07:primary-key-flags-differ-from-request", || format!("certify {} sign {} auth {}; {}", kf.certify(), kf.sign(), kf.authentication(), ctxs()));
            rec.check(sig.preferred_symmetric_algs() == &pref_sym[..], "C07:preferences-differ-from-request", || format!("sym {:?}", sig.preferred_symmetric_algs()));
            rec.check(sig.preferred_hash_algs() == &pref_hash[..], "C07:preferences-differ-from-request", || format!("hash {:?}", sig.preferred_hash_algs()));
            rec.check(sig.preferred_compression_algs() == &pref_comp[..], "C07:preferences-differ-from-request", || format!("comp {:?}", sig.preferred_compression_algs()));
            rec.check(sig.preferred_aead_algs() == &pref_aead[..], "C07:preferences-differ-from-request", || format!("aead {:?}", sig.preferred_aead_algs()));
            match sig.features() {
                Some(ft) => {
                    rec.check(ft.seipd_v1() && ft.seipd_v2() == seipd2, "C07:features-differ-from-request", || format!("v1 {} v2 {}", ft.seipd_v1(), ft.seipd_v2()));
                }
                None => rec.soft_fail("C07:features-differ-from-request", "no features subpacket".to_string()),
            }
        }
        None => {
            if has_primary_uid || shape.v6 {
                rec.soft_fail("C07:no-self-signature-carrying-the-preferences", ctxs());
            }
        }
    }
    rec.check(pubk.details.users.len() == shape.nuids.max(if has_primary_uid { 1 } else { 0 }), "C07:user-id-count-differs-from-request", || format!("{}; {}", pubk.details.users.len(), ctxs()));
    let all_subs: Vec<&pgp::composed::SignedPublicSubKey> = pubk.public_subkeys.iter().collect();
    rec.check(all_subs.len() == shape.subkeys.len(), "C07:subkey-count-differs-from-request", || format!("{}", all_subs.len()));
    for (i, (sk, (kt, signing))) in all_subs.iter().zip(shape.subkeys.iter()).enumerate() {
        if let Some(sig) = sk.signatures.first() {
            let kf = sig.key_flags();
            let want_auth = sub_auth.get(i).copied().unwrap_or(false);
            rec.check(
                kf.sign() == *signing && (kf.encrypt_comms() && kf.encrypt_storage()) == !*signing && kf.authentication() == want_auth && !kf.certify(),
                "C07:subkey-flags-differ-from-request",
                || format!("{kt:?} signing {signing} authentication {want_auth} (primary authentication {can_auth}): sign {} enc {}/{} auth {} certify {}", kf.sign(), kf.encrypt_comms(), kf.encrypt_storage(), kf.authentication(), kf.certify()),
            );
        }
    }
    // 5. usable: sign / verify, encrypt / decrypt (also with the re-imported copy)
    let reimported = SignedSecretKey::from_bytes(&bytes[..]).map_err(|e| f("C07:exported-secret-key-rejected", e.to_string()))?;
    let right_pw = if shape.lock_primary { Password::from(PW) } else { Password::empty() };
    let data = b"generated keys must work\r\n";
    if shape.can_sign {
        match DetachedSignature::sign_binary_data(&mut rng, &reimported.primary_key, &right_pw, hash_for(&shape.primary), &data[..]) {
            Ok(d) => {
                if let Err(e) = d.verify(&pubk.primary_key, data) {
                    rec.soft_fail("C07:signature-by-generated-key-does-not-verify", format!("{e}; {}", ctxs()));
                }
            }
            Err(e) => rec.soft_fail("C07:generated-key-cannot-sign", format!("{e}; {}", ctxs())),
        }
        if shape.lock_primary && DetachedSignature::sign_binary_data(&mut rng, &reimported.primary_key, &Password::from("wrong"), hash_for(&shape.primary), &data[..]).is_ok() {
            rec.soft_fail("C07:locked-key-signs-with-wrong-password", ctxs());
        }
    }
    // signing subkeys
    for (i, ((kt, signing), ssk)) in shape.subkeys.iter().zip(reimported.secret_subkeys.iter()).enumerate() {
        let sub_pw = if shape.lock_subkeys { Password::from(PW) } else { Password::empty() };
        if *signing {
            match DetachedSignature::sign_binary_data(&mut rng, &ssk.key, &sub_pw, hash_for(kt), &data[..]) {
                Ok(d) => {
                    if let Err(e) = d.verify(&pubk.public_subkeys[i].key, data) {
                        rec.soft_fail("C07:signature-by-generated-subkey-does-not-verify", format!("{kt:?}: {e}; {}", ctxs()));
                    }
                }
                Err(e) => rec.soft_fail("C07:generated-subkey-cannot-sign", format!("{kt:?}: {e}; {}", ctxs())),
            }
        } else {
            // encrypt to this subkey, decrypt with the (re-imported) certificate
            let payload = b"to the generated subkey".to_vec();
            let enc = if shape.v6 {
                let mut mb = MessageBuilder::from_bytes("", payload.clone()).seipd_v2(&mut rng, SymmetricKeyAlgorithm::AES128, AeadAlgorithm::Ocb, ChunkSize::C64B);
                match mb.encrypt_to_key(&mut rng, &pubk.public_subkeys[i]).map(|_| ()) {
                    Ok(()) => mb.to_vec(&mut rng).map_err(|e| e.to_string()),
                    Err(e) => Err(e.to_string()),
                }
            } else {
                let mut mb = MessageBuilder::from_bytes("", payload.clone()).seipd_v1(&mut rng, SymmetricKeyAlgorithm::AES128);
                match mb.encrypt_to_key(&mut rng, &pubk.public_subkeys[i]).map(|_| ()) {
                    Ok(()) => mb.to_vec(&mut rng).map_err(|e| e.to_string()),
                    Err(e) => Err(e.to_string()),
                }
            };
            match enc {
                Err(e) => rec.soft_fail("C07:cannot-encrypt-to-generated-subkey", format!("{kt:?}: {e}; {}", ctxs())),
                Ok(ct) => {
                    let parsed = Message::from_bytes(&ct[..]);
                    let res = parsed.map_err(|e| e.to_string()).and_then(|m| m.decrypt(&sub_pw, &reimported).map_err(|e| e.to_string())).and_then(|mut m| {
                        let mut o = vec![];
                        m.read_to_end(&mut o).map_err(|e| e.to_string())?;
                        Ok(o)
                    });
                    match res {
                        Ok(o) => {
                            rec.check(o == payload, "C07:generated-subkey-decrypts-to-different-plaintext", || format!("{kt:?}"));
                        }
                        Err(e) => rec.soft_fail("C07:generated-subkey-cannot-decrypt", format!("{kt:?}: {e}; {}", ctxs())),
                    }
                    if shape.lock_subkeys {
                        let parsed = Message::from_bytes(&ct[..]);
                        if let Ok(m) = parsed {
                            if m.decrypt(&Password::from("wrong"), &reimported).is_ok() {
                                rec.soft_fail("C07:locked-subkey-decrypts-with-wrong-password", format!("{kt:?}"));
                            }
                        };
                    }
                }
            }
        }
    }
    Ok(())
}

/// illegal mixes must be refused by build()/generate()
fn negative_case(t: &mut Tape, rec: &mut Rec) -> CaseResult {
    let class = t.u64() as usize % 5;
    let mut b = SecretKeyParamsBuilder::default();
    let what = match class {
        0 => {
            b.version(KeyVersion::V6).key_type(KeyType::Ed25519).can_sign(true);
            b.subkey(SubkeyParamsBuilder::default().version(KeyVersion::V4).key_type(KeyType::X25519).can_encrypt(EncryptionCaps::All).build().unwrap());
            "v6 primary with v4 subkey"
        }
        1 => {
            b.version(KeyVersion::V4).key_type(KeyType::Ed25519).can_sign(true).primary_user_id("a".into());
            b.subkey(SubkeyParamsBuilder::default().version(KeyVersion::V6).key_type(KeyType::X25519).can_encrypt(EncryptionCaps::All).build().unwrap());
            "v4 primary with v6 subkey"
        }
        2 => {
            b.version(KeyVersion::V6).key_type(KeyType::Ed25519Legacy).can_sign(true);
            "Ed25519Legacy in a v6 key"
        }
        3 => {
            b.version(KeyVersion::V6).key_type(KeyType::Ed25519).can_sign(true);
            b.subkey(SubkeyParamsBuilder::default().version(KeyVersion::V6).key_type(KeyType::ECDH(ECCCurve::Curve25519Legacy)).can_encrypt(EncryptionCaps::All).build().unwrap());
            "Curve25519Legacy subkey in a v6 key"
        }
        _ => {
            b.version(KeyVersion::V4).key_type(KeyType::X25519).can_sign(true).primary_user_id("a".into());
            "signing flag on an encryption-only key type"
        }
    };
    rec.nontrivial(class);
    rec.describe(|| format!("illegal shape: {what}"));
    let ok = match b.build() {
        Err(_) => false,
        Ok(p) => p.generate(ChaCha8Rng::seed_from_u64(1)).is_ok(),
    };
    if ok {
        return fail("C07:illegal-key-shape-generated", what.to_string());
    }
    Ok(())
}

pub fn run(ctx: &Ctx) {
    ctx.set_rule("shape = {v4,v6} x primary {Ed25519Legacy, Ed25519, Ed448, ECDSA P-256/P-384/P-521/secp256k1, RSA-2048, DSA-2048} x 0..3 subkeys {ECDH Curve25519Legacy/P-256/P-384/P-521, X25519, X448, RSA, signing subkeys} x {unlocked, primary locked, subkeys locked (CFB iterated / AEAD Argon2 with tiny cost)} x 0..3 user ids x flags x preferences x header format, each with its own RNG seed; oracle: bindings verify on secret and public key (back signatures checked explicitly), binary and armored export/import equality for both halves, fingerprints agree, flags/preferences/features equal the request, signing keys and subkeys sign (and refuse a wrong password), encryption subkeys decrypt what was encrypted to them (and refuse a wrong password), exported bytes de-frame legally and decode with the own key decoder; illegal shapes are refused; leading-zero occurrences are measured (labels); non-trivial = every generated key; distinct = (shape, seed)");
    ctx.assume("leading-zero MPI/scalar cases occur with probability 1/256 per field and seed: their count is measured and reported under classes, not guaranteed");
    let n = ctx.tier.pick(4000u64, 320_000);
    ctx.group("cheap-shapes", Source::Random { n, tape_len: 160 }, |t, rec| key_case(t, rec, true));
    let n = ctx.tier.pick(60u64, 6_000);
    ctx.group("expensive-shapes", Source::Random { n, tape_len: 160 }, |t, rec| key_case(t, rec, false));
    ctx.group("illegal-shapes", Source::Indexed { count: 5 }, negative_case);
}
