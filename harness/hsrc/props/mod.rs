use crate::engine::Ctx;

pub mod c10;

pub type Runner = fn(&Ctx);

pub fn lookup(id: &str) -> Option<(&'static str, Runner)> {
    Some(match id {
        "C10" => ("C10", c10::run as Runner),
        _ => return None,
    })
}
