use crate::engine::Ctx;

pub mod c01;
pub mod c02;
pub mod c03;
pub mod c04;
pub mod c05;
pub mod c06;
pub mod c07;
pub mod c08;
pub mod c09;
pub mod c10;
pub mod c11;
pub mod c12;
pub mod c13;
pub mod c14;
pub mod c15;
pub mod c16;
pub mod c17;
pub mod c18;
pub mod c19;

pub type Runner = fn(&Ctx);

pub fn lookup(id: &str) -> Option<(&'static str, Runner)> {
    Some(match id {
        "C01" => ("C01", c01::run as Runner),
        "C02" => ("C02", c02::run as Runner),
        "C03" => ("C03", c03::run as Runner),
        "C04" => ("C04", c04::run as Runner),
        "C05" => ("C05", c05::run as Runner),
        "C06" => ("C06", c06::run as Runner),
        "C07" => ("C07", c07::run as Runner),
        "C08" => ("C08", c08::run as Runner),
        "C09" => ("C09", c09::run as Runner),
        "C10" => ("C10", c10::run as Runner),
        "C11" => ("C11", c11::run as Runner),
        "C12" => ("C12", c12::run as Runner),
        "C13" => ("C13", c13::run as Runner),
        "C14" => ("C14", c14::run as Runner),
        "C15" => ("C15", c15::run as Runner),
        "C16" => ("C16", c16::run as Runner),
        "C17" => ("C17", c17::run as Runner),
        "C18" => ("C18", c18::run as Runner),
        "C19" => ("C19", c19::run as Runner),
        _ => return None,
    })
}
