//! Coverage-guided driver: libFuzzer (cargo-fuzz target `vfuzz`) feeds byte strings that are used
//! as tapes of one group's case function. The group is chosen by VERIF_FUZZ_PROP / VERIF_FUZZ_GROUP.
//! The case function, its generators and its oracle are exactly those of the seeded driver; only
//! the source of tapes differs. An input that yields a failure not listed in known_findings.json
//! aborts the process, so libFuzzer saves it; tools/fuzz_slice.sh turns the saved input into a
//! replay file and re-judges it with `vcheck <ID> replay` (which also covers crashes proper).

use std::path::PathBuf;
use std::sync::OnceLock;
use std::time::{Duration, Instant};

use crate::engine::{self, run, Ctx, FuzzVerdict, Tier};

static STARTED: OnceLock<()> = OnceLock::new();
static COUNTS: [std::sync::atomic::AtomicU64; 4] = [const { std::sync::atomic::AtomicU64::new(0) }; 4];

fn start() {
    let prop = std::env::var("VERIF_FUZZ_PROP").expect("VERIF_FUZZ_PROP");
    let group = std::env::var("VERIF_FUZZ_GROUP").expect("VERIF_FUZZ_GROUP");
    let root = PathBuf::from(std::env::var("VERIF_ROOT").unwrap_or_else(|_| "/verif".into()));
    let seed = std::env::var("VERIF_SEED").ok().and_then(|s| s.trim().parse::<u64>().ok()).unwrap_or(1);
    let Some((name, runner)) = crate::props::lookup(&prop) else {
        eprintln!("FUZZ-SETUP unknown property {prop}");
        std::process::exit(2);
    };
    // libfuzzer-sys installs a hook that aborts on every panic; the engine needs to catch them
    run::install_panic_hook();
    std::thread::Builder::new()
        .stack_size(64 << 20)
        .name("verif-runner".into())
        .spawn(move || {
            let known = engine::load_known(&root);
            let mut ctx = Ctx::new(name, Tier::Thorough, seed, root, known, None);
            ctx.fuzz_group = Some(group.clone());
            runner(&ctx);
            eprintln!("FUZZ-SETUP group {group} not found in {name}");
            std::process::exit(2);
        })
        .expect("spawn runner");
    let t0 = Instant::now();
    while engine::fuzz_case().is_none() {
        if t0.elapsed() > Duration::from_secs(900) {
            eprintln!("FUZZ-SETUP timeout waiting for the group");
            std::process::exit(2);
        }
        std::thread::sleep(Duration::from_millis(5));
    }
}

/// One fuzzer input.
pub fn one(data: &[u8]) {
    STARTED.get_or_init(start);
    let case = engine::fuzz_case().expect("case");
    use std::sync::atomic::Ordering::Relaxed;
    match case(data) {
        FuzzVerdict::Pass => {
            COUNTS[0].fetch_add(1, Relaxed);
        }
        FuzzVerdict::Discarded => {
            COUNTS[1].fetch_add(1, Relaxed);
        }
        FuzzVerdict::Known(_) => {
            COUNTS[2].fetch_add(1, Relaxed);
        }
        FuzzVerdict::Violation(sig, detail) => {
            eprintln!("FUZZ-VIOLATION signature={sig} detail={detail}");
            std::process::abort();
        }
        FuzzVerdict::HarnessPanic(m) => {
            eprintln!("FUZZ-HARNESS-PANIC {m}");
            std::process::abort();
        }
    }
    let n = COUNTS[0].load(Relaxed) + COUNTS[1].load(Relaxed) + COUNTS[2].load(Relaxed);
    if n % 50_000 == 0 {
        eprintln!("FUZZ-COUNTS pass={} discarded={} known={}", COUNTS[0].load(Relaxed), COUNTS[1].load(Relaxed), COUNTS[2].load(Relaxed));
    }
}

/// final counters (printed by the target's atexit path through FUZZ-COUNTS lines)
pub fn counts() -> (u64, u64, u64) {
    use std::sync::atomic::Ordering::Relaxed;
    (COUNTS[0].load(Relaxed), COUNTS[1].load(Relaxed), COUNTS[2].load(Relaxed))
}
