//! Recording wrappers around keys: implementations of rPGP's public `SigningKey` / `VerifyingKey`
//! traits that delegate metadata to a real key and record the digest they are handed.

use std::sync::Mutex;

use pgp::crypto::hash::HashAlgorithm;
use pgp::crypto::public_key::PublicKeyAlgorithm;
use pgp::types::{
    Fingerprint, KeyDetails, KeyId, KeyVersion, Password, PublicParams, SignatureBytes, SigningKey,
    Timestamp, VerifyingKey,
};

/// Signs nothing: records (hash algorithm, digest) and returns a dummy signature value. With
/// `inner_sign` = true it delegates to the wrapped secret key so the signature is real.
pub struct RecordingSigner<'a, K: SigningKey> {
    pub key: &'a K,
    pub seen: Mutex<Vec<(HashAlgorithm, Vec<u8>)>>,
    pub real: bool,
    /// report this version instead of the key's (liar signer for version-alignment checks)
    pub lie_version: Option<KeyVersion>,
}

impl<'a, K: SigningKey> RecordingSigner<'a, K> {
    pub fn new(key: &'a K, real: bool) -> Self {
        RecordingSigner { key, seen: Mutex::new(vec![]), real, lie_version: None }
    }
    pub fn digests(&self) -> Vec<(HashAlgorithm, Vec<u8>)> {
        self.seen.lock().unwrap().clone()
    }
    pub fn last(&self) -> Option<Vec<u8>> {
        self.seen.lock().unwrap().last().map(|x| x.1.clone())
    }
}

impl<K: SigningKey> std::fmt::Debug for RecordingSigner<'_, K> {
    fn fmt(&self, f: &mut std::fmt::Formatter<'_>) -> std::fmt::Result {
        write!(f, "RecordingSigner({:?})", self.key.fingerprint())
    }
}

impl<K: SigningKey> KeyDetails for RecordingSigner<'_, K> {
    fn version(&self) -> KeyVersion {
        self.lie_version.unwrap_or_else(|| self.key.version())
    }
    fn legacy_key_id(&self) -> KeyId {
        self.key.legacy_key_id()
    }
    fn fingerprint(&self) -> Fingerprint {
        self.key.fingerprint()
    }
    fn algorithm(&self) -> PublicKeyAlgorithm {
        self.key.algorithm()
    }
    fn created_at(&self) -> Timestamp {
        self.key.created_at()
    }
    fn legacy_v3_expiration_days(&self) -> Option<u16> {
        self.key.legacy_v3_expiration_days()
    }
    fn public_params(&self) -> &PublicParams {
        self.key.public_params()
    }
}

impl<K: SigningKey> SigningKey for RecordingSigner<'_, K> {
    fn sign(&self, key_pw: &Password, hash: HashAlgorithm, data: &[u8]) -> pgp::errors::Result<SignatureBytes> {
        self.seen.lock().unwrap().push((hash, data.to_vec()));
        if self.real {
            self.key.sign(key_pw, hash, data)
        } else {
            Ok(SignatureBytes::Native(vec![0u8; 64].into()))
        }
    }
    fn hash_alg(&self) -> HashAlgorithm {
        self.key.hash_alg()
    }
}

pub struct RecordingVerifier<'a, K: VerifyingKey> {
    pub key: &'a K,
    pub seen: Mutex<Vec<(HashAlgorithm, Vec<u8>)>>,
    /// if false, accept without consulting the key (digest capture only)
    pub real: bool,
}

impl<'a, K: VerifyingKey> RecordingVerifier<'a, K> {
    pub fn new(key: &'a K, real: bool) -> Self {
        RecordingVerifier { key, seen: Mutex::new(vec![]), real }
    }
    pub fn last(&self) -> Option<Vec<u8>> {
        self.seen.lock().unwrap().last().map(|x| x.1.clone())
    }
}

impl<K: VerifyingKey> std::fmt::Debug for RecordingVerifier<'_, K> {
    fn fmt(&self, f: &mut std::fmt::Formatter<'_>) -> std::fmt::Result {
        write!(f, "RecordingVerifier({:?})", self.key.fingerprint())
    }
}

impl<K: VerifyingKey> KeyDetails for RecordingVerifier<'_, K> {
    fn version(&self) -> KeyVersion {
        self.key.version()
    }
    fn legacy_key_id(&self) -> KeyId {
        self.key.legacy_key_id()
    }
    fn fingerprint(&self) -> Fingerprint {
        self.key.fingerprint()
    }
    fn algorithm(&self) -> PublicKeyAlgorithm {
        self.key.algorithm()
    }
    fn created_at(&self) -> Timestamp {
        self.key.created_at()
    }
    fn legacy_v3_expiration_days(&self) -> Option<u16> {
        self.key.legacy_v3_expiration_days()
    }
    fn public_params(&self) -> &PublicParams {
        self.key.public_params()
    }
}

impl<K: VerifyingKey> VerifyingKey for RecordingVerifier<'_, K> {
    fn verify(&self, hash: HashAlgorithm, data: &[u8], sig: &SignatureBytes) -> pgp::errors::Result<()> {
        self.seen.lock().unwrap().push((hash, data.to_vec()));
        if self.real {
            self.key.verify(hash, data, sig)
        } else {
            Ok(())
        }
    }
}

impl<K: VerifyingKey + pgp::ser::Serialize> pgp::ser::Serialize for RecordingVerifier<'_, K> {
    fn to_writer<W: std::io::Write>(&self, w: &mut W) -> pgp::errors::Result<()> {
        self.key.to_writer(w)
    }
    fn write_len(&self) -> usize {
        self.key.write_len()
    }
}
