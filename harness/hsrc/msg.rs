//! Message configurations: decoded from the tape, built with rPGP's MessageBuilder, opened with
//! rPGP's Message reader. Shared by C01, C03, C09, C17, C18.

use std::io::{Read, Write};

use pgp::composed::{ArmorOptions, Encryption, Message, MessageBuilder, PlainSessionKey, RawSessionKey};
use pgp::crypto::aead::{AeadAlgorithm, ChunkSize};
use pgp::crypto::hash::HashAlgorithm;
use pgp::crypto::sym::SymmetricKeyAlgorithm;
use pgp::packet::DataMode;
use pgp::types::{CompressionAlgorithm, Password, StringToKey};
use rand::{RngCore, SeedableRng};
use rand_chacha::ChaCha8Rng;

use crate::engine::{Rec, Tape};
use crate::io::{Sched, SchedRead};
use crate::zoo::{self, Kind};

pub const CIPHERS: [SymmetricKeyAlgorithm; 11] = [
    SymmetricKeyAlgorithm::AES128,
    SymmetricKeyAlgorithm::AES192,
    SymmetricKeyAlgorithm::AES256,
    SymmetricKeyAlgorithm::IDEA,
    SymmetricKeyAlgorithm::TripleDES,
    SymmetricKeyAlgorithm::CAST5,
    SymmetricKeyAlgorithm::Blowfish,
    SymmetricKeyAlgorithm::Twofish,
    SymmetricKeyAlgorithm::Camellia128,
    SymmetricKeyAlgorithm::Camellia192,
    SymmetricKeyAlgorithm::Camellia256,
];
pub const AES: [SymmetricKeyAlgorithm; 3] = [SymmetricKeyAlgorithm::AES128, SymmetricKeyAlgorithm::AES192, SymmetricKeyAlgorithm::AES256];
pub const AEADS: [AeadAlgorithm; 3] = [AeadAlgorithm::Eax, AeadAlgorithm::Ocb, AeadAlgorithm::Gcm];

pub fn chunk_size(i: u8) -> ChunkSize {
    ChunkSize::try_from(i.min(16)).unwrap_or_default()
}

#[derive(Clone, Debug)]
pub enum SrcKind {
    Bytes,
    Reader(Sched),
    File,
}

#[derive(Clone, Copy, Debug, PartialEq, Eq)]
pub enum Enc {
    None,
    V1(SymmetricKeyAlgorithm),
    V2(SymmetricKeyAlgorithm, AeadAlgorithm, u8),
}

#[derive(Clone, Copy, Debug, PartialEq, Eq, Hash)]
pub enum S2kKind {
    Simple,
    Salted,
    Iterated(u8),
    Argon2,
}

#[derive(Clone, Debug)]
pub struct PwSpec {
    pub pw: Vec<u8>,
    pub s2k: S2kKind,
}

#[derive(Clone, Debug)]
pub struct MsgConfig {
    pub src: SrcKind,
    pub utf8: bool,
    pub chunk: u32,
    pub compression: Option<CompressionAlgorithm>,
    pub signers: Vec<(Kind, HashAlgorithm)>,
    pub sign_text: bool,
    pub enc: Enc,
    pub passwords: Vec<PwSpec>,
    pub recipients: Vec<(Kind, bool)>,
    /// Some(include_checksum)
    pub armor: Option<bool>,
    pub seed: [u8; 32],
    /// use explicit subpackets with a fixed creation time (output is then independent of the clock)
    pub fixed_sig_time: bool,
    /// issuer hints of explicit subpackets (only with fixed_sig_time): 0 = fingerprint (hashed) and,
    /// for v4 keys, key id (unhashed); 1 = fingerprint only; 2 = key id only (v4); 3 = none
    pub issuer_hints: u8,
}

pub struct DrawOpts<'a> {
    pub signers: &'a [Kind],
    pub recipients: &'a [Kind],
    pub max_chunk_exp: u32,
    pub allow_file: bool,
    pub allow_big_aead_chunks: bool,
}

impl MsgConfig {
    pub fn plain() -> Self {
        MsgConfig {
            src: SrcKind::Bytes,
            utf8: false,
            chunk: 512,
            compression: None,
            signers: vec![],
            sign_text: false,
            enc: Enc::None,
            passwords: vec![],
            recipients: vec![],
            armor: None,
            seed: [7; 32],
            fixed_sig_time: true,
            issuer_hints: 0,
        }
    }

    pub fn draw(t: &mut Tape, o: &DrawOpts) -> Self {
        let src = match t.below(4) {
            0 => SrcKind::Bytes,
            1 if o.allow_file => SrcKind::File,
            _ => SrcKind::Reader(Sched::draw(t, 70000, &[512, 1024, 2048, 4096, 8192, 16384])),
        };
        let utf8 = t.chance(50);
        let chunk = if t.chance(200) { 1u32 << t.range(9, 12.min(o.max_chunk_exp as usize)) } else { 1u32 << t.range(9, o.max_chunk_exp as usize) };
        let compression = match t.below(8) {
            0 => Some(CompressionAlgorithm::ZIP),
            1 => Some(CompressionAlgorithm::ZLIB),
            2 => Some(CompressionAlgorithm::BZip2),
            3 => Some(CompressionAlgorithm::Uncompressed),
            _ => None,
        };
        let nsign = match t.below(8) {
            0..=2 => 0,
            3..=5 => 1,
            6 => 2,
            _ => 3,
        };
        let mut signers = vec![];
        for _ in 0..nsign {
            let k = *t.pick(o.signers);
            let h = *t.pick(k.hashes());
            signers.push((k, h));
        }
        let sign_text = t.chance(90);
        let enc = match t.below(5) {
            0 | 1 => Enc::None,
            2 => Enc::V1(if t.chance(128) { SymmetricKeyAlgorithm::AES128 } else { *t.pick(&CIPHERS) }),
            _ => {
                let cs = if o.allow_big_aead_chunks && t.chance(25) { t.range(7, 16) as u8 } else { t.range(0, 6) as u8 };
                Enc::V2(*t.pick(&AES), *t.pick(&AEADS), cs)
            }
        };
        let mut passwords = vec![];
        let mut recipients = vec![];
        if enc != Enc::None {
            let npw = match t.below(6) {
                0..=2 => 0,
                3 | 4 => 1,
                _ => t.range(2, 3),
            };
            for i in 0..npw {
                let pw = match t.below(4) {
                    0 => vec![],
                    1 => format!("pässwörd-{i}").into_bytes(),
                    2 => vec![0xff, 0xfe, i as u8, 0x00, 0x80],
                    _ => format!("pw{i}").into_bytes(),
                };
                let s2k = match t.below(5) {
                    0 => S2kKind::Salted,
                    1 => S2kKind::Argon2,
                    _ => S2kKind::Iterated(*t.pick(&[0u8, 1, 16, 96])),
                };
                passwords.push(PwSpec { pw, s2k });
            }
            let nrec = match t.below(6) {
                0 | 1 => 0,
                2..=4 => 1,
                _ => t.range(2, 3),
            };
            for _ in 0..nrec {
                recipients.push((*t.pick(o.recipients), t.chance(60)));
            }
        }
        let armor = match t.below(6) {
            0 => Some(true),
            1 => Some(false),
            _ => None,
        };
        MsgConfig { src, utf8, chunk, compression, signers, sign_text, enc, passwords, recipients, armor, seed: t.seed32(), fixed_sig_time: t.bool(), issuer_hints: if t.chance(60) { t.range(1, 3) as u8 } else { 0 } }
    }

    pub fn labels(&self, rec: &mut Rec) {
        rec.label(match &self.src {
            SrcKind::Bytes => "src:bytes",
            SrcKind::Reader(_) => "src:reader",
            SrcKind::File => "src:file",
        });
        rec.label(format!("partial-chunk:2^{}", self.chunk.trailing_zeros()));
        rec.label(format!("compression:{:?}", self.compression));
        rec.label(format!("signers:{}", self.signers.len()));
        for (k, _) in &self.signers {
            rec.label(format!("signer:{k:?}"));
        }
        match self.enc {
            Enc::None => rec.label("enc:none"),
            Enc::V1(c) => {
                rec.label("enc:seipdv1");
                rec.label(format!("cipher:{c:?}"));
            }
            Enc::V2(c, a, cs) => {
                rec.label("enc:seipdv2");
                rec.label(format!("aead:{a:?}/{c:?}"));
                rec.label(format!("aead-chunk:2^{}", cs as u32 + 6));
            }
        }
        rec.label(format!("esk:pw={},pk={}", self.passwords.len(), self.recipients.len()));
        for (k, anon) in &self.recipients {
            rec.label(format!("recipient:{k:?}{}", if *anon { ":anon" } else { "" }));
        }
        for p in &self.passwords {
            rec.label(format!("s2k:{:?}", p.s2k));
        }
        rec.label(match self.armor {
            None => "armor:off",
            Some(true) => "armor:crc",
            Some(false) => "armor:nocrc",
        });
        if self.utf8 {
            rec.label("mode:utf8");
        }
    }

    pub fn describe(&self) -> String {
        format!(
            "src={} utf8={} chunk={} comp={:?} signers={:?} text={} enc={:?} pw={:?} rcpt={:?} armor={:?}",
            match &self.src {
                SrcKind::Bytes => "bytes".to_string(),
                SrcKind::File => "file".to_string(),
                SrcKind::Reader(s) => format!("reader{}", s.describe()),
            },
            self.utf8,
            self.chunk,
            self.compression,
            self.signers,
            self.sign_text,
            self.enc,
            self.passwords.iter().map(|p| (String::from_utf8_lossy(&p.pw).to_string(), p.s2k)).collect::<Vec<_>>(),
            self.recipients,
            self.armor
        )
    }

    /// a hashable key describing the configuration shape
    pub fn shape_key(&self) -> String {
        format!(
            "{}|{}|{}|{:?}|{:?}|{}|{:?}|{}|{:?}|{:?}",
            match &self.src {
                SrcKind::Bytes => "b",
                SrcKind::File => "f",
                SrcKind::Reader(_) => "r",
            },
            self.utf8,
            self.chunk,
            self.compression,
            self.signers,
            self.sign_text,
            self.enc,
            self.passwords.len(),
            self.recipients,
            self.armor
        )
    }

    fn s2k(&self, kind: S2kKind, rng: &mut ChaCha8Rng) -> StringToKey {
        match kind {
            S2kKind::Simple => StringToKey::Simple { hash_alg: HashAlgorithm::Sha256 },
            S2kKind::Salted => {
                let mut salt = [0u8; 8];
                rng.fill_bytes(&mut salt);
                StringToKey::Salted { hash_alg: HashAlgorithm::Sha256, salt }
            }
            S2kKind::Iterated(c) => StringToKey::new_iterated(rng, HashAlgorithm::Sha256, c),
            S2kKind::Argon2 => StringToKey::new_argon2(rng, 1, 1, 4),
        }
    }

    pub fn session_key_len(&self) -> usize {
        match self.enc {
            Enc::None => 0,
            Enc::V1(c) | Enc::V2(c, _, _) => c.key_size(),
        }
    }

    /// the session key the builder will be told to use (so the harness knows it)
    pub fn session_key(&self) -> Vec<u8> {
        let mut rng = ChaCha8Rng::from_seed(self.seed);
        let mut k = vec![0u8; self.session_key_len()];
        rng.fill_bytes(&mut k);
        // a session key of all zero bytes etc. is fine; keep as drawn
        k
    }

    pub fn plain_session_key(&self) -> Option<PlainSessionKey> {
        match self.enc {
            Enc::None => None,
            Enc::V1(c) => Some(PlainSessionKey::V3_4 { sym_alg: c, key: RawSessionKey::from(self.session_key()) }),
            Enc::V2(..) => Some(PlainSessionKey::V6 { key: RawSessionKey::from(self.session_key()) }),
        }
    }

    fn finish<R: Read, E: Encryption, W: Write>(&self, b: MessageBuilder<'_, R, E>, rng: &mut ChaCha8Rng, mut out: W) -> pgp::errors::Result<()> {
        match self.armor {
            None => b.to_writer(rng, &mut out),
            Some(crc) => b.to_armored_writer(rng, ArmorOptions { headers: None, include_checksum: crc }, &mut out),
        }
    }

    fn with_source<R: Read, W: Write>(&self, mut b: MessageBuilder<'_, R>, out: W) -> pgp::errors::Result<()> {
        let mut rng = ChaCha8Rng::from_seed(self.seed);
        // burn the bytes used for the session key so that later draws differ from it
        let mut burn = [0u8; 32];
        rng.fill_bytes(&mut burn);
        if self.utf8 {
            b.data_mode(DataMode::Utf8)?;
        }
        b.partial_chunk_size(self.chunk)?;
        if let Some(c) = self.compression {
            b.compression(c);
        }
        if self.sign_text {
            b.sign_text();
        }
        let keys: Vec<&'static zoo::ZKey> = self.signers.iter().map(|(k, _)| zoo::get(*k)).collect();
        for (z, (_, h)) in keys.iter().zip(self.signers.iter()) {
            if self.fixed_sig_time {
                use pgp::packet::{Subpacket, SubpacketData};
                use pgp::types::KeyDetails;
                let key = &z.secret.primary_key;
                let mut hashed = vec![];
                if self.issuer_hints == 0 || self.issuer_hints == 1 {
                    hashed.push(Subpacket::regular(SubpacketData::IssuerFingerprint(key.fingerprint()))?);
                }
                hashed.push(Subpacket::regular(SubpacketData::SignatureCreationTime(pgp::types::Timestamp::from_secs(1_700_000_777)))?);
                let mut unhashed = vec![];
                if z.version != pgp::types::KeyVersion::V6 && (self.issuer_hints == 0 || self.issuer_hints == 2) {
                    unhashed.push(Subpacket::regular(SubpacketData::IssuerKeyId(key.legacy_key_id()))?);
                }
                b.sign_with_subpackets(key, Password::empty(), *h, pgp::composed::SubpacketConfig::UserDefined { hashed, unhashed });
            } else {
                b.sign(&z.secret.primary_key, Password::empty(), *h);
            }
        }
        match self.enc {
            Enc::None => self.finish(b, &mut rng, out),
            Enc::V1(c) => {
                let mut b = b.seipd_v1(&mut rng, c);
                b.set_session_key(RawSessionKey::from(self.session_key()))?;
                for p in &self.passwords {
                    let s2k = self.s2k(p.s2k, &mut rng);
                    b.encrypt_with_password(s2k, &Password::from(&p.pw[..]))?;
                }
                for (k, anon) in &self.recipients {
                    let sub = &zoo::get(*k).public.public_subkeys[0];
                    if *anon {
                        b.encrypt_to_key_anonymous(&mut rng, sub)?;
                    } else {
                        b.encrypt_to_key(&mut rng, sub)?;
                    }
                }
                self.finish(b, &mut rng, out)
            }
            Enc::V2(c, a, cs) => {
                let mut b = b.seipd_v2(&mut rng, c, a, chunk_size(cs));
                b.set_session_key(RawSessionKey::from(self.session_key()))?;
                for p in &self.passwords {
                    let s2k = self.s2k(p.s2k, &mut rng);
                    b.encrypt_with_password(&mut rng, s2k, &Password::from(&p.pw[..]))?;
                }
                for (k, anon) in &self.recipients {
                    let sub = &zoo::get(*k).public.public_subkeys[0];
                    if *anon {
                        b.encrypt_to_key_anonymous(&mut rng, sub)?;
                    } else {
                        b.encrypt_to_key(&mut rng, sub)?;
                    }
                }
                self.finish(b, &mut rng, out)
            }
        }
    }

    /// Build the message into `out`. `src_override` replaces the configured source (fault runs).
    pub fn build_to<W: Write>(&self, payload: &[u8], src_override: Option<SchedRead>, out: W) -> pgp::errors::Result<()> {
        if let Some(r) = src_override {
            return self.with_source(MessageBuilder::from_reader("", r), out);
        }
        match &self.src {
            SrcKind::Bytes => self.with_source(MessageBuilder::from_bytes("name-is-dropped.txt", payload.to_vec()), out),
            SrcKind::Reader(s) => self.with_source(MessageBuilder::from_reader("name-is-dropped.txt", SchedRead::new(payload.to_vec(), s.clone())), out),
            SrcKind::File => {
                let dir = tmp_dir();
                let mut f = tempfile::NamedTempFile::new_in(dir)?;
                f.write_all(payload)?;
                f.flush()?;
                self.with_source(MessageBuilder::from_file(f.path()), out)
            }
        }
    }

    /// Build from an arbitrary (possibly generated, unbounded-memory-free) source into `out`.
    pub fn build_from_reader<R: Read, W: Write>(&self, src: R, out: W) -> pgp::errors::Result<()> {
        self.with_source(MessageBuilder::from_reader("", src), out)
    }

    pub fn build(&self, payload: &[u8]) -> pgp::errors::Result<Vec<u8>> {
        let mut out = Vec::new();
        self.build_to(payload, None, &mut out)?;
        Ok(out)
    }
}

pub fn tmp_dir() -> std::path::PathBuf {
    let root = std::env::var("VERIF_ROOT").unwrap_or_else(|_| "/verif".into());
    let d = std::path::PathBuf::from(root).join("harness").join("target").join("tmp");
    let _ = std::fs::create_dir_all(&d);
    d
}

/// How to open an encrypted message.
#[derive(Clone, Debug)]
pub enum Opener {
    SessionKey,
    Password(usize),
    Recipient(usize),
    RecipientLocked(usize),
}

impl Opener {
    pub fn draw(t: &mut Tape, cfg: &MsgConfig) -> Opener {
        let mut opts = vec![Opener::SessionKey];
        for i in 0..cfg.passwords.len() {
            opts.push(Opener::Password(i));
        }
        for i in 0..cfg.recipients.len() {
            opts.push(Opener::Recipient(i));
            opts.push(Opener::RecipientLocked(i));
        }
        // prefer ESK based opening when available
        if opts.len() > 1 && t.chance(220) {
            opts[1 + t.below(opts.len() - 1)].clone()
        } else {
            opts[t.below(opts.len())].clone()
        }
    }
}

/// Parse (binary or armored according to cfg) from an arbitrary BufRead source.
pub fn parse<'a, R: std::io::BufRead + std::fmt::Debug + Send + 'a>(cfg: &MsgConfig, src: R) -> pgp::errors::Result<Message<'a>> {
    match cfg.armor {
        None => Message::from_bytes(src),
        Some(_) => Message::from_armor(src).map(|x| x.0),
    }
}

pub fn decrypt<'a>(cfg: &MsgConfig, msg: Message<'a>, opener: &Opener) -> pgp::errors::Result<Message<'a>> {
    if !msg.is_encrypted() {
        return Ok(msg);
    }
    match opener {
        Opener::SessionKey => msg.decrypt_with_session_key(cfg.plain_session_key().expect("encrypted config")),
        Opener::Password(i) => msg.decrypt_with_password(&Password::from(&cfg.passwords[*i].pw[..])),
        Opener::Recipient(i) => msg.decrypt(&Password::empty(), &zoo::get(cfg.recipients[*i].0).secret),
        Opener::RecipientLocked(i) => {
            let z = zoo::get(cfg.recipients[*i].0);
            msg.decrypt(&z.pw, &z.locked)
        }
    }
}

/// peel compression layers
pub fn peel<'a>(mut msg: Message<'a>) -> pgp::errors::Result<Message<'a>> {
    let mut guard = 0;
    while msg.is_compressed() {
        msg = msg.decompress()?;
        guard += 1;
        if guard > 64 {
            break;
        }
    }
    Ok(msg)
}

/// Text payload that is valid for DataMode::Utf8 (valid UTF-8, CRLF line endings only).
pub fn utf8_payload(seed: u64, len: usize) -> Vec<u8> {
    const PIECES: [&str; 8] = ["a", "bc", "é", "€", "\r\n", " ", "line", "\u{10348}"];
    let mut out = Vec::with_capacity(len + 4);
    let mut x = seed | 1;
    while out.len() < len {
        x ^= x << 13;
        x ^= x >> 7;
        x ^= x << 17;
        let p = PIECES[(x % 8) as usize].as_bytes();
        if out.len() + p.len() <= len {
            out.extend_from_slice(p);
        } else {
            out.push(b'.');
        }
    }
    out
}
