//! R-wire (body level): field-by-field generators of canonical RFC 9580 packet bodies, written
//! from the RFC, driven by the tape. Knows nothing about rPGP's types.

use super::wire::mpi;
use crate::engine::{expand, Tape};

pub struct Gen {
    pub tag: u8,
    pub body: Vec<u8>,
    pub what: String,
    /// classes for the coverage histogram
    pub labels: Vec<String>,
}

fn rand_bytes(t: &mut Tape, n: usize) -> Vec<u8> {
    expand(t.u64(), n)
}

/// a canonical MPI of a drawn bit length (first octet non-zero; leading zero *bits* allowed)
pub fn gen_mpi(t: &mut Tape, max_bytes: usize) -> Vec<u8> {
    let n = match t.below(6) {
        0 => 0,
        1 => 1,
        2 => t.range(1, 8),
        _ => t.range(1, max_bytes.max(1)),
    };
    if n == 0 {
        return vec![0, 0];
    }
    let mut b = rand_bytes(t, n);
    let top = match t.below(4) {
        0 => 0x01,
        1 => 0x80 | (t.u8() & 0x7f),
        _ => t.u8().max(1),
    };
    b[0] = top.max(1);
    mpi(&b)
}

/// any one-octet id: mostly a listed value, sometimes any value 0..255
pub fn id(t: &mut Tape, listed: &[u8]) -> u8 {
    if t.chance(60) {
        t.u8()
    } else {
        *t.pick(listed)
    }
}

pub const PK_ALGS: [u8; 13] = [1, 2, 3, 16, 17, 18, 19, 20, 22, 25, 26, 27, 28];
pub const HASHES: [u8; 9] = [1, 2, 3, 8, 9, 10, 11, 12, 14];
pub const SYMS: [u8; 12] = [0, 1, 2, 3, 4, 7, 8, 9, 10, 11, 12, 13];
pub const AEADS: [u8; 3] = [1, 2, 3];
pub const SIG_TYPES: [u8; 16] = [0x00, 0x01, 0x02, 0x10, 0x11, 0x12, 0x13, 0x18, 0x19, 0x1F, 0x20, 0x28, 0x30, 0x40, 0x50, 0xFF];

pub fn subpacket_len(n: usize, form: u8) -> Vec<u8> {
    // n = type octet + body
    match form {
        1 if n < 192 => vec![n as u8],
        2 if (192..16320).contains(&n) => {
            let l = n - 192;
            vec![(l >> 8) as u8 + 192, l as u8]
        }
        _ => {
            let mut v = vec![255];
            v.extend_from_slice(&(n as u32).to_be_bytes());
            v
        }
    }
}

pub fn subpacket(typ: u8, critical: bool, body: &[u8], minimal: bool) -> Vec<u8> {
    let n = body.len() + 1;
    let form = if !minimal {
        5
    } else if n < 192 {
        1
    } else if n < 16320 {
        2
    } else {
        5
    };
    let mut v = subpacket_len(n, form);
    v.push(typ | if critical { 0x80 } else { 0 });
    v.extend_from_slice(body);
    v
}

/// signature-value field for a public key algorithm id (what follows the left-16 / salt)
pub fn sig_value(t: &mut Tape, pk: u8) -> Vec<u8> {
    match pk {
        1 | 3 => gen_mpi(t, 256),
        17 | 19 | 22 => {
            let mut v = gen_mpi(t, 66);
            v.extend_from_slice(&gen_mpi(t, 66));
            v
        }
        27 => rand_bytes(t, 64),
        28 => rand_bytes(t, 114),
        _ => {
            // unknown algorithms: opaque MPI-like or raw data
            let n = t.range(0, 3);
            let mut v = vec![];
            for _ in 0..n {
                v.extend_from_slice(&gen_mpi(t, 40));
            }
            v
        }
    }
}

fn utf8_string(t: &mut Tape) -> Vec<u8> {
    match t.below(4) {
        0 => vec![],
        1 => b"hkps://keys.example.org".to_vec(),
        2 => "hkps://é.example/ключ/鍵".as_bytes().to_vec(),
        _ => {
            let n = t.range(1, 300);
            (0..n).map(|i| b'a' + (i % 26) as u8).collect()
        }
    }
}

/// one subpacket body of the given type (well formed per RFC 9580 5.2.3.x)
pub fn subpacket_body(t: &mut Tape, typ: u8, depth: u8) -> Vec<u8> {
    match typ {
        2 | 3 | 9 => t.u32().to_be_bytes().to_vec(),
        4 | 7 | 25 => vec![t.below(2) as u8],
        5 => vec![t.u8(), t.u8()],
        6 => {
            let mut v = b"<[^>]+[@.]example\\.com>$".to_vec();
            v.push(0);
            v
        }
        11 => (0..t.below(8)).map(|_| id(t, &SYMS)).collect(),
        21 => (0..t.below(8)).map(|_| id(t, &HASHES)).collect(),
        22 => (0..t.below(5)).map(|_| id(t, &[0, 1, 2, 3])).collect(),
        12 => {
            let mut v = vec![0x80 | if t.bool() { 0x40 } else { 0 }, id(t, &PK_ALGS)];
            v.extend_from_slice(&rand_bytes(t, 20));
            v
        }
        16 => rand_bytes(t, 8),
        20 => {
            let name = if t.bool() { b"proof@example.org".to_vec() } else { utf8_string(t) };
            let value = if t.bool() { utf8_string(t) } else { { let n_ = t.range(0, 40); rand_bytes(t, n_) } };
            let mut v = vec![if t.bool() { 0x80 } else { 0 }, 0, 0, 0];
            v.extend_from_slice(&(name.len() as u16).to_be_bytes());
            v.extend_from_slice(&(value.len() as u16).to_be_bytes());
            v.extend_from_slice(&name);
            v.extend_from_slice(&value);
            v
        }
        23 => (0..t.below(4)).map(|_| t.u8()).collect(),
        24 | 26 | 28 => utf8_string(t),
        27 => (0..t.below(5)).map(|_| t.u8()).collect(),
        29 => {
            let mut v = vec![id(t, &[0, 1, 2, 3, 32, 100, 110])];
            v.extend_from_slice(&utf8_string(t));
            v
        }
        30 => (0..t.below(4)).map(|_| t.u8()).collect(),
        31 => {
            let h = *t.pick(&HASHES);
            let mut v = vec![id(t, &PK_ALGS), h];
            let n = match h {
                1 => 16,
                2 | 3 => 20,
                8 | 12 => 32,
                9 => 48,
                10 | 14 => 64,
                11 => 28,
                _ => 20,
            };
            v.extend_from_slice(&rand_bytes(t, n));
            v
        }
        32 => {
            if depth == 0 {
                sig_body(t, 4, 1).0
            } else {
                let v = if t.bool() { 4 } else { 6 };
                sig_body(t, v, depth - 1).0
            }
        }
        33 | 35 => {
            if t.bool() {
                let mut v = vec![4];
                v.extend_from_slice(&rand_bytes(t, 20));
                v
            } else {
                let mut v = vec![6];
                v.extend_from_slice(&rand_bytes(t, 32));
                v
            }
        }
        34 => (0..t.below(3)).map(|_| id(t, &AEADS)).collect(),
        39 => {
            let n = t.below(4);
            let mut v = vec![];
            for _ in 0..n {
                v.push(id(t, &SYMS));
                v.push(id(t, &AEADS));
            }
            v
        }
        _ => {
            let n = t.range(0, 40);
            rand_bytes(t, n)
        }
    }
}

pub const SUBPACKET_TYPES: [u8; 27] = [2, 3, 4, 5, 6, 7, 9, 11, 12, 16, 20, 21, 22, 23, 24, 25, 26, 27, 28, 29, 30, 31, 32, 33, 34, 35, 39];

pub fn subpacket_area(t: &mut Tape, max_total: usize, labels: &mut Vec<String>, depth: u8) -> Vec<u8> {
    let n = match t.below(6) {
        0 => 0,
        1 => 1,
        2 => 2,
        3 => t.range(3, 8),
        4 => t.range(1, 30),
        _ => t.range(0, 4),
    };
    let mut area = vec![];
    for _ in 0..n {
        let typ = if t.chance(40) {
            // unknown / private / experimental ids
            *t.pick(&[0u8, 1, 8, 10, 13, 36, 37, 38, 40, 60, 99, 100, 105, 110, 127])
        } else {
            *t.pick(&SUBPACKET_TYPES)
        };
        let critical = t.chance(50);
        let body = if t.chance(10) && max_total > 20_000 {
            // a long subpacket (2- or 5-octet length)
            let n = *t.pick(&[190usize, 191, 192, 16318, 16319, 16320, 20000]);
            labels.push("subpacket:long".to_string());
            rand_bytes(t, n)
        } else {
            subpacket_body(t, typ, depth)
        };
        let typ = if body.len() > 400 && !matches!(typ, 24 | 26 | 28 | 20) { 100 } else { typ };
        // now and then a legal but non-minimal (five-octet) length form
        let minimal = !t.chance(14);
        if !minimal {
            labels.push("noncanonical-length-form".to_string());
        }
        let sp = subpacket(typ, critical, &body, minimal);
        if area.len() + sp.len() > max_total {
            break;
        }
        labels.push(format!("subpacket:{typ}{}", if critical { ":critical" } else { "" }));
        area.extend_from_slice(&sp);
    }
    area
}

/// signature packet body; returns (body, pk alg)
pub fn sig_body_l(t: &mut Tape, version: u8, depth: u8) -> (Vec<u8>, u8, Vec<String>) {
    let typ = id(t, &SIG_TYPES);
    let pk = id(t, &PK_ALGS);
    let hash = id(t, &HASHES);
    let mut labels = vec![];
    let mut v = vec![version];
    match version {
        3 | 2 => {
            v.push(5);
            v.push(typ);
            v.extend_from_slice(&t.u32().to_be_bytes());
            v.extend_from_slice(&rand_bytes(t, 8));
            v.push(pk);
            v.push(hash);
            v.extend_from_slice(&rand_bytes(t, 2));
            v.extend_from_slice(&sig_value(t, pk));
        }
        4 => {
            v.extend_from_slice(&[typ, pk, hash]);
            let big = depth > 0 && t.chance(12);
            let h = subpacket_area(t, if big { 65535 } else { 3000 }, &mut labels, depth.saturating_sub(1));
            v.extend_from_slice(&(h.len() as u16).to_be_bytes());
            v.extend_from_slice(&h);
            let u = subpacket_area(t, 2000, &mut labels, depth.saturating_sub(1));
            v.extend_from_slice(&(u.len() as u16).to_be_bytes());
            v.extend_from_slice(&u);
            v.extend_from_slice(&rand_bytes(t, 2));
            v.extend_from_slice(&sig_value(t, pk));
        }
        _ => {
            v.extend_from_slice(&[typ, pk, hash]);
            let big = depth > 0 && t.chance(12);
            let h = subpacket_area(t, if big { 200_000 } else { 3000 }, &mut labels, depth.saturating_sub(1));
            v.extend_from_slice(&(h.len() as u32).to_be_bytes());
            v.extend_from_slice(&h);
            let u = subpacket_area(t, 2000, &mut labels, depth.saturating_sub(1));
            v.extend_from_slice(&(u.len() as u32).to_be_bytes());
            v.extend_from_slice(&u);
            v.extend_from_slice(&rand_bytes(t, 2));
            let sl = match hash {
                8 | 11 | 12 => 16,
                9 => 24,
                10 | 14 => 32,
                _ => *t.pick(&[0usize, 16, 32]),
            };
            v.push(sl as u8);
            v.extend_from_slice(&rand_bytes(t, sl));
            v.extend_from_slice(&sig_value(t, pk));
        }
    }
    (v, pk, labels)
}

pub fn sig_body(t: &mut Tape, version: u8, depth: u8) -> (Vec<u8>, u8) {
    let (v, pk, _) = sig_body_l(t, version, depth);
    (v, pk)
}

pub fn gen_signature(t: &mut Tape) -> Gen {
    let version = *t.pick(&[4u8, 4, 4, 6, 6, 3]);
    let mut labels = vec![format!("sig:v{version}")];
    let (body, pk, sub) = sig_body_l(t, version, 2);
    labels.extend(sub);
    labels.push(if PK_ALGS.contains(&pk) { format!("sig:pk={pk}") } else { "sig:pk=unlisted-id".to_string() });
    labels.push(len_class(body.len()));
    Gen { tag: 2, what: format!("signature v{version} pk {pk}, {} bytes", body.len()), body, labels }
}

pub fn len_class(n: usize) -> String {
    match n {
        0..=191 => "body:<192".into(),
        192..=8383 => "body:<8384".into(),
        _ => "body:>=8384".into(),
    }
}

thread_local! {
    /// largest Argon2 memory exponent the S2K generator emits (21 = rPGP's documented 2 GiB ceiling);
    /// checks that *execute* the derivation lower it for the thread that runs the case
    static ARGON2_M_MAX: std::cell::Cell<usize> = const { std::cell::Cell::new(21) };
}

pub fn set_argon2_m_max(m: usize) {
    ARGON2_M_MAX.with(|c| c.set(m.clamp(8, 21)));
}

/// S2K specifier
pub fn s2k(t: &mut Tape) -> Vec<u8> {
    match t.below(6) {
        0 => vec![0, id(t, &HASHES)],
        1 => {
            let mut v = vec![1, id(t, &HASHES)];
            v.extend_from_slice(&rand_bytes(t, 8));
            v
        }
        2 | 3 => {
            let mut v = vec![3, id(t, &HASHES)];
            v.extend_from_slice(&rand_bytes(t, 8));
            v.push(t.u8());
            v
        }
        4 => {
            let mut v = vec![4];
            v.extend_from_slice(&rand_bytes(t, 16));
            let m_max = ARGON2_M_MAX.with(|c| c.get());
            v.extend_from_slice(&[t.range(1, 4) as u8, t.range(1, 4) as u8, t.range(8, m_max) as u8]);
            v
        }
        _ => {
            // GnuPG extension / unknown types are not canonical here: use iterated
            let mut v = vec![3, 8];
            v.extend_from_slice(&rand_bytes(t, 8));
            v.push(96);
            v
        }
    }
}

pub fn gen_skesk(t: &mut Tape) -> Gen {
    let version = *t.pick(&[4u8, 4, 6, 6, 5]);
    let sym = id(t, &SYMS);
    let mut v = vec![version];
    let mut labels = vec![format!("skesk:v{version}")];
    match version {
        4 => {
            v.push(sym);
            v.extend_from_slice(&s2k(t));
            if t.bool() {
                v.extend_from_slice(&{ let n_ = t.range(1, 40); rand_bytes(t, n_) });
                labels.push("skesk:with-esk".into());
            }
        }
        5 => {
            let aead = *t.pick(&AEADS);
            v.push(sym);
            v.push(aead);
            v.extend_from_slice(&s2k(t));
            let ivl = [16usize, 15, 12][(aead - 1) as usize];
            v.extend_from_slice(&rand_bytes(t, ivl));
            v.extend_from_slice(&{ let n_ = t.range(0, 32) + 16; rand_bytes(t, n_) });
        }
        _ => {
            let aead = *t.pick(&AEADS);
            // the v6 packet delimits the S2K specifier by a length octet, so specifiers of reserved,
            // private and unassigned types (opaque bodies) are well-formed here
            let s = if t.chance(50) {
                labels.push("skesk:v6-opaque-s2k-type".into());
                let mut o = vec![*t.pick(&[2u8, 100, 105, 110, 5, 200, 255])];
                let n_ = t.range(0, 20);
                o.extend_from_slice(&rand_bytes(t, n_));
                o
            } else {
                s2k(t)
            };
            let ivl = [16usize, 15, 12][(aead - 1) as usize];
            v.push((3 + s.len() + ivl) as u8);
            v.push(sym);
            v.push(aead);
            v.push(s.len() as u8);
            v.extend_from_slice(&s);
            v.extend_from_slice(&rand_bytes(t, ivl));
            v.extend_from_slice(&{ let n_ = t.range(0, 32) + 16; rand_bytes(t, n_) });
        }
    }
    Gen { tag: 3, what: format!("SKESK v{version} sym {sym}"), body: v, labels }
}

pub fn gen_pkesk(t: &mut Tape) -> Gen {
    let version = *t.pick(&[3u8, 3, 6, 6]);
    let pk = id(t, &[1, 2, 16, 18, 25, 26, 20, 100]);
    let mut v = vec![version];
    let mut labels = vec![format!("pkesk:v{version}"), if [1u8, 2, 16, 18, 25, 26, 20, 100].contains(&pk) { format!("pkesk:pk={pk}") } else { "pkesk:pk=unlisted-id".to_string() }];
    if version == 3 {
        if t.chance(40) {
            v.extend_from_slice(&[0; 8]);
            labels.push("pkesk:wildcard".into());
        } else {
            v.extend_from_slice(&rand_bytes(t, 8));
        }
    } else {
        match t.below(3) {
            0 => {
                v.push(0);
                labels.push("pkesk:anonymous".into());
            }
            1 => {
                v.push(21);
                v.push(4);
                v.extend_from_slice(&rand_bytes(t, 20));
            }
            _ => {
                v.push(33);
                v.push(6);
                v.extend_from_slice(&rand_bytes(t, 32));
            }
        }
    }
    v.push(pk);
    match pk {
        1 | 2 => v.extend_from_slice(&gen_mpi(t, 256)),
        16 | 20 => {
            v.extend_from_slice(&gen_mpi(t, 128));
            v.extend_from_slice(&gen_mpi(t, 128));
        }
        18 => {
            // MPI of an EC point, then one-octet length + wrapped key
            let mut p = vec![0x40];
            p.extend_from_slice(&rand_bytes(t, 32));
            v.extend_from_slice(&mpi(&p));
            let n = *t.pick(&[24usize, 32, 40, 48]);
            v.push(n as u8);
            v.extend_from_slice(&rand_bytes(t, n));
        }
        25 | 26 => {
            let kl = if pk == 25 { 32 } else { 56 };
            v.extend_from_slice(&rand_bytes(t, kl));
            let n = *t.pick(&[24usize, 32, 40]);
            if version == 3 {
                v.push((n + 1) as u8);
                v.push(*t.pick(&[7u8, 8, 9]));
            } else {
                v.push(n as u8);
            }
            v.extend_from_slice(&rand_bytes(t, n));
        }
        _ => v.extend_from_slice(&{ let n_ = t.range(0, 60); rand_bytes(t, n_) }),
    }
    Gen { tag: 1, what: format!("PKESK v{version} pk {pk}"), body: v, labels }
}

pub fn gen_ops(t: &mut Tape) -> Gen {
    let version = *t.pick(&[3u8, 3, 6]);
    let typ = id(t, &SIG_TYPES);
    let hash = id(t, &HASHES);
    let pk = id(t, &PK_ALGS);
    let mut v = vec![version, typ, hash, pk];
    if version == 3 {
        v.extend_from_slice(&rand_bytes(t, 8));
    } else {
        let sl = match hash {
            8 | 11 | 12 => 16,
            9 => 24,
            10 | 14 => 32,
            _ => 16,
        };
        v.push(sl as u8);
        v.extend_from_slice(&rand_bytes(t, sl));
        v.extend_from_slice(&rand_bytes(t, 32));
    }
    v.push(t.below(2) as u8);
    Gen { tag: 4, what: format!("OPS v{version} type {typ:#x} hash {hash} pk {pk}"), body: v, labels: vec![format!("ops:v{version}")] }
}

fn var_len(t: &mut Tape) -> usize {
    match t.below(9) {
        0 => 0,
        1 => t.range(1, 10),
        2 => *t.pick(&[180usize, 185, 186, 190, 191, 192, 193]),
        3 => *t.pick(&[8370usize, 8377, 8378, 8383, 8384, 8385]),
        4 => t.range(0, 70_000),
        // the legacy header's one / two / four octet length switches
        5 => *t.pick(&[254usize, 255, 256, 257, 65_534, 65_535, 65_536, 65_537]),
        _ => t.range(0, 2000),
    }
}

pub fn gen_simple(t: &mut Tape) -> Gen {
    match t.below(9) {
        0 => {
            let n = var_len(t);
            let name_len = *t.pick(&[0usize, 0, 1, 8, 255]);
            let mode = id(t, &[b'b', b'u', b't', b'l', b'1', b'm']);
            let mut v = vec![mode, name_len as u8];
            v.extend_from_slice(&rand_bytes(t, name_len).iter().map(|b| b'a' + b % 26).collect::<Vec<_>>());
            v.extend_from_slice(&t.u32().to_be_bytes());
            v.extend_from_slice(&rand_bytes(t, n));
            Gen { tag: 11, what: format!("literal mode {mode:#x} name {name_len} data {n}"), labels: vec!["literal".into(), len_class(v.len())], body: v }
        }
        1 => {
            let n = var_len(t);
            let alg = id(t, &[0, 1, 2, 3]);
            let mut v = vec![alg];
            v.extend_from_slice(&rand_bytes(t, n));
            Gen { tag: 8, what: format!("compressed alg {alg} data {n}"), labels: vec!["compressed".into(), len_class(v.len())], body: v }
        }
        2 => {
            let n = var_len(t);
            if t.bool() {
                let mut v = vec![1u8];
                v.extend_from_slice(&rand_bytes(t, n));
                Gen { tag: 18, what: format!("SEIPDv1 data {n}"), labels: vec!["seipd:v1".into(), len_class(v.len())], body: v }
            } else {
                let mut v = vec![2u8, id(t, &SYMS), id(t, &AEADS), t.range(0, 16) as u8];
                v.extend_from_slice(&rand_bytes(t, 32));
                v.extend_from_slice(&rand_bytes(t, n));
                Gen { tag: 18, what: format!("SEIPDv2 data {n}"), labels: vec!["seipd:v2".into(), len_class(v.len())], body: v }
            }
        }
        3 => {
            let n = var_len(t);
            let v = rand_bytes(t, n);
            Gen { tag: 9, what: format!("SED data {n}"), labels: vec!["sed".into()], body: v }
        }
        4 => Gen { tag: 10, what: "marker".into(), labels: vec!["marker".into()], body: b"PGP".to_vec() },
        5 => {
            let n = var_len(t);
            Gen { tag: 21, what: format!("padding {n}"), labels: vec!["padding".into(), len_class(n)], body: rand_bytes(t, n) }
        }
        6 => {
            let n = t.range(0, 40);
            Gen { tag: 12, what: format!("trust {n}"), labels: vec!["trust".into()], body: rand_bytes(t, n) }
        }
        7 => {
            let v = match t.below(4) {
                0 => vec![],
                1 => "Ünïcödé Üser <u@example.org>".as_bytes().to_vec(),
                2 => {
                    let n = var_len(t);
                    rand_bytes(t, n).iter().map(|b| b' ' + b % 90).collect()
                }
                _ => {
                    // not valid UTF-8
                    vec![b'a', 0xff, 0xfe, b'b']
                }
            };
            Gen { tag: 13, what: format!("user id {} bytes", v.len()), labels: vec!["userid".into(), len_class(v.len())], body: v }
        }
        _ => {
            // user attribute: sequence of subpackets (same length encoding as signature subpackets)
            let n = t.range(1, 3);
            let mut v = vec![];
            let mut noncanonical = false;
            for _ in 0..n {
                let image = t.chance(180);
                let mut sp = vec![];
                if image {
                    sp.extend_from_slice(&[0x10, 0x00, 0x01, 0x01]);
                    sp.extend_from_slice(&[0u8; 12]);
                    sp.extend_from_slice(&{ let n_ = *t.pick(&[0usize, 10, 171, 175, 176, 300, 17000]); rand_bytes(t, n_) });
                } else {
                    sp.extend_from_slice(&{ let n_ = t.range(0, 30); rand_bytes(t, n_) });
                }
                let typ = if image { 1 } else { *t.pick(&[2u8, 100, 110]) };
                let l = sp.len() + 1;
                let nonminimal = t.chance(25);
                noncanonical |= nonminimal;
                let form = if nonminimal { 5 } else if l < 192 { 1 } else if l < 16320 { 2 } else { 5 };
                v.extend_from_slice(&subpacket_len(l, form));
                v.push(typ);
                v.extend_from_slice(&sp);
            }
            let mut labels = vec!["userattr".to_string(), len_class(v.len())];
            if noncanonical {
                labels.push("noncanonical-length-form".to_string());
            }
            Gen { tag: 17, what: format!("user attribute {} subpackets, {} bytes", n, v.len()), labels, body: v }
        }
    }
}

/// public key material per algorithm, fabricated (structure only; used where rPGP does not
/// validate the mathematical content on parse) — returns None when real material is required
pub fn fake_public_params(t: &mut Tape, alg: u8) -> Vec<u8> {
    match alg {
        1 | 2 | 3 => {
            let mut n = { let n_ = *t.pick(&[128usize, 256, 384, 512]); rand_bytes(t, n_) };
            n[0] |= 0x80;
            let last = n.len() - 1;
            n[last] |= 1;
            let mut v = mpi(&n);
            v.extend_from_slice(&mpi(&[1, 0, 1]));
            v
        }
        27 => rand_bytes(t, 32),
        25 => rand_bytes(t, 32),
        28 => rand_bytes(t, 57),
        26 => rand_bytes(t, 56),
        _ => { let n_ = t.range(0, 50); rand_bytes(t, n_) },
    }
}

/// wrap public key material into a key packet body
pub fn public_key_body(version: u8, created: u32, alg: u8, params: &[u8]) -> Vec<u8> {
    let mut v = vec![version];
    v.extend_from_slice(&created.to_be_bytes());
    if version <= 3 {
        v.extend_from_slice(&[0, 0]);
    }
    v.push(alg);
    if version == 6 {
        v.extend_from_slice(&(params.len() as u32).to_be_bytes());
    }
    v.extend_from_slice(params);
    v
}
