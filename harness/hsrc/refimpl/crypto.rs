//! R-crypto: independent compositions of RustCrypto primitives per RFC 9580, written from the
//! RFC text. Nothing here calls into rPGP.

use aead::{AeadInPlace, KeyInit as AeadKeyInit};
use cipher::{generic_array::GenericArray, BlockEncrypt, KeyInit};
use digest::Digest;

use super::sigdigest::hash_id;

// -------------------------------------------------------------------------------------------
// block ciphers by OpenPGP id
// -------------------------------------------------------------------------------------------

pub fn sym_key_size(id: u8) -> Option<usize> {
    Some(match id {
        1 => 16,
        2 => 24,
        3 => 16,
        4 => 16,
        7 => 16,
        8 => 24,
        9 => 32,
        10 => 32,
        11 => 16,
        12 => 24,
        13 => 32,
        _ => return None,
    })
}

pub fn sym_block_size(id: u8) -> Option<usize> {
    Some(match id {
        1 | 2 | 3 | 4 => 8,
        7 | 8 | 9 | 10 | 11 | 12 | 13 => 16,
        _ => return None,
    })
}

fn enc_block_with<C: BlockEncrypt + KeyInit>(key: &[u8], block: &mut [u8]) {
    let c = C::new_from_slice(key).expect("key size");
    c.encrypt_block(GenericArray::from_mut_slice(block));
}

/// ECB-encrypt one block in place
pub fn encrypt_block(id: u8, key: &[u8], block: &mut [u8]) {
    match id {
        1 => enc_block_with::<idea::Idea>(key, block),
        2 => enc_block_with::<des::TdesEde3>(key, block),
        3 => enc_block_with::<cast5::Cast5>(key, block),
        4 => enc_block_with::<blowfish::Blowfish>(key, block),
        7 => enc_block_with::<aes::Aes128>(key, block),
        8 => enc_block_with::<aes::Aes192>(key, block),
        9 => enc_block_with::<aes::Aes256>(key, block),
        10 => enc_block_with::<twofish::Twofish>(key, block),
        11 => enc_block_with::<camellia::Camellia128>(key, block),
        12 => enc_block_with::<camellia::Camellia192>(key, block),
        13 => enc_block_with::<camellia::Camellia256>(key, block),
        _ => panic!("unsupported cipher id {id}"),
    }
}

/// plain CFB (full block feedback), hand written: C_i = P_i xor E(C_{i-1}), C_0 = IV
pub fn cfb_encrypt(id: u8, key: &[u8], iv: &[u8], data: &mut [u8]) {
    let bs = sym_block_size(id).unwrap();
    let mut fb = iv.to_vec();
    assert_eq!(fb.len(), bs);
    for chunk in data.chunks_mut(bs) {
        let mut ks = fb.clone();
        encrypt_block(id, key, &mut ks);
        for (d, k) in chunk.iter_mut().zip(ks.iter()) {
            *d ^= k;
        }
        if chunk.len() == bs {
            fb.copy_from_slice(chunk);
        }
    }
}

pub fn cfb_decrypt(id: u8, key: &[u8], iv: &[u8], data: &mut [u8]) {
    let bs = sym_block_size(id).unwrap();
    let mut fb = iv.to_vec();
    assert_eq!(fb.len(), bs);
    for chunk in data.chunks_mut(bs) {
        let mut ks = fb.clone();
        encrypt_block(id, key, &mut ks);
        if chunk.len() == bs {
            fb.copy_from_slice(chunk);
        }
        for (d, k) in chunk.iter_mut().zip(ks.iter()) {
            *d ^= k;
        }
    }
}

// -------------------------------------------------------------------------------------------
// SEIPD v1 (RFC 9580 5.13.1): CFB, zero IV, no resync, prefix, MDC
// -------------------------------------------------------------------------------------------

/// `prefix_random` = block-size random octets
pub fn seipdv1_encrypt(id: u8, key: &[u8], prefix_random: &[u8], plaintext: &[u8]) -> Vec<u8> {
    let bs = sym_block_size(id).unwrap();
    assert_eq!(prefix_random.len(), bs);
    let mut buf = prefix_random.to_vec();
    buf.push(prefix_random[bs - 2]);
    buf.push(prefix_random[bs - 1]);
    buf.extend_from_slice(plaintext);
    buf.extend_from_slice(&[0xD3, 0x14]);
    let mdc = sha1::Sha1::digest(&buf);
    buf.extend_from_slice(&mdc);
    cfb_encrypt(id, key, &vec![0u8; bs], &mut buf);
    let mut out = vec![1u8];
    out.extend_from_slice(&buf);
    out
}

/// body = version octet + ciphertext. Returns the plaintext or a description of what is wrong.
pub fn seipdv1_decrypt(id: u8, key: &[u8], body: &[u8]) -> Result<Vec<u8>, String> {
    let bs = sym_block_size(id).ok_or("cipher")?;
    if body.first() != Some(&1) {
        return Err("version".into());
    }
    let mut buf = body[1..].to_vec();
    if buf.len() < bs + 2 + 22 {
        return Err("too short".into());
    }
    cfb_decrypt(id, key, &vec![0u8; bs], &mut buf);
    if buf[bs] != buf[bs - 2] || buf[bs + 1] != buf[bs - 1] {
        return Err("quick check octets differ".into());
    }
    let n = buf.len();
    if buf[n - 22..n - 20] != [0xD3, 0x14] {
        return Err("no MDC packet header".into());
    }
    let mdc = sha1::Sha1::digest(&buf[..n - 20]);
    if mdc[..] != buf[n - 20..] {
        return Err("MDC mismatch".into());
    }
    Ok(buf[bs + 2..n - 22].to_vec())
}

// -------------------------------------------------------------------------------------------
// AEAD by OpenPGP id (1 EAX, 2 OCB, 3 GCM) over AES by OpenPGP id (7,8,9)
// -------------------------------------------------------------------------------------------

pub fn aead_nonce_len(aead: u8) -> Option<usize> {
    Some(match aead {
        1 => 16,
        2 => 15,
        3 => 12,
        _ => return None,
    })
}

macro_rules! aead_op {
    ($ty:ty, $key:expr, $nonce:expr, $ad:expr, $buf:expr, $enc:expr) => {{
        let c = <$ty as AeadKeyInit>::new_from_slice($key).map_err(|_| "key".to_string())?;
        let n = GenericArray::from_slice($nonce);
        if $enc {
            c.encrypt_in_place(n, $ad, $buf).map_err(|_| "encrypt".to_string())
        } else {
            c.decrypt_in_place(n, $ad, $buf).map_err(|_| "tag".to_string())
        }
    }};
}

type Ocb128 = ocb3::Ocb3<aes::Aes128, cipher::consts::U15, cipher::consts::U16>;
type Ocb192 = ocb3::Ocb3<aes::Aes192, cipher::consts::U15, cipher::consts::U16>;
type Ocb256 = ocb3::Ocb3<aes::Aes256, cipher::consts::U15, cipher::consts::U16>;
type Gcm192 = aes_gcm::AesGcm<aes::Aes192, cipher::consts::U12>;

/// encrypt (append tag) or decrypt (verify + strip tag) in place
pub fn aead_crypt(sym: u8, aead: u8, key: &[u8], nonce: &[u8], ad: &[u8], buf: &mut Vec<u8>, enc: bool) -> Result<(), String> {
    match (sym, aead) {
        (7, 1) => aead_op!(eax::Eax<aes::Aes128>, key, nonce, ad, buf, enc),
        (8, 1) => aead_op!(eax::Eax<aes::Aes192>, key, nonce, ad, buf, enc),
        (9, 1) => aead_op!(eax::Eax<aes::Aes256>, key, nonce, ad, buf, enc),
        (7, 2) => aead_op!(Ocb128, key, nonce, ad, buf, enc),
        (8, 2) => aead_op!(Ocb192, key, nonce, ad, buf, enc),
        (9, 2) => aead_op!(Ocb256, key, nonce, ad, buf, enc),
        (7, 3) => aead_op!(aes_gcm::Aes128Gcm, key, nonce, ad, buf, enc),
        (8, 3) => aead_op!(Gcm192, key, nonce, ad, buf, enc),
        (9, 3) => aead_op!(aes_gcm::Aes256Gcm, key, nonce, ad, buf, enc),
        _ => Err(format!("unsupported sym {sym} / aead {aead}")),
    }
}

fn hkdf_sha256(salt: Option<&[u8]>, ikm: &[u8], info: &[u8], n: usize) -> Vec<u8> {
    let hk = hkdf::Hkdf::<sha2::Sha256>::new(salt, ikm);
    let mut out = vec![0u8; n];
    hk.expand(info, &mut out).expect("hkdf length");
    out
}

// -------------------------------------------------------------------------------------------
// SEIPD v2 (RFC 9580 5.13.2)
// -------------------------------------------------------------------------------------------

pub fn seipdv2_encrypt(sym: u8, aead: u8, cs_octet: u8, salt: &[u8; 32], session_key: &[u8], plaintext: &[u8]) -> Result<Vec<u8>, String> {
    let info = [0xD2u8, 2, sym, aead, cs_octet];
    let ks = sym_key_size(sym).ok_or("sym")?;
    let nl = aead_nonce_len(aead).ok_or("aead")?;
    let okm = hkdf_sha256(Some(salt), session_key, &info, ks + nl - 8);
    let (key, iv) = okm.split_at(ks);
    let cs = 1usize << (cs_octet as usize + 6);
    let mut out = vec![2u8, sym, aead, cs_octet];
    out.extend_from_slice(salt);
    let mut index = 0u64;
    for chunk in plaintext.chunks(cs) {
        let mut nonce = iv.to_vec();
        nonce.extend_from_slice(&index.to_be_bytes());
        let mut buf = chunk.to_vec();
        aead_crypt(sym, aead, key, &nonce, &info, &mut buf, true)?;
        out.extend_from_slice(&buf);
        index += 1;
    }
    let mut nonce = iv.to_vec();
    nonce.extend_from_slice(&index.to_be_bytes());
    let mut ad = info.to_vec();
    ad.extend_from_slice(&(plaintext.len() as u64).to_be_bytes());
    let mut fin = vec![];
    aead_crypt(sym, aead, key, &nonce, &ad, &mut fin, true)?;
    out.extend_from_slice(&fin);
    Ok(out)
}

pub fn seipdv2_decrypt(session_key: &[u8], body: &[u8]) -> Result<Vec<u8>, String> {
    if body.len() < 36 + 16 || body[0] != 2 {
        return Err("header".into());
    }
    let (sym, aead, cs_octet) = (body[1], body[2], body[3]);
    let info = [0xD2u8, 2, sym, aead, cs_octet];
    let ks = sym_key_size(sym).ok_or("sym")?;
    let nl = aead_nonce_len(aead).ok_or("aead")?;
    if cs_octet > 16 {
        return Err("chunk size".into());
    }
    let okm = hkdf_sha256(Some(&body[4..36]), session_key, &info, ks + nl - 8);
    let (key, iv) = okm.split_at(ks);
    let cs = 1usize << (cs_octet as usize + 6);
    let data = &body[36..body.len() - 16];
    let fin = &body[body.len() - 16..];
    let mut out = vec![];
    let mut index = 0u64;
    for chunk in data.chunks(cs + 16) {
        let mut nonce = iv.to_vec();
        nonce.extend_from_slice(&index.to_be_bytes());
        let mut buf = chunk.to_vec();
        aead_crypt(sym, aead, key, &nonce, &info, &mut buf, false).map_err(|e| format!("chunk {index}: {e}"))?;
        out.extend_from_slice(&buf);
        index += 1;
    }
    let mut nonce = iv.to_vec();
    nonce.extend_from_slice(&index.to_be_bytes());
    let mut ad = info.to_vec();
    ad.extend_from_slice(&(out.len() as u64).to_be_bytes());
    let mut f = fin.to_vec();
    aead_crypt(sym, aead, key, &nonce, &ad, &mut f, false).map_err(|e| format!("final tag: {e}"))?;
    Ok(out)
}

// -------------------------------------------------------------------------------------------
// S2K (RFC 9580 3.7.1)
// -------------------------------------------------------------------------------------------

#[derive(Clone, Debug)]
pub enum S2k {
    Simple { hash: u8 },
    Salted { hash: u8, salt: [u8; 8] },
    Iterated { hash: u8, salt: [u8; 8], coded: u8 },
    Argon2 { salt: [u8; 16], t: u8, p: u8, m_enc: u8 },
}

pub fn decode_count(c: u8) -> usize {
    (16usize + (c as usize & 15)) << ((c as usize >> 4) + 6)
}

impl S2k {
    pub fn to_bytes(&self) -> Vec<u8> {
        match self {
            S2k::Simple { hash } => vec![0, *hash],
            S2k::Salted { hash, salt } => {
                let mut v = vec![1, *hash];
                v.extend_from_slice(salt);
                v
            }
            S2k::Iterated { hash, salt, coded } => {
                let mut v = vec![3, *hash];
                v.extend_from_slice(salt);
                v.push(*coded);
                v
            }
            S2k::Argon2 { salt, t, p, m_enc } => {
                let mut v = vec![4];
                v.extend_from_slice(salt);
                v.extend_from_slice(&[*t, *p, *m_enc]);
                v
            }
        }
    }

    pub fn parse(b: &[u8]) -> Option<(S2k, usize)> {
        match *b.first()? {
            0 => Some((S2k::Simple { hash: *b.get(1)? }, 2)),
            1 => Some((S2k::Salted { hash: *b.get(1)?, salt: b.get(2..10)?.try_into().ok()? }, 10)),
            3 => Some((S2k::Iterated { hash: *b.get(1)?, salt: b.get(2..10)?.try_into().ok()?, coded: *b.get(10)? }, 11)),
            4 => Some((S2k::Argon2 { salt: b.get(1..17)?.try_into().ok()?, t: *b.get(17)?, p: *b.get(18)?, m_enc: *b.get(19)? }, 20)),
            _ => None,
        }
    }

    pub fn derive(&self, pw: &[u8], key_size: usize) -> Result<Vec<u8>, String> {
        match self {
            S2k::Argon2 { salt, t, p, m_enc } => {
                let params = argon2::Params::new(1u32 << *m_enc, *t as u32, *p as u32, Some(key_size)).map_err(|e| e.to_string())?;
                let a = argon2::Argon2::new(argon2::Algorithm::Argon2id, argon2::Version::V0x13, params);
                let mut out = vec![0u8; key_size];
                a.hash_password_into(pw, salt, &mut out).map_err(|e| e.to_string())?;
                Ok(out)
            }
            _ => {
                let (hash, data, total): (u8, Vec<u8>, usize) = match self {
                    S2k::Simple { hash } => (*hash, pw.to_vec(), pw.len()),
                    S2k::Salted { hash, salt } => {
                        let mut d = salt.to_vec();
                        d.extend_from_slice(pw);
                        let n = d.len();
                        (*hash, d, n)
                    }
                    S2k::Iterated { hash, salt, coded } => {
                        let mut d = salt.to_vec();
                        d.extend_from_slice(pw);
                        let n = decode_count(*coded).max(d.len());
                        (*hash, d, n)
                    }
                    _ => unreachable!(),
                };
                let mut out = vec![];
                let mut ctx = 0usize;
                while out.len() < key_size {
                    // context i is preloaded with i zero octets
                    let mut stream = vec![0u8; ctx];
                    if data.is_empty() {
                        // nothing to repeat
                    } else {
                        let mut produced = 0;
                        while produced < total {
                            let take = (total - produced).min(data.len());
                            stream.extend_from_slice(&data[..take]);
                            produced += take;
                        }
                    }
                    let h = hash_id(hash, &[&stream]).ok_or_else(|| format!("hash {hash}"))?;
                    out.extend_from_slice(&h);
                    ctx += 1;
                }
                out.truncate(key_size);
                Ok(out)
            }
        }
    }
}

// -------------------------------------------------------------------------------------------
// SKESK (RFC 9580 5.3)
// -------------------------------------------------------------------------------------------

/// v4 SKESK body -> (cipher id, session key)
pub fn skesk_v4_decrypt(body: &[u8], pw: &[u8]) -> Result<(u8, Vec<u8>), String> {
    if body.len() < 4 || body[0] != 4 {
        return Err("version".into());
    }
    let sym = body[1];
    let (s2k, n) = S2k::parse(&body[2..]).ok_or("s2k")?;
    let ks = sym_key_size(sym).ok_or("sym")?;
    let key = s2k.derive(pw, ks)?;
    let esk = &body[2 + n..];
    if esk.is_empty() {
        return Ok((sym, key));
    }
    let mut buf = esk.to_vec();
    let bs = sym_block_size(sym).unwrap();
    cfb_decrypt(sym, &key, &vec![0u8; bs], &mut buf);
    Ok((buf[0], buf[1..].to_vec()))
}

pub fn skesk_v4_encrypt(sym: u8, s2k: &S2k, pw: &[u8], session: Option<(u8, &[u8])>) -> Result<Vec<u8>, String> {
    let mut body = vec![4, sym];
    body.extend_from_slice(&s2k.to_bytes());
    if let Some((alg, sk)) = session {
        let ks = sym_key_size(sym).ok_or("sym")?;
        let key = s2k.derive(pw, ks)?;
        let mut buf = vec![alg];
        buf.extend_from_slice(sk);
        let bs = sym_block_size(sym).unwrap();
        cfb_encrypt(sym, &key, &vec![0u8; bs], &mut buf);
        body.extend_from_slice(&buf);
    }
    Ok(body)
}

/// v6 SKESK body -> session key
pub fn skesk_v6_decrypt(body: &[u8], pw: &[u8]) -> Result<Vec<u8>, String> {
    if body.len() < 6 || body[0] != 6 {
        return Err("version".into());
    }
    let (sym, aead, s2k_len) = (body[2], body[3], body[4] as usize);
    let (s2k, n) = S2k::parse(&body[5..]).ok_or("s2k")?;
    if n != s2k_len {
        return Err("s2k length".into());
    }
    let nl = aead_nonce_len(aead).ok_or("aead")?;
    if body[1] as usize != 3 + s2k_len + nl {
        return Err(format!("count octet {} != {}", body[1], 3 + s2k_len + nl));
    }
    let ks = sym_key_size(sym).ok_or("sym")?;
    let ikm = s2k.derive(pw, ks)?;
    let info = [0xC3u8, 6, sym, aead];
    let kek = hkdf_sha256(None, &ikm, &info, ks);
    let iv = &body[5 + n..5 + n + nl];
    let mut buf = body[5 + n + nl..].to_vec();
    aead_crypt(sym, aead, &kek, iv, &info, &mut buf, false)?;
    Ok(buf)
}

pub fn skesk_v6_encrypt(sym: u8, aead: u8, s2k: &S2k, pw: &[u8], iv: &[u8], session_key: &[u8]) -> Result<Vec<u8>, String> {
    let ks = sym_key_size(sym).ok_or("sym")?;
    let ikm = s2k.derive(pw, ks)?;
    let info = [0xC3u8, 6, sym, aead];
    let kek = hkdf_sha256(None, &ikm, &info, ks);
    let sb = s2k.to_bytes();
    let mut body = vec![6, (3 + sb.len() + iv.len()) as u8, sym, aead, sb.len() as u8];
    body.extend_from_slice(&sb);
    body.extend_from_slice(iv);
    let mut buf = session_key.to_vec();
    aead_crypt(sym, aead, &kek, iv, &info, &mut buf, true)?;
    body.extend_from_slice(&buf);
    Ok(body)
}

// -------------------------------------------------------------------------------------------
// secret key protection (RFC 9580 3.7.2.1, 5.5.3)
// -------------------------------------------------------------------------------------------

pub fn checksum16(data: &[u8]) -> [u8; 2] {
    let s: u32 = data.iter().map(|b| *b as u32).sum();
    ((s & 0xffff) as u16).to_be_bytes()
}

/// usage 254: CFB(key = S2K(pw), iv) over secret ‖ SHA-1(secret)
pub fn secret_cfb_encrypt(sym: u8, s2k: &S2k, pw: &[u8], iv: &[u8], secret: &[u8], sha1_check: bool) -> Result<Vec<u8>, String> {
    let key = s2k.derive(pw, sym_key_size(sym).ok_or("sym")?)?;
    let mut buf = secret.to_vec();
    if sha1_check {
        buf.extend_from_slice(&sha1::Sha1::digest(secret));
    } else {
        buf.extend_from_slice(&checksum16(secret));
    }
    cfb_encrypt(sym, &key, iv, &mut buf);
    Ok(buf)
}

pub fn secret_cfb_decrypt(sym: u8, key: &[u8], iv: &[u8], ct: &[u8], sha1_check: bool) -> Result<Vec<u8>, String> {
    let mut buf = ct.to_vec();
    cfb_decrypt(sym, key, iv, &mut buf);
    let cl = if sha1_check { 20 } else { 2 };
    if buf.len() < cl {
        return Err("short".into());
    }
    let (sec, chk) = buf.split_at(buf.len() - cl);
    let ok = if sha1_check { sha1::Sha1::digest(sec)[..] == *chk } else { checksum16(sec) == *chk };
    if !ok {
        return Err("checksum".into());
    }
    Ok(sec.to_vec())
}

/// usage 253: KEK = HKDF-SHA256(ikm = S2K(pw), info = tag octet, version, sym, aead);
/// AD = tag octet ‖ public key packet body; plaintext = secret material without checksum
pub fn secret_aead_crypt(tag_octet: u8, key_version: u8, sym: u8, aead: u8, s2k: &S2k, pw: &[u8], nonce: &[u8], public_body: &[u8], data: &[u8], enc: bool) -> Result<Vec<u8>, String> {
    let ks = sym_key_size(sym).ok_or("sym")?;
    let ikm = s2k.derive(pw, ks)?;
    let info = [tag_octet, key_version, sym, aead];
    let kek = hkdf_sha256(None, &ikm, &info, ks);
    let mut ad = vec![tag_octet];
    ad.extend_from_slice(public_body);
    let mut buf = data.to_vec();
    aead_crypt(sym, aead, &kek, nonce, &ad, &mut buf, enc)?;
    Ok(buf)
}

// -------------------------------------------------------------------------------------------
// fingerprints / key ids (RFC 9580 5.5.4)
// -------------------------------------------------------------------------------------------

pub fn fingerprint(version: u8, public_body: &[u8]) -> Vec<u8> {
    let framed = super::sigdigest::key_framing(version, public_body);
    if version >= 6 {
        sha2::Sha256::digest(&framed).to_vec()
    } else {
        sha1::Sha1::digest(&framed).to_vec()
    }
}

pub fn key_id(version: u8, fp: &[u8]) -> Vec<u8> {
    if version >= 6 {
        fp[..8].to_vec()
    } else {
        fp[fp.len() - 8..].to_vec()
    }
}

/// v3: MD5 over the magnitudes of n and e (no length octets); key id = low 64 bits of n
pub fn v3_fingerprint(n: &[u8], e: &[u8]) -> (Vec<u8>, Vec<u8>) {
    let mut h = md5::Md5::new();
    h.update(n);
    h.update(e);
    (h.finalize().to_vec(), n[n.len().saturating_sub(8)..].to_vec())
}

// -------------------------------------------------------------------------------------------
// AES key wrap (RFC 3394), hand written
// -------------------------------------------------------------------------------------------

pub fn aes_kw_wrap(sym: u8, kek: &[u8], data: &[u8]) -> Vec<u8> {
    assert!(data.len() % 8 == 0 && data.len() >= 16);
    let n = data.len() / 8;
    let mut a = [0xA6u8; 8];
    let mut r: Vec<[u8; 8]> = data.chunks(8).map(|c| c.try_into().unwrap()).collect();
    for j in 0..6 {
        for i in 0..n {
            let mut b = [0u8; 16];
            b[..8].copy_from_slice(&a);
            b[8..].copy_from_slice(&r[i]);
            encrypt_block(sym, kek, &mut b);
            let t = (n * j + i + 1) as u64;
            a.copy_from_slice(&b[..8]);
            for (x, y) in a.iter_mut().zip(t.to_be_bytes()) {
                *x ^= y;
            }
            r[i].copy_from_slice(&b[8..]);
        }
    }
    let mut out = a.to_vec();
    for x in r {
        out.extend_from_slice(&x);
    }
    out
}

fn dec_block_with<C: cipher::BlockDecrypt + KeyInit>(key: &[u8], block: &mut [u8]) {
    let c = C::new_from_slice(key).expect("key size");
    c.decrypt_block(GenericArray::from_mut_slice(block));
}

pub fn aes_kw_unwrap(sym: u8, kek: &[u8], data: &[u8]) -> Result<Vec<u8>, String> {
    if data.len() % 8 != 0 || data.len() < 24 {
        return Err("length".into());
    }
    let n = data.len() / 8 - 1;
    let mut a: [u8; 8] = data[..8].try_into().unwrap();
    let mut r: Vec<[u8; 8]> = data[8..].chunks(8).map(|c| c.try_into().unwrap()).collect();
    for j in (0..6).rev() {
        for i in (0..n).rev() {
            let t = (n * j + i + 1) as u64;
            let mut b = [0u8; 16];
            for (k, (x, y)) in a.iter().zip(t.to_be_bytes()).enumerate() {
                b[k] = x ^ y;
            }
            b[8..].copy_from_slice(&r[i]);
            match sym {
                7 => dec_block_with::<aes::Aes128>(kek, &mut b),
                8 => dec_block_with::<aes::Aes192>(kek, &mut b),
                9 => dec_block_with::<aes::Aes256>(kek, &mut b),
                _ => return Err("kek cipher".into()),
            }
            a.copy_from_slice(&b[..8]);
            r[i].copy_from_slice(&b[8..]);
        }
    }
    if a != [0xA6u8; 8] {
        return Err("integrity check".into());
    }
    Ok(r.concat())
}

/// ECDH KDF (RFC 9580 11.4/11.5): Hash(00 00 00 01 ‖ shared ‖ param)[..kek_len]
pub fn ecdh_kdf(hash: u8, shared: &[u8], curve_oid: &[u8], kdf_hash: u8, kek_sym: u8, fingerprint: &[u8]) -> Vec<u8> {
    let mut param = vec![curve_oid.len() as u8];
    param.extend_from_slice(curve_oid);
    param.push(18);
    param.extend_from_slice(&[3, 1, kdf_hash, kek_sym]);
    param.extend_from_slice(b"Anonymous Sender    ");
    param.extend_from_slice(fingerprint);
    let h = hash_id(hash, &[&[0, 0, 0, 1], shared, &param]).expect("kdf hash");
    h[..sym_key_size(kek_sym).unwrap()].to_vec()
}

/// PKCS5-style padding of (cipher id ‖ session key ‖ checksum) to a multiple of 8
pub fn ecdh_pad(m: &[u8]) -> Vec<u8> {
    let pad = 8 - m.len() % 8;
    let mut v = m.to_vec();
    v.extend(std::iter::repeat(pad as u8).take(pad));
    v
}

pub fn ecdh_unpad(m: &[u8]) -> Option<Vec<u8>> {
    let p = *m.last()? as usize;
    if p == 0 || p > 8 || p > m.len() || m[m.len() - p..].iter().any(|b| *b as usize != p) {
        return None;
    }
    Some(m[..m.len() - p].to_vec())
}

/// X25519 / X448 KEK (RFC 9580 5.1.6 / 5.1.7): HKDF-SHA256/512(ikm = ephemeral ‖ recipient ‖ shared, info)
pub fn x25519_kek(ephemeral: &[u8], recipient: &[u8], shared: &[u8]) -> Vec<u8> {
    let mut ikm = ephemeral.to_vec();
    ikm.extend_from_slice(recipient);
    ikm.extend_from_slice(shared);
    hkdf_sha256(None, &ikm, b"OpenPGP X25519", 16)
}

pub fn x448_kek(ephemeral: &[u8], recipient: &[u8], shared: &[u8]) -> Vec<u8> {
    let mut ikm = ephemeral.to_vec();
    ikm.extend_from_slice(recipient);
    ikm.extend_from_slice(shared);
    let hk = hkdf::Hkdf::<sha2::Sha512>::new(None, &ikm);
    let mut out = vec![0u8; 32];
    hk.expand(b"OpenPGP X448", &mut out).unwrap();
    out
}

// -------------------------------------------------------------------------------------------
// GnuPG / LibrePGP "OCB encrypted data" (packet 20) and SKESK v5 - only needed to build
// artifacts for the version-alignment table (C15)
// -------------------------------------------------------------------------------------------

pub fn gnupg_aead_encrypt(sym: u8, aead: u8, cs_octet: u8, iv: &[u8], key: &[u8], plaintext: &[u8]) -> Result<Vec<u8>, String> {
    let cs = 1usize << (cs_octet as usize + 6);
    let mut out = vec![1u8, sym, aead, cs_octet];
    out.extend_from_slice(iv);
    let nonce_for = |i: u64| {
        let mut n = iv.to_vec();
        let l = n.len();
        for (k, b) in i.to_be_bytes().iter().enumerate() {
            n[l - 8 + k] ^= b;
        }
        n
    };
    let mut index = 0u64;
    for chunk in plaintext.chunks(cs) {
        let mut ad = vec![0xD4u8, 1, sym, aead, cs_octet];
        ad.extend_from_slice(&index.to_be_bytes());
        let mut buf = chunk.to_vec();
        aead_crypt(sym, aead, key, &nonce_for(index), &ad, &mut buf, true)?;
        out.extend_from_slice(&buf);
        index += 1;
    }
    let mut ad = vec![0xD4u8, 1, sym, aead, cs_octet];
    ad.extend_from_slice(&index.to_be_bytes());
    ad.extend_from_slice(&(plaintext.len() as u64).to_be_bytes());
    let mut fin = vec![];
    aead_crypt(sym, aead, key, &nonce_for(index), &ad, &mut fin, true)?;
    out.extend_from_slice(&fin);
    Ok(out)
}

/// SKESK v5: key = S2K(pw), AEAD(nonce = iv, AD = C3 05 sym aead) over the session key
pub fn skesk_v5_encrypt(sym: u8, aead: u8, s2k: &S2k, pw: &[u8], iv: &[u8], session_key: &[u8]) -> Result<Vec<u8>, String> {
    let key = s2k.derive(pw, sym_key_size(sym).ok_or("sym")?)?;
    let ad = [0xC3u8, 5, sym, aead];
    let mut body = vec![5, sym, aead];
    body.extend_from_slice(&s2k.to_bytes());
    body.extend_from_slice(iv);
    let mut buf = session_key.to_vec();
    aead_crypt(sym, aead, &key, iv, &ad, &mut buf, true)?;
    body.extend_from_slice(&buf);
    Ok(body)
}
