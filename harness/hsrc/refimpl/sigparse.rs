//! R-wire (signature packets): independent decoder of signature packet bodies and the
//! reference digest of RFC 9580 5.2.4 computed from the decoded fields.

use super::sigdigest::{hash_id, v3_tail, v4_tail, v6_tail};

#[derive(Clone, Debug)]
pub struct SigFields {
    pub version: u8,
    pub typ: u8,
    pub pk: u8,
    pub hash: u8,
    pub hashed: Vec<u8>,
    pub unhashed: Vec<u8>,
    pub left16: [u8; 2],
    pub salt: Vec<u8>,
    pub v3_created: u32,
    pub v3_keyid: Vec<u8>,
    pub value: Vec<u8>,
}

pub fn parse_sig(b: &[u8]) -> Option<SigFields> {
    let version = *b.first()?;
    match version {
        2 | 3 => {
            if *b.get(1)? != 5 {
                return None;
            }
            Some(SigFields {
                version,
                typ: *b.get(2)?,
                v3_created: u32::from_be_bytes(b.get(3..7)?.try_into().ok()?),
                v3_keyid: b.get(7..15)?.to_vec(),
                pk: *b.get(15)?,
                hash: *b.get(16)?,
                left16: b.get(17..19)?.try_into().ok()?,
                value: b.get(19..)?.to_vec(),
                hashed: vec![],
                unhashed: vec![],
                salt: vec![],
            })
        }
        4 => {
            let hl = u16::from_be_bytes(b.get(4..6)?.try_into().ok()?) as usize;
            let hashed = b.get(6..6 + hl)?.to_vec();
            let p = 6 + hl;
            let ul = u16::from_be_bytes(b.get(p..p + 2)?.try_into().ok()?) as usize;
            let unhashed = b.get(p + 2..p + 2 + ul)?.to_vec();
            let p = p + 2 + ul;
            Some(SigFields { version, typ: b[1], pk: b[2], hash: b[3], hashed, unhashed, left16: b.get(p..p + 2)?.try_into().ok()?, salt: vec![], v3_created: 0, v3_keyid: vec![], value: b.get(p + 2..)?.to_vec() })
        }
        6 => {
            let hl = u32::from_be_bytes(b.get(4..8)?.try_into().ok()?) as usize;
            let hashed = b.get(8..8 + hl)?.to_vec();
            let p = 8 + hl;
            let ul = u32::from_be_bytes(b.get(p..p + 4)?.try_into().ok()?) as usize;
            let unhashed = b.get(p + 4..p + 4 + ul)?.to_vec();
            let p = p + 4 + ul;
            let left16 = b.get(p..p + 2)?.try_into().ok()?;
            let sl = *b.get(p + 2)? as usize;
            let salt = b.get(p + 3..p + 3 + sl)?.to_vec();
            Some(SigFields { version, typ: b[1], pk: b[2], hash: b[3], hashed, unhashed, left16, salt, v3_created: 0, v3_keyid: vec![], value: b.get(p + 3 + sl..)?.to_vec() })
        }
        _ => None,
    }
}

impl SigFields {
    /// H(salt? ‖ content ‖ hashed fields + trailer)
    pub fn digest(&self, content: &[u8]) -> Option<Vec<u8>> {
        let tail = match self.version {
            2 | 3 => v3_tail(self.typ, self.v3_created),
            4 => v4_tail(self.typ, self.pk, self.hash, &self.hashed),
            6 => v6_tail(self.typ, self.pk, self.hash, &self.hashed),
            _ => return None,
        };
        hash_id(self.hash, &[&self.salt, content, &tail])
    }

    /// split a subpacket area into (type octet incl. critical bit, body)
    pub fn subpackets(area: &[u8]) -> Option<Vec<(u8, Vec<u8>)>> {
        let mut out = vec![];
        let mut p = 0;
        while p < area.len() {
            let o = area[p] as usize;
            let (l, n) = if o < 192 {
                (o, 1)
            } else if o < 255 {
                (((o - 192) << 8) + *area.get(p + 1)? as usize + 192, 2)
            } else {
                (u32::from_be_bytes(area.get(p + 1..p + 5)?.try_into().ok()?) as usize, 5)
            };
            p += n;
            if l == 0 {
                return None;
            }
            let typ = *area.get(p)?;
            out.push((typ, area.get(p + 1..p + l)?.to_vec()));
            p += l;
        }
        Some(out)
    }
}
