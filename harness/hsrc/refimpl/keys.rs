//! R-wire (key packets): independent decoder/encoder for public and secret key packet bodies.

use super::crypto::S2k;

fn mpi_len(b: &[u8]) -> Option<usize> {
    let bits = u16::from_be_bytes([*b.first()?, *b.get(1)?]) as usize;
    let n = 2 + bits.div_ceil(8);
    if b.len() < n {
        return None;
    }
    Some(n)
}

fn mpis(b: &[u8], count: usize) -> Option<usize> {
    let mut pos = 0;
    for _ in 0..count {
        pos += mpi_len(&b[pos..])?;
    }
    Some(pos)
}

/// length of the algorithm-specific public key material at the start of `b`
pub fn public_params_len(alg: u8, b: &[u8]) -> Option<usize> {
    match alg {
        1 | 2 | 3 => mpis(b, 2),
        17 => mpis(b, 4),
        16 | 20 => mpis(b, 3),
        19 | 22 => {
            let ol = *b.first()? as usize;
            Some(1 + ol + mpi_len(b.get(1 + ol..)?)?)
        }
        18 => {
            let ol = *b.first()? as usize;
            let m = mpi_len(b.get(1 + ol..)?)?;
            let kl = *b.get(1 + ol + m)? as usize;
            Some(1 + ol + m + 1 + kl)
        }
        25 | 27 => Some(32),
        26 => Some(56),
        28 => Some(57),
        _ => None,
    }
}

#[derive(Clone, Debug)]
pub enum Protection {
    /// usage 0: secret material followed (v4) by the 2-octet checksum
    Plain { material_and_checksum: Vec<u8> },
    /// usage 253
    Aead { sym: u8, aead: u8, s2k: S2k, nonce: Vec<u8>, ct: Vec<u8> },
    /// usage 254 (sha1 = true) or 255 (sha1 = false)
    Cfb { sha1: bool, sym: u8, s2k: S2k, iv: Vec<u8>, ct: Vec<u8> },
    /// usage = cipher id: MD5 simple S2K, 2-octet checksum
    Legacy { sym: u8, iv: Vec<u8>, ct: Vec<u8> },
}

#[derive(Clone, Debug)]
pub struct KeyBody {
    pub version: u8,
    pub created: u32,
    pub alg: u8,
    pub public: Vec<u8>,
    /// the complete public key packet body (version .. public material)
    pub public_body: Vec<u8>,
    pub protection: Option<Protection>,
}

pub fn parse_key(body: &[u8], secret: bool) -> Option<KeyBody> {
    let version = *body.first()?;
    let created = u32::from_be_bytes(body.get(1..5)?.try_into().ok()?);
    let (alg, start, plen) = match version {
        6 => {
            let alg = *body.get(5)?;
            let l = u32::from_be_bytes(body.get(6..10)?.try_into().ok()?) as usize;
            (alg, 10usize, l)
        }
        4 => {
            let alg = *body.get(5)?;
            (alg, 6usize, public_params_len(alg, body.get(6..)?)?)
        }
        2 | 3 => {
            let alg = *body.get(7)?;
            (alg, 8usize, public_params_len(alg, body.get(8..)?)?)
        }
        _ => return None,
    };
    let public = body.get(start..start + plen)?.to_vec();
    let public_body = body[..start + plen].to_vec();
    let protection = if secret {
        let s = body.get(start + plen..)?;
        let usage = *s.first()?;
        let mut p = 1usize;
        if version == 6 && usage != 0 {
            p += 1; // count of the following parameter octets
        }
        Some(match usage {
            0 => Protection::Plain { material_and_checksum: s[1..].to_vec() },
            253 => {
                let sym = *s.get(p)?;
                let aead = *s.get(p + 1)?;
                p += 2;
                if version == 6 {
                    p += 1;
                }
                let (s2k, n) = S2k::parse(s.get(p..)?)?;
                p += n;
                let nl = super::crypto::aead_nonce_len(aead)?;
                let nonce = s.get(p..p + nl)?.to_vec();
                p += nl;
                Protection::Aead { sym, aead, s2k, nonce, ct: s[p..].to_vec() }
            }
            254 | 255 => {
                let sym = *s.get(p)?;
                p += 1;
                if version == 6 && usage == 254 {
                    p += 1;
                }
                let (s2k, n) = S2k::parse(s.get(p..)?)?;
                p += n;
                let bs = super::crypto::sym_block_size(sym)?;
                let iv = s.get(p..p + bs)?.to_vec();
                p += bs;
                Protection::Cfb { sha1: usage == 254, sym, s2k, iv, ct: s[p..].to_vec() }
            }
            sym => {
                let bs = super::crypto::sym_block_size(sym)?;
                let iv = s.get(1..1 + bs)?.to_vec();
                Protection::Legacy { sym, iv, ct: s[1 + bs..].to_vec() }
            }
        })
    } else {
        None
    };
    Some(KeyBody { version, created, alg, public, public_body, protection })
}

/// encode the protection part that follows the public fields of a secret key packet
pub fn encode_protection(version: u8, p: &Protection) -> Vec<u8> {
    match p {
        Protection::Plain { material_and_checksum } => {
            let mut v = vec![0u8];
            v.extend_from_slice(material_and_checksum);
            v
        }
        Protection::Aead { sym, aead, s2k, nonce, ct } => {
            let sb = s2k.to_bytes();
            let mut params = vec![*sym, *aead];
            if version == 6 {
                params.push(sb.len() as u8);
            }
            params.extend_from_slice(&sb);
            params.extend_from_slice(nonce);
            let mut v = vec![253u8];
            if version == 6 {
                v.push(params.len() as u8);
            }
            v.extend_from_slice(&params);
            v.extend_from_slice(ct);
            v
        }
        Protection::Cfb { sha1, sym, s2k, iv, ct } => {
            let sb = s2k.to_bytes();
            let mut params = vec![*sym];
            if version == 6 && *sha1 {
                params.push(sb.len() as u8);
            }
            params.extend_from_slice(&sb);
            params.extend_from_slice(iv);
            let mut v = vec![if *sha1 { 254u8 } else { 255 }];
            if version == 6 {
                v.push(params.len() as u8);
            }
            v.extend_from_slice(&params);
            v.extend_from_slice(ct);
            v
        }
        Protection::Legacy { sym, iv, ct } => {
            let mut v = vec![*sym];
            v.extend_from_slice(iv);
            v.extend_from_slice(ct);
            v
        }
    }
}

/// plain secret material without the trailing 2-octet checksum (v4) / as is (v6)
pub fn plain_material(version: u8, p: &Protection) -> Option<Vec<u8>> {
    match p {
        Protection::Plain { material_and_checksum } => {
            if version == 6 {
                Some(material_and_checksum.clone())
            } else {
                let n = material_and_checksum.len();
                if n < 2 {
                    return None;
                }
                Some(material_and_checksum[..n - 2].to_vec())
            }
        }
        _ => None,
    }
}
