//! R-crypto: public-key session key packets (RFC 9580 5.1) decrypted / produced independently.

use super::crypto::{aes_kw_unwrap, aes_kw_wrap, checksum16, ecdh_kdf, ecdh_pad, ecdh_unpad, x25519_kek, x448_kek};
use super::keys::{plain_material, KeyBody};
use super::wire::mpi;

fn read_mpi(b: &[u8]) -> Option<(Vec<u8>, usize)> {
    let bits = u16::from_be_bytes([*b.first()?, *b.get(1)?]) as usize;
    let n = bits.div_ceil(8);
    Some((b.get(2..2 + n)?.to_vec(), 2 + n))
}

fn left_pad(v: &[u8], n: usize) -> Vec<u8> {
    if v.len() >= n {
        return v[v.len() - n..].to_vec();
    }
    let mut out = vec![0u8; n - v.len()];
    out.extend_from_slice(v);
    out
}

pub struct PkeskBody {
    pub version: u8,
    pub alg: u8,
    pub recipient: Vec<u8>,
    pub fields: Vec<u8>,
}

pub fn parse_pkesk(body: &[u8]) -> Option<PkeskBody> {
    let version = *body.first()?;
    match version {
        3 => Some(PkeskBody { version, recipient: body.get(1..9)?.to_vec(), alg: *body.get(9)?, fields: body.get(10..)?.to_vec() }),
        6 => {
            let l = *body.get(1)? as usize;
            Some(PkeskBody { version, recipient: body.get(2..2 + l)?.to_vec(), alg: *body.get(2 + l)?, fields: body.get(3 + l..)?.to_vec() })
        }
        _ => None,
    }
}

const OID_P256: &[u8] = &[0x2A, 0x86, 0x48, 0xCE, 0x3D, 0x03, 0x01, 0x07];
const OID_P384: &[u8] = &[0x2B, 0x81, 0x04, 0x00, 0x22];
const OID_P521: &[u8] = &[0x2B, 0x81, 0x04, 0x00, 0x23];
const OID_CV25519: &[u8] = &[0x2B, 0x06, 0x01, 0x04, 0x01, 0x97, 0x55, 0x01, 0x05, 0x01];

/// ECDH public material: (oid, point, kdf hash, kek cipher)
fn ecdh_public(public: &[u8]) -> Option<(Vec<u8>, Vec<u8>, u8, u8)> {
    let ol = *public.first()? as usize;
    let oid = public.get(1..1 + ol)?.to_vec();
    let (point, n) = read_mpi(public.get(1 + ol..)?)?;
    let k = public.get(1 + ol + n..)?;
    if k.len() < 4 || k[0] != 3 || k[1] != 1 {
        return None;
    }
    Some((oid, point, k[2], k[3]))
}

fn ecdh_shared(oid: &[u8], secret_scalar_be: &[u8], their_point: &[u8]) -> Result<Vec<u8>, String> {
    use elliptic_curve_shim::*;
    if oid == OID_CV25519 {
        // secret MPI is the big-endian form of the native little-endian scalar
        let mut sk = left_pad(secret_scalar_be, 32);
        sk.reverse();
        let sk: [u8; 32] = sk.try_into().unwrap();
        if their_point.len() != 33 || their_point[0] != 0x40 {
            return Err("cv25519 point format".into());
        }
        let pk: [u8; 32] = their_point[1..].try_into().unwrap();
        let s = x25519_dalek::StaticSecret::from(sk);
        Ok(s.diffie_hellman(&x25519_dalek::PublicKey::from(pk)).as_bytes().to_vec())
    } else if oid == OID_P256 {
        p256_shared(&left_pad(secret_scalar_be, 32), their_point)
    } else if oid == OID_P384 {
        p384_shared(&left_pad(secret_scalar_be, 48), their_point)
    } else if oid == OID_P521 {
        p521_shared(&left_pad(secret_scalar_be, 66), their_point)
    } else {
        Err("curve".into())
    }
}

mod elliptic_curve_shim {
    macro_rules! nist {
        ($name:ident, $krate:ident) => {
            pub fn $name(scalar: &[u8], point: &[u8]) -> Result<Vec<u8>, String> {
                let sk = $krate::SecretKey::from_slice(scalar).map_err(|e| e.to_string())?;
                let pk = $krate::PublicKey::from_sec1_bytes(point).map_err(|e| e.to_string())?;
                let shared = $krate::ecdh::diffie_hellman(sk.to_nonzero_scalar(), pk.as_affine());
                Ok(shared.raw_secret_bytes().to_vec())
            }
        };
    }
    nist!(p256_shared, p256);
    nist!(p384_shared, p384);
    nist!(p521_shared, p521);
}

/// plaintext "m" of a PKESK -> (cipher id if present, session key)
fn split_m(version: u8, m: &[u8], with_checksum: bool) -> Result<(Option<u8>, Vec<u8>), String> {
    let (alg, rest) = if version == 3 { (Some(*m.first().ok_or("empty")?), &m[1..]) } else { (None, m) };
    if !with_checksum {
        return Ok((alg, rest.to_vec()));
    }
    if rest.len() < 2 {
        return Err("short".into());
    }
    let (k, c) = rest.split_at(rest.len() - 2);
    if checksum16(k) != *c {
        return Err("session key checksum".into());
    }
    Ok((alg, k.to_vec()))
}

/// Decrypt a PKESK body with the (unprotected) secret key body of the recipient.
/// `fingerprint` is the recipient key's fingerprint (needed by the ECDH KDF).
pub fn pkesk_decrypt(pkesk: &PkeskBody, key: &KeyBody, fingerprint: &[u8]) -> Result<(Option<u8>, Vec<u8>), String> {
    let secret = plain_material(key.version, key.protection.as_ref().ok_or("no secret part")?).ok_or("key is locked")?;
    match pkesk.alg {
        1 | 2 => {
            use rsa::traits::PublicKeyParts;
            let (n, a) = read_mpi(&key.public).ok_or("n")?;
            let (e, _) = read_mpi(&key.public[a..]).ok_or("e")?;
            let (d, a) = read_mpi(&secret).ok_or("d")?;
            let (p, b) = read_mpi(&secret[a..]).ok_or("p")?;
            let (q, _) = read_mpi(&secret[a + b..]).ok_or("q")?;
            let sk = rsa::RsaPrivateKey::from_components(rsa::BigUint::from_bytes_be(&n), rsa::BigUint::from_bytes_be(&e), rsa::BigUint::from_bytes_be(&d), vec![rsa::BigUint::from_bytes_be(&p), rsa::BigUint::from_bytes_be(&q)]).map_err(|e| e.to_string())?;
            let (c, _) = read_mpi(&pkesk.fields).ok_or("c")?;
            let c = left_pad(&c, sk.size());
            let m = sk.decrypt(rsa::Pkcs1v15Encrypt, &c).map_err(|e| e.to_string())?;
            split_m(pkesk.version, &m, true)
        }
        18 => {
            let (oid, _point, kdf_hash, kek_sym) = ecdh_public(&key.public).ok_or("ecdh public")?;
            let (eph, a) = read_mpi(&pkesk.fields).ok_or("ephemeral")?;
            let wl = *pkesk.fields.get(a).ok_or("len")? as usize;
            let wrapped = pkesk.fields.get(a + 1..a + 1 + wl).ok_or("wrapped")?;
            let (sk, _) = read_mpi(&secret).ok_or("scalar")?;
            let shared = ecdh_shared(&oid, &sk, &eph)?;
            let kek = ecdh_kdf(kdf_hash, &shared, &oid, kdf_hash, kek_sym, fingerprint);
            let padded = aes_kw_unwrap(kek_sym, &kek, wrapped)?;
            let m = ecdh_unpad(&padded).ok_or("padding")?;
            split_m(pkesk.version, &m, true)
        }
        25 => {
            let eph: [u8; 32] = pkesk.fields.get(..32).ok_or("eph")?.try_into().unwrap();
            let l = *pkesk.fields.get(32).ok_or("len")? as usize;
            let rest = pkesk.fields.get(33..33 + l).ok_or("rest")?;
            let (alg, wrapped) = if pkesk.version == 3 { (Some(rest[0]), &rest[1..]) } else { (None, rest) };
            let sk: [u8; 32] = secret.get(..32).ok_or("secret")?.try_into().unwrap();
            let s = x25519_dalek::StaticSecret::from(sk);
            let shared = s.diffie_hellman(&x25519_dalek::PublicKey::from(eph));
            let kek = x25519_kek(&eph, &key.public, shared.as_bytes());
            let k = aes_kw_unwrap(7, &kek, wrapped)?;
            Ok((alg, k))
        }
        26 => {
            let eph = pkesk.fields.get(..56).ok_or("eph")?;
            let l = *pkesk.fields.get(56).ok_or("len")? as usize;
            let rest = pkesk.fields.get(57..57 + l).ok_or("rest")?;
            let (alg, wrapped) = if pkesk.version == 3 { (Some(rest[0]), &rest[1..]) } else { (None, rest) };
            let sk: [u8; 56] = secret.get(..56).ok_or("secret")?.try_into().unwrap();
            let ephb: [u8; 56] = eph.try_into().unwrap();
            let shared = cx448::x448::x448(sk, ephb).ok_or("x448")?;
            let kek = x448_kek(eph, &key.public, &shared);
            let k = aes_kw_unwrap(9, &kek, wrapped)?;
            Ok((alg, k))
        }
        a => Err(format!("algorithm {a} not implemented in the reference")),
    }
}

/// Produce PKESK fields for `session_key` (+ cipher id for v3) to the public key in `key`.
/// `eph_seed` supplies the ephemeral secret.
pub fn pkesk_encrypt(version: u8, key: &KeyBody, fingerprint: &[u8], sym: u8, session_key: &[u8], eph_seed: [u8; 32]) -> Result<Vec<u8>, String> {
    let mut m = vec![];
    if version == 3 {
        m.push(sym);
    }
    m.extend_from_slice(session_key);
    match key.alg {
        18 => {
            let (oid, point, kdf_hash, kek_sym) = ecdh_public(&key.public).ok_or("ecdh public")?;
            m.extend_from_slice(&checksum16(session_key));
            let (eph_pub, shared): (Vec<u8>, Vec<u8>) = if oid == OID_CV25519 {
                let s = x25519_dalek::StaticSecret::from(eph_seed);
                let p = x25519_dalek::PublicKey::from(&s);
                let their: [u8; 32] = point.get(1..).ok_or("pt")?.try_into().map_err(|_| "pt")?;
                let sh = s.diffie_hellman(&x25519_dalek::PublicKey::from(their));
                let mut e = vec![0x40];
                e.extend_from_slice(p.as_bytes());
                (e, sh.as_bytes().to_vec())
            } else if oid == OID_P256 {
                let mut seed = eph_seed;
                seed[0] &= 0x7f;
                seed[31] |= 1;
                let sk = p256::SecretKey::from_slice(&seed).map_err(|e| e.to_string())?;
                let pk = p256::PublicKey::from_sec1_bytes(&point).map_err(|e| e.to_string())?;
                let sh = p256::ecdh::diffie_hellman(sk.to_nonzero_scalar(), pk.as_affine());
                use p256::elliptic_curve::sec1::ToEncodedPoint;
                (sk.public_key().to_encoded_point(false).as_bytes().to_vec(), sh.raw_secret_bytes().to_vec())
            } else {
                return Err("curve not implemented for reference encryption".into());
            };
            let kek = ecdh_kdf(kdf_hash, &shared, &oid, kdf_hash, kek_sym, fingerprint);
            let wrapped = aes_kw_wrap(kek_sym, &kek, &ecdh_pad(&m));
            let mut out = mpi(&eph_pub);
            out.push(wrapped.len() as u8);
            out.extend_from_slice(&wrapped);
            Ok(out)
        }
        25 => {
            let s = x25519_dalek::StaticSecret::from(eph_seed);
            let p = x25519_dalek::PublicKey::from(&s);
            let their: [u8; 32] = key.public.get(..32).ok_or("pk")?.try_into().unwrap();
            let sh = s.diffie_hellman(&x25519_dalek::PublicKey::from(their));
            let kek = x25519_kek(p.as_bytes(), &key.public, sh.as_bytes());
            let wrapped = aes_kw_wrap(7, &kek, session_key);
            let mut out = p.as_bytes().to_vec();
            if version == 3 {
                out.push((wrapped.len() + 1) as u8);
                out.push(sym);
            } else {
                out.push(wrapped.len() as u8);
            }
            out.extend_from_slice(&wrapped);
            Ok(out)
        }
        a => Err(format!("algorithm {a} not implemented in the reference")),
    }
}

/// Hostile PKESK: the recipient's key really decrypts it, but to attacker-chosen octets `m`
/// (RSA: PKCS#1 v1.5 of `m`; ECDH / X25519 / X448: AES key wrap of `m` as is - no padding, no
/// checksum are added, `m` must be a multiple of 8 and at least 16 octets for the wrap).
pub fn pkesk_hostile_fields(version: u8, key: &KeyBody, fingerprint: &[u8], m: &[u8], v3_alg_octet: u8, eph_seed: [u8; 32]) -> Result<Vec<u8>, String> {
    match key.alg {
        1 | 2 | 3 => {
            use rand::SeedableRng;
            let (n, a) = read_mpi(&key.public).ok_or("n")?;
            let (e, _) = read_mpi(&key.public[a..]).ok_or("e")?;
            let pk = rsa::RsaPublicKey::new(rsa::BigUint::from_bytes_be(&n), rsa::BigUint::from_bytes_be(&e)).map_err(|e| e.to_string())?;
            let mut rng = rand_chacha::ChaCha8Rng::from_seed(eph_seed);
            let c = pk.encrypt(&mut rng, rsa::Pkcs1v15Encrypt, m).map_err(|e| e.to_string())?;
            Ok(mpi(&c))
        }
        18 => {
            let (oid, point, kdf_hash, kek_sym) = ecdh_public(&key.public).ok_or("ecdh public")?;
            if m.len() % 8 != 0 || m.len() < 16 {
                return Err("wrap length".into());
            }
            let (eph_pub, shared): (Vec<u8>, Vec<u8>) = if oid == OID_CV25519 {
                let s = x25519_dalek::StaticSecret::from(eph_seed);
                let p = x25519_dalek::PublicKey::from(&s);
                let their: [u8; 32] = point.get(1..).ok_or("pt")?.try_into().map_err(|_| "pt")?;
                let sh = s.diffie_hellman(&x25519_dalek::PublicKey::from(their));
                let mut e = vec![0x40];
                e.extend_from_slice(p.as_bytes());
                (e, sh.as_bytes().to_vec())
            } else if oid == OID_P256 {
                let mut seed = eph_seed;
                seed[0] &= 0x7f;
                seed[31] |= 1;
                let sk = p256::SecretKey::from_slice(&seed).map_err(|e| e.to_string())?;
                let pk = p256::PublicKey::from_sec1_bytes(&point).map_err(|e| e.to_string())?;
                let sh = p256::ecdh::diffie_hellman(sk.to_nonzero_scalar(), pk.as_affine());
                use p256::elliptic_curve::sec1::ToEncodedPoint;
                (sk.public_key().to_encoded_point(false).as_bytes().to_vec(), sh.raw_secret_bytes().to_vec())
            } else {
                return Err("curve".into());
            };
            let kek = ecdh_kdf(kdf_hash, &shared, &oid, kdf_hash, kek_sym, fingerprint);
            let wrapped = aes_kw_wrap(kek_sym, &kek, m);
            let mut out = mpi(&eph_pub);
            out.push(wrapped.len() as u8);
            out.extend_from_slice(&wrapped);
            Ok(out)
        }
        25 => {
            if m.len() % 8 != 0 || m.len() < 16 {
                return Err("wrap length".into());
            }
            let s = x25519_dalek::StaticSecret::from(eph_seed);
            let p = x25519_dalek::PublicKey::from(&s);
            let their: [u8; 32] = key.public.get(..32).ok_or("pk")?.try_into().unwrap();
            let sh = s.diffie_hellman(&x25519_dalek::PublicKey::from(their));
            let kek = x25519_kek(p.as_bytes(), &key.public, sh.as_bytes());
            let wrapped = aes_kw_wrap(7, &kek, m);
            let mut out = p.as_bytes().to_vec();
            if version == 3 {
                out.push((wrapped.len() + 1) as u8);
                out.push(v3_alg_octet);
            } else {
                out.push(wrapped.len() as u8);
            }
            out.extend_from_slice(&wrapped);
            Ok(out)
        }
        26 => {
            if m.len() % 8 != 0 || m.len() < 16 {
                return Err("wrap length".into());
            }
            let mut sk = [0u8; 56];
            sk[..32].copy_from_slice(&eph_seed);
            sk[32..].copy_from_slice(&eph_seed[..24]);
            let secret = cx448::x448::Secret::from(sk);
            let p = cx448::x448::PublicKey::from(&secret);
            let their = cx448::x448::PublicKey::from_bytes(key.public.get(..56).ok_or("pk")?).ok_or("their key")?;
            let sh = secret.as_diffie_hellman(&their).ok_or("dh")?;
            let kek = x448_kek(p.as_bytes(), &key.public, sh.as_bytes());
            let wrapped = aes_kw_wrap(9, &kek, m);
            let mut out = p.as_bytes().to_vec();
            if version == 3 {
                out.push((wrapped.len() + 1) as u8);
                out.push(v3_alg_octet);
            } else {
                out.push(wrapped.len() as u8);
            }
            out.extend_from_slice(&wrapped);
            Ok(out)
        }
        a => Err(format!("algorithm {a}")),
    }
}

/// complete PKESK packet body around hostile fields
pub fn pkesk_body(version: u8, key: &KeyBody, fingerprint: &[u8], fields: &[u8], anonymous: bool) -> Vec<u8> {
    let mut body = vec![version];
    if version == 6 {
        if anonymous {
            body.push(0);
        } else {
            body.push((fingerprint.len() + 1) as u8);
            body.push(key.version);
            body.extend_from_slice(fingerprint);
        }
    } else if anonymous {
        body.extend_from_slice(&[0; 8]);
    } else {
        body.extend_from_slice(&super::crypto::key_id(key.version, fingerprint));
    }
    body.push(key.alg);
    body.extend_from_slice(fields);
    body
}
