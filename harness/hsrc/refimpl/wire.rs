//! R-wire (packet level): an independent RFC 9580 §4.2 packet framer / de-framer working on plain
//! bytes. Knows nothing about rPGP's types.

#[derive(Clone, Debug, PartialEq, Eq)]
pub enum LenKind {
    /// new format: 1, 2 or 5 octet length (value = number of length octets)
    New(u8),
    /// new format, partial body: chunk sizes of the partial parts, then the final length form
    Partial { parts: Vec<usize>, last_octets: u8 },
    /// legacy format length type 0,1,2 (1,2,4 octets)
    Old(u8),
    /// legacy indeterminate length (type 3)
    Indeterminate,
}

#[derive(Clone, Debug)]
pub struct RawPacket {
    pub tag: u8,
    pub new_format: bool,
    pub len_kind: LenKind,
    pub body: Vec<u8>,
    /// offset of the packet in the stream and total encoded size
    pub offset: usize,
    pub encoded_len: usize,
}

/// minimal new-format length encoding
pub fn new_len(len: usize) -> Vec<u8> {
    if len < 192 {
        vec![len as u8]
    } else if len < 8384 {
        let l = len - 192;
        vec![(l >> 8) as u8 + 192, l as u8]
    } else {
        let mut v = vec![255];
        v.extend_from_slice(&(len as u32).to_be_bytes());
        v
    }
}

/// new-format length in a chosen number of octets (1, 2, 5); None if not representable
pub fn new_len_with(len: usize, octets: u8) -> Option<Vec<u8>> {
    match octets {
        1 if len < 192 => Some(vec![len as u8]),
        2 if (192..8384).contains(&len) => {
            let l = len - 192;
            Some(vec![(l >> 8) as u8 + 192, l as u8])
        }
        5 if len <= u32::MAX as usize => {
            let mut v = vec![255];
            v.extend_from_slice(&(len as u32).to_be_bytes());
            Some(v)
        }
        _ => None,
    }
}

pub fn new_packet(tag: u8, body: &[u8]) -> Vec<u8> {
    let mut v = vec![0xC0 | (tag & 0x3f)];
    v.extend_from_slice(&new_len(body.len()));
    v.extend_from_slice(body);
    v
}

pub fn new_packet_with(tag: u8, body: &[u8], octets: u8) -> Option<Vec<u8>> {
    let mut v = vec![0xC0 | (tag & 0x3f)];
    v.extend_from_slice(&new_len_with(body.len(), octets)?);
    v.extend_from_slice(body);
    Some(v)
}

/// legacy-format packet with length type 0/1/2; None if the tag or length does not fit
pub fn old_packet(tag: u8, body: &[u8], len_type: u8) -> Option<Vec<u8>> {
    if tag > 15 {
        return None;
    }
    let mut v = vec![0x80 | (tag << 2) | len_type];
    match len_type {
        0 if body.len() < 256 => v.push(body.len() as u8),
        1 if body.len() < 65536 => v.extend_from_slice(&(body.len() as u16).to_be_bytes()),
        2 if body.len() <= u32::MAX as usize => v.extend_from_slice(&(body.len() as u32).to_be_bytes()),
        3 => {}
        _ => return None,
    }
    v.extend_from_slice(body);
    Some(v)
}

/// Partial-body framing: `exps` are the exponents of the partial chunks (each 2^e bytes), the
/// remainder goes into a final chunk with `last_octets` length octets. None if the exponents
/// over-run the body or the final length is not representable.
pub fn partial_packet(tag: u8, body: &[u8], exps: &[u8], last_octets: u8) -> Option<Vec<u8>> {
    let mut v = vec![0xC0 | (tag & 0x3f)];
    let mut pos = 0usize;
    for &e in exps {
        if e > 30 {
            return None;
        }
        let n = 1usize << e;
        if pos + n > body.len() {
            return None;
        }
        v.push(224 + e);
        v.extend_from_slice(&body[pos..pos + n]);
        pos += n;
    }
    let rest = &body[pos..];
    v.extend_from_slice(&new_len_with(rest.len(), last_octets)?);
    v.extend_from_slice(rest);
    Some(v)
}

/// Strict de-framer. Errors on truncation and malformed headers. Does not judge legality of
/// partial framing (first chunk >= 512, data tags only): see `partial_is_legal`.
pub fn split_packets(data: &[u8]) -> Result<Vec<RawPacket>, String> {
    let mut out = vec![];
    let mut i = 0usize;
    while i < data.len() {
        let start = i;
        let h = data[i];
        i += 1;
        if h & 0x80 == 0 {
            return Err(format!("offset {start}: first header bit clear ({h:#x})"));
        }
        let need = |i: usize, n: usize| -> Result<(), String> {
            if i + n > data.len() {
                Err(format!("offset {start}: truncated (need {n} bytes at {i}, have {})", data.len() - i))
            } else {
                Ok(())
            }
        };
        if h & 0x40 != 0 {
            let tag = h & 0x3f;
            let mut body = vec![];
            let mut parts = vec![];
            loop {
                need(i, 1)?;
                let o = data[i] as usize;
                i += 1;
                if o < 192 {
                    need(i, o)?;
                    body.extend_from_slice(&data[i..i + o]);
                    i += o;
                    let kind = if parts.is_empty() { LenKind::New(1) } else { LenKind::Partial { parts, last_octets: 1 } };
                    out.push(RawPacket { tag, new_format: true, len_kind: kind, body, offset: start, encoded_len: i - start });
                    break;
                } else if o < 224 {
                    need(i, 1)?;
                    let l = ((o - 192) << 8) + data[i] as usize + 192;
                    i += 1;
                    need(i, l)?;
                    body.extend_from_slice(&data[i..i + l]);
                    i += l;
                    let kind = if parts.is_empty() { LenKind::New(2) } else { LenKind::Partial { parts, last_octets: 2 } };
                    out.push(RawPacket { tag, new_format: true, len_kind: kind, body, offset: start, encoded_len: i - start });
                    break;
                } else if o == 255 {
                    need(i, 4)?;
                    let l = u32::from_be_bytes([data[i], data[i + 1], data[i + 2], data[i + 3]]) as usize;
                    i += 4;
                    need(i, l)?;
                    body.extend_from_slice(&data[i..i + l]);
                    i += l;
                    let kind = if parts.is_empty() { LenKind::New(5) } else { LenKind::Partial { parts, last_octets: 5 } };
                    out.push(RawPacket { tag, new_format: true, len_kind: kind, body, offset: start, encoded_len: i - start });
                    break;
                } else {
                    let l = 1usize << (o & 0x1f);
                    need(i, l)?;
                    body.extend_from_slice(&data[i..i + l]);
                    i += l;
                    parts.push(l);
                }
            }
        } else {
            let tag = (h >> 2) & 0x0f;
            let lt = h & 3;
            let (l, n) = match lt {
                0 => {
                    need(i, 1)?;
                    (data[i] as usize, 1)
                }
                1 => {
                    need(i, 2)?;
                    (u16::from_be_bytes([data[i], data[i + 1]]) as usize, 2)
                }
                2 => {
                    need(i, 4)?;
                    (u32::from_be_bytes([data[i], data[i + 1], data[i + 2], data[i + 3]]) as usize, 4)
                }
                _ => (data.len() - i, 0),
            };
            i += n;
            need(i, l)?;
            let body = data[i..i + l].to_vec();
            i += l;
            let kind = if lt == 3 { LenKind::Indeterminate } else { LenKind::Old(lt) };
            out.push(RawPacket { tag, new_format: false, len_kind: kind, body, offset: start, encoded_len: i - start });
        }
    }
    Ok(out)
}

/// Is tag a data packet for which partial body lengths are allowed (RFC 9580 §4.2.1.4)?
pub fn partial_allowed(tag: u8) -> bool {
    matches!(tag, 8 | 9 | 11 | 18 | 20)
}

/// Writer-side legality of a packet's framing (what the library may emit).
pub fn framing_is_legal(p: &RawPacket) -> Result<(), String> {
    match &p.len_kind {
        LenKind::Partial { parts, .. } => {
            if !partial_allowed(p.tag) {
                return Err(format!("partial body length on non-data tag {}", p.tag));
            }
            if parts[0] < 512 {
                return Err(format!("first partial chunk is {} < 512", parts[0]));
            }
            Ok(())
        }
        _ => Ok(()),
    }
}

/// literal data packet body
pub fn literal_body(mode: u8, name: &[u8], date: u32, data: &[u8]) -> Vec<u8> {
    let mut v = vec![mode, name.len() as u8];
    v.extend_from_slice(name);
    v.extend_from_slice(&date.to_be_bytes());
    v.extend_from_slice(data);
    v
}

/// parse a literal packet body -> (mode, name, date, data)
pub fn parse_literal(body: &[u8]) -> Option<(u8, Vec<u8>, u32, Vec<u8>)> {
    let mode = *body.first()?;
    let nl = *body.get(1)? as usize;
    if body.len() < 2 + nl + 4 {
        return None;
    }
    let name = body[2..2 + nl].to_vec();
    let d = &body[2 + nl..2 + nl + 4];
    let date = u32::from_be_bytes([d[0], d[1], d[2], d[3]]);
    Some((mode, name, date, body[2 + nl + 4..].to_vec()))
}

pub fn mpi(bytes: &[u8]) -> Vec<u8> {
    let b: &[u8] = {
        let mut s = bytes;
        while s.first() == Some(&0) {
            s = &s[1..];
        }
        s
    };
    let bits = if b.is_empty() { 0 } else { b.len() * 8 - b[0].leading_zeros() as usize };
    let mut v = (bits as u16).to_be_bytes().to_vec();
    v.extend_from_slice(b);
    v
}
