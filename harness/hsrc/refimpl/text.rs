//! R-text: reference text transforms, CRC-24 and base64, written directly from RFC 9580.

/// RFC 9580 §6.1 CRC-24 (init 0xB704CE, poly 0x864CFB), bitwise.
pub fn crc24(data: &[u8]) -> u32 {
    let mut crc: u32 = 0xB704CE;
    for &b in data {
        crc ^= (b as u32) << 16;
        for _ in 0..8 {
            crc <<= 1;
            if crc & 0x1000000 != 0 {
                crc ^= 0x1864CFB;
            }
        }
    }
    crc & 0xFFFFFF
}

const B64: &[u8; 64] = b"ABCDEFGHIJKLMNOPQRSTUVWXYZabcdefghijklmnopqrstuvwxyz0123456789+/";

pub fn b64_encode(data: &[u8]) -> String {
    let mut out = String::new();
    for c in data.chunks(3) {
        let n = (c[0] as u32) << 16 | (*c.get(1).unwrap_or(&0) as u32) << 8 | *c.get(2).unwrap_or(&0) as u32;
        out.push(B64[(n >> 18) as usize & 63] as char);
        out.push(B64[(n >> 12) as usize & 63] as char);
        out.push(if c.len() > 1 { B64[(n >> 6) as usize & 63] as char } else { '=' });
        out.push(if c.len() > 2 { B64[n as usize & 63] as char } else { '=' });
    }
    out
}

/// Strict canonical base64 decoder (no whitespace, canonical padding, zero pad bits).
pub fn b64_decode_strict(s: &str) -> Option<Vec<u8>> {
    let b = s.as_bytes();
    if b.len() % 4 != 0 {
        return None;
    }
    let val = |c: u8| B64.iter().position(|&x| x == c).map(|p| p as u32);
    let mut out = Vec::with_capacity(b.len() / 4 * 3);
    let nq = b.len() / 4;
    for (qi, q) in b.chunks(4).enumerate() {
        let last = qi + 1 == nq;
        let pad = q.iter().rev().take_while(|&&c| c == b'=').count();
        if pad > 2 || (pad > 0 && !last) {
            return None;
        }
        let mut n = 0u32;
        for (i, &c) in q.iter().enumerate() {
            let v = if i >= 4 - pad { 0 } else { val(c)? };
            n = n << 6 | v;
        }
        out.push((n >> 16) as u8);
        if pad < 2 {
            out.push((n >> 8) as u8);
        } else if n & 0xFFFF != 0 {
            return None;
        }
        if pad < 1 {
            out.push(n as u8);
        } else if n & 0xFF != 0 {
            return None;
        }
    }
    Some(out)
}

/// The one canonicalization of the property C14: every LF not preceded by CR becomes CRLF.
pub fn canon(s: &[u8]) -> Vec<u8> {
    let mut out = Vec::with_capacity(s.len() + 16);
    let mut prev_cr = false;
    for &b in s {
        if b == b'\n' && !prev_cr {
            out.push(b'\r');
        }
        out.push(b);
        prev_cr = b == b'\r';
    }
    out
}
