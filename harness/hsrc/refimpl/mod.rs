//! Reference implementations written for this harness, independent of rPGP's own code.
pub mod gen;
pub mod sigdigest;
pub mod text;
pub mod wire;
