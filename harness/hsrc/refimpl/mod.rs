//! Reference implementations written for this harness, independent of rPGP's own code.
pub mod text;
