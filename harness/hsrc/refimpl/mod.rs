//! Reference implementations written for this harness, independent of rPGP's own code.
pub mod crypto;
pub mod gen;
pub mod keys;
pub mod pkesk;
pub mod sigdigest;
pub mod sigparse;
pub mod text;
pub mod wire;
