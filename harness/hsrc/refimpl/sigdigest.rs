//! Reference signature digests per RFC 9580 §5.2.4, written from the RFC text.
use digest::Digest;

/// Hash by OpenPGP hash algorithm id (RFC 9580 §9.5). None for ids without a defined function.
pub fn hash_id(id: u8, parts: &[&[u8]]) -> Option<Vec<u8>> {
    fn run<D: Digest>(parts: &[&[u8]]) -> Vec<u8> {
        let mut h = D::new();
        for p in parts {
            h.update(p);
        }
        h.finalize().to_vec()
    }
    Some(match id {
        1 => run::<md5::Md5>(parts),
        2 => run::<sha1::Sha1>(parts),
        3 => run::<ripemd::Ripemd160>(parts),
        8 => run::<sha2::Sha256>(parts),
        9 => run::<sha2::Sha384>(parts),
        10 => run::<sha2::Sha512>(parts),
        11 => run::<sha2::Sha224>(parts),
        12 => run::<sha3::Sha3_256>(parts),
        14 => run::<sha3::Sha3_512>(parts),
        _ => return None,
    })
}

/// v6 salt size per hash id (RFC 9580 table in §9.5)
pub fn salt_len(id: u8) -> Option<usize> {
    Some(match id {
        8 => 16,
        9 => 24,
        10 => 32,
        11 => 16,
        12 => 16,
        14 => 32,
        _ => return None,
    })
}

/// hashed signature fields + trailer for a v4 signature
pub fn v4_tail(typ: u8, pk: u8, hash: u8, hashed_area: &[u8]) -> Vec<u8> {
    let mut v = vec![4, typ, pk, hash];
    v.extend_from_slice(&(hashed_area.len() as u16).to_be_bytes());
    v.extend_from_slice(hashed_area);
    let n = v.len() as u32;
    v.extend_from_slice(&[4, 0xff]);
    v.extend_from_slice(&n.to_be_bytes());
    v
}

/// hashed signature fields + trailer for a v6 signature
pub fn v6_tail(typ: u8, pk: u8, hash: u8, hashed_area: &[u8]) -> Vec<u8> {
    let mut v = vec![6, typ, pk, hash];
    v.extend_from_slice(&(hashed_area.len() as u32).to_be_bytes());
    v.extend_from_slice(hashed_area);
    let n = v.len() as u32;
    v.extend_from_slice(&[6, 0xff]);
    v.extend_from_slice(&n.to_be_bytes());
    v
}

/// v3: type || creation time, no trailer
pub fn v3_tail(typ: u8, created: u32) -> Vec<u8> {
    let mut v = vec![typ];
    v.extend_from_slice(&created.to_be_bytes());
    v
}

/// key framing for hashing / fingerprints: 0x99 len16 body (v4 and earlier), 0x9B len32 body (v6)
pub fn key_framing(version: u8, body: &[u8]) -> Vec<u8> {
    let mut v = vec![];
    if version >= 6 {
        v.push(0x9B);
        v.extend_from_slice(&(body.len() as u32).to_be_bytes());
    } else {
        v.push(0x99);
        v.extend_from_slice(&(body.len() as u16).to_be_bytes());
    }
    v.extend_from_slice(body);
    v
}

/// user id (0xB4) / user attribute (0xD1) framing for v4+ certifications
pub fn uid_framing(is_attr: bool, body: &[u8]) -> Vec<u8> {
    let mut v = vec![if is_attr { 0xD1 } else { 0xB4 }];
    v.extend_from_slice(&(body.len() as u32).to_be_bytes());
    v.extend_from_slice(body);
    v
}
