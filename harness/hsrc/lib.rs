//! rpgp-verif: property-based testing / fuzzing machinery for the 19 rPGP properties.
#![allow(clippy::all)]
pub mod engine;
pub mod fuzz;
pub mod io;
pub mod msg;
pub mod pk;
pub mod props;
pub mod recsign;
pub mod refimpl;
pub mod zoo;
