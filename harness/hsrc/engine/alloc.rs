//! Counting allocator: thread-local live / peak / total counters around the system allocator.
//! Deterministic for a deterministic program; used by C19 (memory proportional to input) and
//! C04. A single request above `HUGE` is refused (returns null -> the process aborts), so that a
//! declared-size allocation cannot take the harness down silently: the parent attributes the
//! abort to the in-flight case.

use std::alloc::{GlobalAlloc, Layout, System};
use std::cell::Cell;

pub struct Counting;

pub const HUGE: usize = 1 << 30;

thread_local! {
    static LIVE: Cell<isize> = const { Cell::new(0) };
    static PEAK: Cell<isize> = const { Cell::new(0) };
    static TOTAL: Cell<u64> = const { Cell::new(0) };
    static COUNT: Cell<u64> = const { Cell::new(0) };
    static LARGEST: Cell<usize> = const { Cell::new(0) };
}

#[inline]
fn on_alloc(size: usize) {
    let _ = LIVE.try_with(|l| {
        let v = l.get() + size as isize;
        l.set(v);
        let _ = PEAK.try_with(|p| {
            if v > p.get() {
                p.set(v);
            }
        });
    });
    let _ = TOTAL.try_with(|t| t.set(t.get() + size as u64));
    let _ = COUNT.try_with(|c| c.set(c.get() + 1));
    let _ = LARGEST.try_with(|c| {
        if size > c.get() {
            c.set(size)
        }
    });
}

#[inline]
fn on_free(size: usize) {
    let _ = LIVE.try_with(|l| l.set(l.get() - size as isize));
}

unsafe impl GlobalAlloc for Counting {
    unsafe fn alloc(&self, layout: Layout) -> *mut u8 {
        if layout.size() > HUGE {
            return std::ptr::null_mut();
        }
        on_alloc(layout.size());
        System.alloc(layout)
    }
    unsafe fn dealloc(&self, ptr: *mut u8, layout: Layout) {
        on_free(layout.size());
        System.dealloc(ptr, layout)
    }
    unsafe fn alloc_zeroed(&self, layout: Layout) -> *mut u8 {
        if layout.size() > HUGE {
            return std::ptr::null_mut();
        }
        on_alloc(layout.size());
        System.alloc_zeroed(layout)
    }
    unsafe fn realloc(&self, ptr: *mut u8, layout: Layout, new_size: usize) -> *mut u8 {
        if new_size > HUGE {
            return std::ptr::null_mut();
        }
        on_free(layout.size());
        on_alloc(new_size);
        System.realloc(ptr, layout, new_size)
    }
}

#[derive(Clone, Copy, Debug, Default)]
pub struct Stats {
    /// peak of live bytes above the level at reset()
    pub peak: u64,
    /// sum of all requested sizes since reset()
    pub total: u64,
    pub count: u64,
    pub largest: u64,
}

/// Start measuring on this thread.
pub fn reset() {
    LIVE.with(|l| l.set(0));
    PEAK.with(|p| p.set(0));
    TOTAL.with(|t| t.set(0));
    COUNT.with(|c| c.set(0));
    LARGEST.with(|c| c.set(0));
}

pub fn stats() -> Stats {
    Stats { peak: PEAK.with(|p| p.get()).max(0) as u64, total: TOTAL.with(|t| t.get()), count: COUNT.with(|c| c.get()), largest: LARGEST.with(|c| c.get()) as u64 }
}
