//! Tape: the single source of all generated choices of a case.
//!
//! A case is a pure function of a byte tape. Driver A fills tapes from a ChaCha8 stream derived
//! from (VERIF_SEED, group, case index); driver B (libFuzzer) hands its input in as the tape.
//! Reading past the end yields zeros, so *shorter tapes and smaller bytes mean simpler cases* and
//! the shrinker can work on raw bytes (Hypothesis-style internal shrinking).

pub struct Tape<'a> {
    data: &'a [u8],
    pos: usize,
}

impl<'a> Tape<'a> {
    pub fn new(data: &'a [u8]) -> Self {
        Tape { data, pos: 0 }
    }
    pub fn pos(&self) -> usize {
        self.pos
    }
    pub fn u8(&mut self) -> u8 {
        let v = self.data.get(self.pos).copied().unwrap_or(0);
        self.pos += 1;
        v
    }
    pub fn u16(&mut self) -> u16 {
        (self.u8() as u16) | ((self.u8() as u16) << 8)
    }
    pub fn u32(&mut self) -> u32 {
        (self.u16() as u32) | ((self.u16() as u32) << 16)
    }
    pub fn u64(&mut self) -> u64 {
        (self.u32() as u64) | ((self.u32() as u64) << 32)
    }
    pub fn bool(&mut self) -> bool {
        self.u8() & 1 == 1
    }
    /// true with probability ~num/256
    pub fn chance(&mut self, num: u8) -> bool {
        // zero byte => false (the simple choice)
        let b = self.u8();
        b != 0 && (b as u16) > 255 - num as u16
    }
    /// value in 0..n (n > 0); monotone in the tape bytes so that shrinking bytes shrinks the value
    pub fn below(&mut self, n: usize) -> usize {
        debug_assert!(n > 0);
        if n <= 1 {
            return 0;
        }
        if n <= 256 {
            ((self.u8() as usize) * n) >> 8
        } else if n <= 65536 {
            ((self.u16() as usize) * n) >> 16
        } else {
            (((self.u32() as u64) * (n as u64)) >> 32) as usize
        }
    }
    /// value in lo..=hi
    pub fn range(&mut self, lo: usize, hi: usize) -> usize {
        lo + self.below(hi - lo + 1)
    }
    pub fn pick<'b, T>(&mut self, xs: &'b [T]) -> &'b T {
        &xs[self.below(xs.len())]
    }
    pub fn bytes(&mut self, n: usize) -> Vec<u8> {
        (0..n).map(|_| self.u8()).collect()
    }
    /// Remaining raw tape bytes (used by byte-level fuzz style groups).
    pub fn rest(&mut self) -> &'a [u8] {
        let r = if self.pos <= self.data.len() { &self.data[self.pos..] } else { &[] };
        self.pos = self.data.len();
        r
    }
    /// Derive a deterministic 32-byte seed for library RNG parameters.
    pub fn seed32(&mut self) -> [u8; 32] {
        let mut s = [0u8; 32];
        for b in s.iter_mut().take(8) {
            *b = self.u8();
        }
        s
    }
}

/// Deterministic payload expansion: cheap pseudo random bytes from a 64-bit seed (splitmix64),
/// so that large payloads do not need large tapes.
pub fn expand(seed: u64, n: usize) -> Vec<u8> {
    let mut out = Vec::with_capacity(n + 8);
    let mut x = seed;
    while out.len() < n {
        x = x.wrapping_add(0x9E37_79B9_7F4A_7C15);
        let mut z = x;
        z = (z ^ (z >> 30)).wrapping_mul(0xBF58_476D_1CE4_E5B9);
        z = (z ^ (z >> 27)).wrapping_mul(0x94D0_49BB_1331_11EB);
        z ^= z >> 31;
        out.extend_from_slice(&z.to_le_bytes());
    }
    out.truncate(n);
    out
}
