//! Case runner: deterministic parallel execution of tape-decoded cases, panic capture,
//! known-finding handling, shrinking, replay files and evidence accumulation.

use std::cell::RefCell;
use std::collections::{BTreeMap, HashSet};
use std::hash::{Hash, Hasher};
use std::panic::{catch_unwind, AssertUnwindSafe};
use std::path::PathBuf;
use std::sync::atomic::{AtomicBool, Ordering};
use std::sync::Mutex;
use std::time::Instant;

use rand::{RngCore, SeedableRng};
use rand_chacha::ChaCha8Rng;
use rayon::prelude::*;
use serde_json::{json, Value};

use super::tape::Tape;

#[derive(Clone, Copy, PartialEq, Eq, Debug)]
pub enum Tier {
    Quick,
    Thorough,
}

impl Tier {
    pub fn name(self) -> &'static str {
        match self {
            Tier::Quick => "quick",
            Tier::Thorough => "thorough",
        }
    }
    /// pick by tier
    pub fn pick<T>(self, quick: T, thorough: T) -> T {
        match self {
            Tier::Quick => quick,
            Tier::Thorough => thorough,
        }
    }
}

#[derive(Clone, Debug)]
pub struct Fail {
    /// canonical signature: names the violated clause and the failing site/input class
    pub sig: String,
    pub detail: String,
}

pub type CaseResult = Result<(), Fail>;

pub fn fail<T>(sig: impl Into<String>, detail: impl Into<String>) -> Result<T, Fail> {
    Err(Fail {
        sig: sig.into(),
        detail: detail.into(),
    })
}

#[macro_export]
macro_rules! ensure_prop {
    ($cond:expr, $sig:expr, $($arg:tt)*) => {
        if !($cond) {
            return Err($crate::engine::run::Fail { sig: ($sig).to_string(), detail: format!($($arg)*) });
        }
    };
}

/// Per-case recorder: labels (class histogram), non-triviality key, description, soft failures.
pub struct Rec {
    pub want_desc: bool,
    pub strict: bool,
    labels: Vec<String>,
    key: Option<u64>,
    desc: Option<String>,
    discard: bool,
    fails: Vec<Fail>,
    /// extra evaluations performed inside this case (a case may batch several sub-evaluations)
    sub_evals: u64,
    keys_extra: Vec<u64>,
}

impl Rec {
    fn new(want_desc: bool, strict: bool) -> Self {
        Rec {
            want_desc,
            strict,
            labels: Vec::new(),
            key: None,
            desc: None,
            discard: false,
            fails: Vec::new(),
            sub_evals: 0,
            keys_extra: Vec::new(),
        }
    }
    pub fn label(&mut self, l: impl Into<String>) {
        self.labels.push(l.into());
    }
    /// Mark the case non-trivial with its distinctness key.
    pub fn nontrivial<K: Hash>(&mut self, key: K) {
        let mut h = std::collections::hash_map::DefaultHasher::new();
        key.hash(&mut h);
        let k = h.finish();
        if self.key.is_none() {
            self.key = Some(k);
        } else {
            self.keys_extra.push(k);
        }
    }
    pub fn describe(&mut self, f: impl FnOnce() -> String) {
        if self.want_desc && self.desc.is_none() {
            self.desc = Some(f());
        }
    }
    pub fn discard(&mut self) {
        self.discard = true;
    }
    /// A case that batches several evaluations reports the additional ones here.
    pub fn add_evals(&mut self, n: u64) {
        self.sub_evals += n;
    }
    /// Record a failed clause and keep checking the remaining clauses of the case.
    pub fn soft_fail(&mut self, sig: impl Into<String>, detail: impl Into<String>) {
        if self.fails.len() < 8 {
            self.fails.push(Fail {
                sig: sig.into(),
                detail: detail.into(),
            });
        }
    }
    /// Name the site / input class that is about to be exercised. In an isolated worker the
    /// checkpoint reaches the parent before the call, so that an abort (stack overflow, failed
    /// allocation) can be attributed to it.
    pub fn checkpoint(&mut self, site: &str) {
        if WORKER_MODE.load(Ordering::Relaxed) {
            use std::io::Write;
            let idx = CUR_IDX.with(|c| c.get());
            let out = std::io::stdout();
            let mut l = out.lock();
            let _ = writeln!(l, "C {} {}", idx, site.replace('\n', " "));
            let _ = l.flush();
        }
    }
    pub fn check(&mut self, cond: bool, sig: &str, detail: impl FnOnce() -> String) -> bool {
        if !cond {
            self.soft_fail(sig, detail());
        }
        cond
    }
}

/// set in worker processes: checkpoints are flushed to the parent immediately
pub static WORKER_MODE: AtomicBool = AtomicBool::new(false);

thread_local! {
    static CUR_IDX: std::cell::Cell<u64> = const { std::cell::Cell::new(0) };
}

thread_local! {
    static LAST_PANIC: RefCell<Option<(String, u32, String)>> = const { RefCell::new(None) };
}

/// cases finished in this process (all groups); the stall watchdog looks at it
static PROGRESS: std::sync::atomic::AtomicU64 = std::sync::atomic::AtomicU64::new(0);
static CURRENT_GROUP: Mutex<String> = Mutex::new(String::new());

/// A check whose process finishes no case for VERIF_STALL_S seconds (default 900) is stuck in the
/// harness or in rPGP; which of the two cannot be told from here, so the run ends as inconclusive
/// (exit 2). Isolated groups have their own per-case watchdog and attribution.
pub fn start_stall_watchdog() {
    let limit = std::env::var("VERIF_STALL_S").ok().and_then(|s| s.parse::<u64>().ok()).unwrap_or(900);
    std::thread::Builder::new()
        .name("stall-watchdog".into())
        .spawn(move || {
            let mut last = PROGRESS.load(Ordering::Relaxed);
            let mut since = Instant::now();
            loop {
                std::thread::sleep(std::time::Duration::from_secs(5));
                let now = PROGRESS.load(Ordering::Relaxed);
                if now != last {
                    last = now;
                    since = Instant::now();
                } else if since.elapsed().as_secs() >= limit {
                    let g = CURRENT_GROUP.lock().map(|g| g.clone()).unwrap_or_default();
                    println!("HARNESS-BUG (inconclusive, not a violation): no case finished for {limit} s in group {g:?}");
                    std::process::exit(2);
                }
            }
        })
        .ok();
}

pub fn install_panic_hook() {
    std::panic::set_hook(Box::new(|info| {
        let (file, line) = info
            .location()
            .map(|l| (l.file().to_string(), l.line()))
            .unwrap_or(("?".into(), 0));
        let msg = if let Some(s) = info.payload().downcast_ref::<&str>() {
            s.to_string()
        } else if let Some(s) = info.payload().downcast_ref::<String>() {
            s.clone()
        } else {
            "non-string panic".to_string()
        };
        LAST_PANIC.with(|p| *p.borrow_mut() = Some((file, line, msg)));
    }));
}

/// Turn a captured panic into a signature: site file + normalised message (digits collapsed so
/// that the same defect with different numbers has one signature).
pub fn panic_sig(file: &str, msg: &str) -> String {
    let file = file
        .rsplit_once("/repo/")
        .map(|x| x.1)
        .unwrap_or(file)
        .to_string();
    let file = if let Some(i) = file.find("/registry/src/") {
        let rest = &file[i + "/registry/src/".len()..];
        rest.split_once('/').map(|x| x.1).unwrap_or(rest).to_string()
    } else {
        file
    };
    let mut norm = String::new();
    let mut last_digit = false;
    for c in msg.chars().take(80) {
        if c.is_ascii_digit() {
            if !last_digit {
                norm.push('N');
            }
            last_digit = true;
        } else {
            last_digit = false;
            norm.push(if c == ' ' { '_' } else { c });
        }
    }
    format!("panic@{}:{}", file, norm)
}

#[derive(Clone, Debug)]
pub struct Known {
    pub property: String,
    pub signature: String,
    pub what_fails: String,
}

pub struct ReplayReq {
    pub group: String,
    pub tape: Vec<u8>,
}

#[derive(Clone, Debug)]
pub struct WorkerReq {
    pub group: String,
    pub start: u64,
    pub end: u64,
}

/// development aid: VERIF_GROUPS=a,b restricts a run to the groups whose name contains a or b
/// (never set by the registered commands)
fn group_selected(name: &str) -> bool {
    match std::env::var("VERIF_GROUPS") {
        Ok(v) if !v.is_empty() => v.split(',').any(|p| name.contains(p)),
        _ => true,
    }
}


/// What the coverage-guided driver learns about one input.
#[derive(Debug)]
pub enum FuzzVerdict {
    Pass,
    Discarded,
    /// a failure listed in known_findings.json (tolerated, search continues)
    Known(String),
    /// (signature, detail)
    Violation(String, String),
    HarnessPanic(String),
}

type FuzzFn = dyn Fn(&[u8]) -> FuzzVerdict + Send + Sync;
static FUZZ_CASE: std::sync::OnceLock<&'static FuzzFn> = std::sync::OnceLock::new();

/// The case function of the parked group (None until the runner thread reached it).
pub fn fuzz_case() -> Option<&'static FuzzFn> {
    FUZZ_CASE.get().copied()
}

impl Ctx {
    /// listing / fuzz-mode interception shared by `group` and `group_isolated`; true = handled
    fn intercept<F>(&self, name: &str, source: &Source, f: &F) -> bool
    where
        F: Fn(&mut Tape, &mut Rec) -> CaseResult + Sync,
    {
        if self.list_groups {
            match source {
                Source::Random { n, tape_len } => println!("GROUP {} random n={} tape_len={}", name, n, tape_len),
                Source::Indexed { count } => println!("GROUP {} indexed count={}", name, count),
            }
            return true;
        }
        let Some(g) = &self.fuzz_group else { return false };
        if g != name {
            return true;
        }
        let case = move |data: &[u8]| -> FuzzVerdict {
            let (rec, hp) = self.run_one(f, data, false);
            if let Some(hp) = hp {
                return FuzzVerdict::HarnessPanic(hp);
            }
            if let Some(fl) = rec.fails.iter().find(|fl| self.is_known(&fl.sig).is_none()) {
                return FuzzVerdict::Violation(fl.sig.clone(), fl.detail.clone());
            }
            if let Some(fl) = rec.fails.first() {
                return FuzzVerdict::Known(fl.sig.clone());
            }
            if rec.discard {
                FuzzVerdict::Discarded
            } else {
                FuzzVerdict::Pass
            }
        };
        let boxed: Box<dyn Fn(&[u8]) -> FuzzVerdict + Send + Sync + '_> = Box::new(case);
        // SAFETY: this thread parks forever below, so everything the closure borrows (the context,
        // the group's captured state) stays alive for as long as the process runs.
        let short: &(dyn Fn(&[u8]) -> FuzzVerdict + Send + Sync + '_) = Box::leak(boxed);
        let leaked: &'static FuzzFn = unsafe { std::mem::transmute(short) };
        let _ = FUZZ_CASE.set(leaked);
        loop {
            std::thread::park();
        }
    }
}

#[derive(Default)]
struct GroupStats {
    evaluations: u64,
    nontrivial: u64,
    discarded: u64,
    excluded_known: u64,
    exhaustive: bool,
    samples: Vec<String>,
    started: Option<Instant>,
}

#[derive(Default)]
struct Acc {
    groups: BTreeMap<String, GroupStats>,
    keys: HashSet<u64>,
    classes: BTreeMap<String, u64>,
    notes: BTreeMap<String, Value>,
    known_hit: BTreeMap<String, (String, u64)>,
    violations: Vec<(String, String, String)>, // (sig, replay path, detail)
    harness_bugs: Vec<String>,
    order: Vec<String>,
}

pub struct Ctx {
    pub prop: &'static str,
    pub tier: Tier,
    pub seed: u64,
    pub verif_root: PathBuf,
    known: Vec<Known>,
    replay: Option<ReplayReq>,
    pub worker: Option<WorkerReq>,
    /// worker deaths that are not verdicts: (all of these substrings in the worker's stderr, reason)
    pub tolerated_aborts: Mutex<Vec<(Vec<String>, String)>>,
    /// coverage-guided driver: park in this group and hand its case function to the fuzzer
    pub fuzz_group: Option<String>,
    /// listing mode: only print the groups (name, source) and return
    pub list_groups: bool,
    acc: Mutex<Acc>,
    start: Instant,
    stop_all: AtomicBool,
    pub rule: Mutex<String>,
    pub assumptions: Mutex<Vec<String>>,
    pub level: Mutex<&'static str>,
}

pub enum Source {
    /// n random tapes of the given length
    Random { n: u64, tape_len: usize },
    /// indices 0..count (tape = index as little-endian u64): exhaustive enumeration of a finite scope
    Indexed { count: u64 },
}

fn mix(seed: u64, prop: &str, group: &str, idx: u64) -> [u8; 32] {
    use sha2::Digest;
    let mut h = sha2::Sha256::new();
    h.update(seed.to_le_bytes());
    h.update(prop.as_bytes());
    h.update([0]);
    h.update(group.as_bytes());
    h.update([0]);
    h.update(idx.to_le_bytes());
    h.finalize().into()
}

struct CaseOut {
    idx: u64,
    rec: Rec,
    harness_panic: Option<String>,
}

impl Ctx {
    pub fn new(
        prop: &'static str,
        tier: Tier,
        seed: u64,
        verif_root: PathBuf,
        known: Vec<Known>,
        replay: Option<ReplayReq>,
    ) -> Self {
        Ctx {
            prop,
            tier,
            seed,
            verif_root,
            known,
            replay,
            worker: None,
            tolerated_aborts: Mutex::new(Vec::new()),
            fuzz_group: None,
            list_groups: false,
            acc: Mutex::new(Acc::default()),
            start: Instant::now(),
            stop_all: AtomicBool::new(false),
            rule: Mutex::new(String::new()),
            assumptions: Mutex::new(Vec::new()),
            level: Mutex::new("exploration"),
        }
    }

    pub fn is_replay(&self) -> bool {
        self.replay.is_some()
    }

    pub fn set_rule(&self, s: &str) {
        *self.rule.lock().unwrap() = s.to_string();
    }
    pub fn assume(&self, s: &str) {
        self.assumptions.lock().unwrap().push(s.to_string());
    }
    /// A worker death whose stderr contains all of `patterns` is counted under the class
    /// `tolerated-abort:<why>` instead of being reported (isolated groups only).
    pub fn tolerate_worker_abort(&self, patterns: &[&str], why: &str) {
        self.tolerated_aborts.lock().unwrap().push((patterns.iter().map(|s| s.to_string()).collect(), why.to_string()));
    }
    pub fn note(&self, key: &str, v: Value) {
        self.acc.lock().unwrap().notes.insert(key.to_string(), v);
    }

    fn is_known(&self, sig: &str) -> Option<&Known> {
        self.known
            .iter()
            .find(|k| k.property == self.prop && k.signature == sig)
    }

    fn run_one<F>(&self, f: &F, tape: &[u8], want_desc: bool) -> (Rec, Option<String>)
    where
        F: Fn(&mut Tape, &mut Rec) -> CaseResult + Sync,
    {
        let mut rec = Rec::new(want_desc, self.replay.is_some());
        let mut t = Tape::new(tape);
        LAST_PANIC.with(|p| *p.borrow_mut() = None);
        let r = catch_unwind(AssertUnwindSafe(|| f(&mut t, &mut rec)));
        PROGRESS.fetch_add(1, Ordering::Relaxed);
        // a generator that reads past the end of its tape only gets zeros from there on: make that visible
        if tape.len() > 8 && t.pos() > tape.len() {
            rec.labels.push("engine:tape-overrun".to_string());
        }
        let mut harness_panic = None;
        match r {
            Ok(Ok(())) => {}
            Ok(Err(fl)) => rec.fails.insert(0, fl),
            Err(_) => {
                let (file, line, msg) = LAST_PANIC
                    .with(|p| p.borrow_mut().take())
                    .unwrap_or(("?".into(), 0, "?".into()));
                if file.contains("verif/harness/") || file.starts_with("hsrc/") {
                    harness_panic = Some(format!("{}:{}: {}", file, line, msg));
                } else {
                    rec.fails.insert(
                        0,
                        Fail {
                            sig: format!("{}:{}", self.prop, panic_sig(&file, &msg)),
                            detail: format!("panic at {}:{}: {}", file, line, msg),
                        },
                    );
                }
            }
        }
        (rec, harness_panic)
    }

    /// Run a group of cases. `f` must be a pure function of the tape.
    pub fn group<F>(&self, name: &str, source: Source, f: F)
    where
        F: Fn(&mut Tape, &mut Rec) -> CaseResult + Sync,
    {
        if self.intercept(name, &source, &f) {
            return;
        }
        if self.stop_all.load(Ordering::Relaxed) || self.worker.is_some() || !group_selected(name) {
            return;
        }
        if let Some(rp) = &self.replay {
            if rp.group != name {
                return;
            }
            let (rec, hp) = self.run_one(&f, &rp.tape, true);
            println!("REPLAY group={} tape={}", name, hex::encode(&rp.tape));
            if let Some(d) = &rec.desc {
                println!("  case: {}", d);
            }
            if let Some(hp) = hp {
                println!("  HARNESS-PANIC {}", hp);
                self.acc.lock().unwrap().harness_bugs.push(hp);
            }
            let mut acc = self.acc.lock().unwrap();
            let g = acc.groups.entry(name.to_string()).or_default();
            g.evaluations += 1;
            if rec.fails.is_empty() {
                println!("  outcome: pass");
            }
            for fl in &rec.fails {
                println!("  outcome: FAIL {} — {}", fl.sig, fl.detail);
                if let Some(k) = self.is_known(&fl.sig) {
                    let e = acc
                        .known_hit
                        .entry(fl.sig.clone())
                        .or_insert((k.what_fails.clone(), 0));
                    e.1 += 1;
                } else {
                    acc.violations
                        .push((fl.sig.clone(), String::from("<replayed>"), fl.detail.clone()));
                }
            }
            return;
        }

        let (n, tape_len, indexed) = match source {
            Source::Random { n, tape_len } => (n, tape_len, false),
            Source::Indexed { count } => (count, 8, true),
        };
        {
            let mut acc = self.acc.lock().unwrap();
            if !acc.order.iter().any(|x| x == name) {
                acc.order.push(name.to_string());
            }
            let g = acc.groups.entry(name.to_string()).or_default();
            g.exhaustive = indexed;
            g.started.get_or_insert_with(Instant::now);
            if let Ok(mut cg) = CURRENT_GROUP.lock() {
                *cg = name.to_string();
            }
        }
        let make_tape = |idx: u64| -> Vec<u8> {
            if indexed {
                idx.to_le_bytes().to_vec()
            } else {
                let mut rng = ChaCha8Rng::from_seed(mix(self.seed, self.prop, name, idx));
                let mut t = vec![0u8; tape_len];
                rng.fill_bytes(&mut t);
                t
            }
        };
        let threads = rayon::current_num_threads() as u64;
        let chunk: u64 = (n / 16).clamp(threads * 4, 4096).max(1);
        let mut done = 0u64;
        let mut first_fail: BTreeMap<String, (u64, Fail)> = BTreeMap::new();
        while done < n {
            let end = (done + chunk).min(n);
            let outs: Vec<CaseOut> = (done..end)
                .into_par_iter()
                .map(|idx| {
                    let tape = make_tape(idx);
                    let want = idx < 2 || idx == n / 2 || idx == n - 1;
                    let (rec, hp) = self.run_one(&f, &tape, want);
                    CaseOut {
                        idx,
                        rec,
                        harness_panic: hp,
                    }
                })
                .collect();
            self.absorb(name, outs, &mut first_fail);
            let acc = self.acc.lock().unwrap();
            let bugs = !acc.harness_bugs.is_empty();
            drop(acc);
            done = end;
            if !first_fail.is_empty() || bugs {
                break;
            }
        }
        // report (at most 3 distinct signatures per group), shrunk
        for (sig, (idx, fl)) in first_fail.into_iter().take(3) {
            let tape = make_tape(idx);
            let (tape, detail, desc) = if indexed {
                let (rec, _) = self.run_one(&f, &tape, true);
                (tape, fl.detail.clone(), rec.desc)
            } else {
                self.shrink(&f, tape, &sig, fl.detail.clone())
            };
            let path = self.write_replay(name, &sig, idx, &tape, &detail, desc.as_deref());
            println!("VIOLATION property={} replay={}", self.prop, path);
            println!("  signature: {}", sig);
            println!("  detail: {}", detail);
            if let Some(d) = &desc {
                println!("  case: {}", d);
            }
            self.acc.lock().unwrap().violations.push((sig, path, detail));
        }
    }

    /// Like `group`, but every case runs in a child process on a thread with a 2 MiB stack, so
    /// that stack exhaustion, aborts and failed allocations are observed and attributed to the
    /// in-flight case instead of taking the check down. No shrinking (the tape is reported as is).
    pub fn group_isolated<F>(&self, name: &str, source: Source, f: F)
    where
        F: Fn(&mut Tape, &mut Rec) -> CaseResult + Sync + Send,
    {
        if self.intercept(name, &source, &f) {
            return;
        }
        if self.worker.is_none() && self.replay.is_none() && !group_selected(name) {
            return;
        }
        const STACK: usize = 2 << 20;
        let (n, tape_len, indexed) = match source {
            Source::Random { n, tape_len } => (n, tape_len, false),
            Source::Indexed { count } => (count, 8, true),
        };
        let make_tape = |idx: u64| -> Vec<u8> {
            if indexed {
                idx.to_le_bytes().to_vec()
            } else {
                let mut rng = ChaCha8Rng::from_seed(mix(self.seed, self.prop, name, idx));
                let mut t = vec![0u8; tape_len];
                rng.fill_bytes(&mut t);
                t
            }
        };
        let run_on_small_stack = |tape: &[u8], want: bool| -> (Rec, Option<String>) {
            std::thread::scope(|sc| {
                std::thread::Builder::new()
                    .stack_size(STACK)
                    .spawn_scoped(sc, || self.run_one(&f, tape, want))
                    .expect("spawn case thread")
                    .join()
                    .expect("case thread")
            })
        };
        // ---- worker process ----
        if let Some(w) = &self.worker {
            if w.group != name {
                return;
            }
            use std::io::Write;
            WORKER_MODE.store(true, Ordering::Relaxed);
            for idx in w.start..w.end.min(n) {
                {
                    let out = std::io::stdout();
                    let mut l = out.lock();
                    let _ = writeln!(l, "S {}", idx);
                    let _ = l.flush();
                }
                let tape = make_tape(idx);
                let want = idx < 2 || idx == n / 2 || idx == n - 1;
                let (rec, hp) = std::thread::scope(|sc| {
                    std::thread::Builder::new()
                        .stack_size(STACK)
                        .spawn_scoped(sc, || {
                            CUR_IDX.with(|c| c.set(idx));
                            self.run_one(&f, &tape, want)
                        })
                        .expect("spawn case thread")
                        .join()
                        .expect("case thread")
                });
                let v = json!({
                    "labels": rec.labels, "key": rec.key, "keys_extra": rec.keys_extra, "desc": rec.desc,
                    "discard": rec.discard, "sub_evals": rec.sub_evals, "harness_panic": hp,
                    "fails": rec.fails.iter().map(|x| json!({"sig": x.sig, "detail": x.detail})).collect::<Vec<_>>(),
                });
                let out = std::io::stdout();
                let mut l = out.lock();
                let _ = writeln!(l, "E {} {}", idx, v);
                let _ = l.flush();
            }
            std::process::exit(0);
        }
        if self.stop_all.load(Ordering::Relaxed) {
            return;
        }
        // ---- replay: in-process, small stack ----
        if let Some(rp) = &self.replay {
            if rp.group != name {
                return;
            }
            println!("REPLAY group={} tape={} (isolated group: running on a 2 MiB stack; an abort here IS the failure)", name, hex::encode(&rp.tape));
            let (rec, hp) = run_on_small_stack(&rp.tape, true);
            if let Some(d) = &rec.desc {
                println!("  case: {}", d);
            }
            let mut acc = self.acc.lock().unwrap();
            if let Some(hp) = hp {
                acc.harness_bugs.push(hp);
            }
            acc.groups.entry(name.to_string()).or_default().evaluations += 1;
            if rec.fails.is_empty() {
                println!("  outcome: pass");
            }
            for fl in &rec.fails {
                println!("  outcome: FAIL {} — {}", fl.sig, fl.detail);
                if let Some(k) = self.is_known(&fl.sig) {
                    acc.known_hit.entry(fl.sig.clone()).or_insert((k.what_fails.clone(), 0)).1 += 1;
                } else {
                    acc.violations.push((fl.sig.clone(), String::from("<replayed>"), fl.detail.clone()));
                }
            }
            return;
        }
        // ---- parent ----
        {
            let mut acc = self.acc.lock().unwrap();
            if !acc.order.iter().any(|x| x == name) {
                acc.order.push(name.to_string());
            }
            let g = acc.groups.entry(name.to_string()).or_default();
            g.exhaustive = indexed;
            g.started.get_or_insert_with(Instant::now);
            if let Ok(mut cg) = CURRENT_GROUP.lock() {
                *cg = name.to_string();
            }
        }
        let exe = std::env::current_exe().expect("current_exe");
        let workers = (rayon::current_num_threads() as u64).min(n.div_ceil(8)).max(1);
        let step = n.div_ceil(workers * 3).max(1);
        let queue: Mutex<std::collections::VecDeque<(u64, u64)>> = Mutex::new((0..n).step_by(step as usize).map(|s| (s, (s + step).min(n))).collect());
        let results: Mutex<Vec<CaseOut>> = Mutex::new(Vec::new());
        let watchdog = std::time::Duration::from_secs(std::env::var("VERIF_CASE_TIMEOUT_S").ok().and_then(|s| s.parse().ok()).unwrap_or(120));
        std::thread::scope(|sc| {
            for _ in 0..workers {
                sc.spawn(|| loop {
                    let Some((start, end)) = queue.lock().unwrap().pop_front() else { break };
                    let mut child = std::process::Command::new(&exe)
                        .args([self.prop, "worker", self.tier.name(), name, &start.to_string(), &end.to_string()])
                        .env("VERIF_SEED", self.seed.to_string())
                        .env("VERIF_THREADS", "1")
                        .stdout(std::process::Stdio::piped())
                        .stderr(std::process::Stdio::piped())
                        .spawn()
                        .expect("spawn worker");
                    let stdout = child.stdout.take().unwrap();
                    let mut stderr = child.stderr.take().unwrap();
                    let (tx, rx) = std::sync::mpsc::channel::<String>();
                    let rd = std::thread::spawn(move || {
                        use std::io::BufRead;
                        for line in std::io::BufReader::new(stdout).lines().map_while(|l| l.ok()) {
                            if tx.send(line).is_err() {
                                break;
                            }
                        }
                    });
                    let errt = std::thread::spawn(move || {
                        use std::io::Read;
                        let mut v = Vec::new();
                        let _ = stderr.read_to_end(&mut v);
                        // keep the first line-ish part (the fatal message) and the end (the backtrace tail)
                        let s = String::from_utf8_lossy(&v).to_string();
                        let n = s.chars().count();
                        if n <= 5000 {
                            s
                        } else {
                            let head: String = s.chars().take(400).collect();
                            let tail: String = s.chars().skip(n - 4600).collect();
                            format!("{head} [...] {tail}")
                        }
                    });
                    let mut inflight: Option<u64> = None;
                    let mut checkpoint = String::new();
                    let mut next = start;
                    let mut timed_out = false;
                    loop {
                        match rx.recv_timeout(watchdog) {
                            Ok(line) => {
                                if let Some(r) = line.strip_prefix("S ") {
                                    inflight = r.trim().parse().ok();
                                    checkpoint.clear();
                                } else if let Some(r) = line.strip_prefix("C ") {
                                    if let Some((_, site)) = r.split_once(' ') {
                                        checkpoint = site.to_string();
                                    }
                                } else if let Some(r) = line.strip_prefix("E ") {
                                    if let Some((i, js)) = r.split_once(' ') {
                                        if let (Ok(idx), Ok(v)) = (i.parse::<u64>(), serde_json::from_str::<Value>(js)) {
                                            let mut rec = Rec::new(false, false);
                                            rec.labels = v["labels"].as_array().map(|a| a.iter().filter_map(|x| x.as_str().map(String::from)).collect()).unwrap_or_default();
                                            rec.key = v["key"].as_u64();
                                            rec.keys_extra = v["keys_extra"].as_array().map(|a| a.iter().filter_map(|x| x.as_u64()).collect()).unwrap_or_default();
                                            rec.desc = v["desc"].as_str().map(String::from);
                                            rec.discard = v["discard"].as_bool().unwrap_or(false);
                                            rec.sub_evals = v["sub_evals"].as_u64().unwrap_or(0);
                                            rec.fails = v["fails"].as_array().map(|a| a.iter().map(|x| Fail { sig: x["sig"].as_str().unwrap_or("").to_string(), detail: x["detail"].as_str().unwrap_or("").to_string() }).collect()).unwrap_or_default();
                                            PROGRESS.fetch_add(1, Ordering::Relaxed);
                                            results.lock().unwrap().push(CaseOut { idx, rec, harness_panic: v["harness_panic"].as_str().map(String::from) });
                                            inflight = None;
                                            next = idx + 1;
                                        }
                                    }
                                }
                            }
                            Err(std::sync::mpsc::RecvTimeoutError::Timeout) => {
                                timed_out = true;
                                let _ = child.kill();
                                break;
                            }
                            Err(std::sync::mpsc::RecvTimeoutError::Disconnected) => break,
                        }
                    }
                    let status = child.wait().ok();
                    let _ = rd.join();
                    let err_tail = errt.join().unwrap_or_default();
                    if let Some(idx) = inflight {
                        // the child died (or hung) inside case idx
                        let mut rec = Rec::new(true, false);
                        rec.key = Some(idx);
                        if timed_out {
                            results.lock().unwrap().push(CaseOut { idx, rec, harness_panic: Some(format!("watchdog: no progress for {} s in case {} (site {:?}) - inconclusive", watchdog.as_secs(), idx, checkpoint)) });
                        } else {
                            let tolerated = self.tolerated_aborts.lock().unwrap().iter().find(|(pats, _)| pats.iter().all(|p| err_tail.contains(p.as_str()))).map(|(_, why)| why.clone());
                            if let Some(why) = tolerated {
                                rec.labels.push(format!("tolerated-abort:{why}"));
                                rec.desc = None;
                                results.lock().unwrap().push(CaseOut { idx, rec, harness_panic: None });
                                next = idx + 1;
                                if next < end {
                                    queue.lock().unwrap().push_front((next, end));
                                }
                                continue;
                            }
                            let kind = if err_tail.contains("overflowed its stack") {
                                "stack-overflow".to_string()
                            } else if err_tail.contains("memory allocation of") {
                                "allocation-failure".to_string()
                            } else {
                                use std::os::unix::process::ExitStatusExt;
                                format!("terminated-by-signal-{}", status.and_then(|s| s.signal()).unwrap_or(0))
                            };
                            rec.desc = Some(format!("case {} aborted the worker process; tape {}", idx, hex::encode(make_tape(idx))));
                            rec.fails.push(Fail { sig: format!("{}:abort:{}@{}", self.prop, kind, if checkpoint.is_empty() { "?" } else { &checkpoint }), detail: format!("worker process died in case {} ({}); stderr: {}", idx, kind, err_tail.chars().take(900).collect::<String>().replace('\n', " | ")) });
                            results.lock().unwrap().push(CaseOut { idx, rec, harness_panic: None });
                        }
                        next = idx + 1;
                    }
                    if next < end {
                        queue.lock().unwrap().push_front((next, end));
                    }
                });
            }
        });
        let mut outs = results.into_inner().unwrap();
        outs.sort_by_key(|o| o.idx);
        let mut first_fail: BTreeMap<String, (u64, Fail)> = BTreeMap::new();
        self.absorb(name, outs, &mut first_fail);
        for (sig, (idx, fl)) in first_fail.into_iter().take(5) {
            let tape = make_tape(idx);
            let path = self.write_replay(name, &sig, idx, &tape, &fl.detail, None);
            println!("VIOLATION property={} replay={}", self.prop, path);
            println!("  signature: {}", sig);
            println!("  detail: {}", fl.detail);
            self.acc.lock().unwrap().violations.push((sig, path, fl.detail));
        }
    }

    fn absorb(&self, name: &str, outs: Vec<CaseOut>, first_fail: &mut BTreeMap<String, (u64, Fail)>) {
        let mut acc = self.acc.lock().unwrap();
        for o in outs {
            if let Some(hp) = o.harness_panic {
                if acc.harness_bugs.len() < 5 {
                    acc.harness_bugs.push(format!("group {} idx {}: {}", name, o.idx, hp));
                }
            }
            let rec = o.rec;
            for l in &rec.labels {
                *acc.classes.entry(l.clone()).or_insert(0) += 1;
            }
            let mut nt = 0;
            if !rec.discard {
                if let Some(k) = rec.key {
                    let mut h = std::collections::hash_map::DefaultHasher::new();
                    name.hash(&mut h);
                    k.hash(&mut h);
                    if acc.keys.insert(h.finish()) {
                        nt += 1;
                    }
                    for k in &rec.keys_extra {
                        let mut h = std::collections::hash_map::DefaultHasher::new();
                        name.hash(&mut h);
                        k.hash(&mut h);
                        if acc.keys.insert(h.finish()) {
                            nt += 1;
                        }
                    }
                }
            }
            let mut known_n = 0;
            for fl in &rec.fails {
                if let Some(k) = self.is_known(&fl.sig) {
                    known_n += 1;
                    let e = acc
                        .known_hit
                        .entry(fl.sig.clone())
                        .or_insert((k.what_fails.clone(), 0));
                    e.1 += 1;
                } else {
                    first_fail
                        .entry(fl.sig.clone())
                        .or_insert((o.idx, fl.clone()));
                }
            }
            let g = acc.groups.get_mut(name).unwrap();
            // a case that registers several non-trivial sub-cases evaluated at least that many
            g.evaluations += 1 + rec.sub_evals.max(rec.keys_extra.len() as u64);
            g.nontrivial += nt;
            if rec.discard {
                g.discarded += 1;
            }
            g.excluded_known += known_n;
            if let Some(d) = rec.desc {
                if g.samples.len() < 4 {
                    g.samples.push(d);
                }
            }
        }
    }

    fn fails_with<F>(&self, f: &F, tape: &[u8], sig: &str) -> Option<(String, Option<String>)>
    where
        F: Fn(&mut Tape, &mut Rec) -> CaseResult + Sync,
    {
        let (rec, hp) = self.run_one(f, tape, true);
        if hp.is_some() {
            return None;
        }
        rec.fails
            .iter()
            .find(|x| x.sig == sig)
            .map(|x| (x.detail.clone(), rec.desc.clone()))
    }

    /// Deterministic, bounded tape minimiser; every accepted step must fail with the same signature.
    fn shrink<F>(
        &self,
        f: &F,
        mut tape: Vec<u8>,
        sig: &str,
        mut detail: String,
    ) -> (Vec<u8>, String, Option<String>)
    where
        F: Fn(&mut Tape, &mut Rec) -> CaseResult + Sync,
    {
        let mut budget: i64 = 1500;
        let mut desc = None;
        let try_tape = |cand: &[u8], budget: &mut i64| -> Option<(String, Option<String>)> {
            if *budget <= 0 {
                return None;
            }
            *budget -= 1;
            self.fails_with(f, cand, sig)
        };
        if let Some((d, ds)) = try_tape(&tape, &mut budget) {
            detail = d;
            desc = ds;
        }
        let mut improved = true;
        while improved && budget > 0 {
            improved = false;
            // truncate
            let mut len = tape.len();
            while len > 0 {
                let cand = &tape[..len / 2];
                if let Some((d, ds)) = try_tape(cand, &mut budget) {
                    tape.truncate(len / 2);
                    len = tape.len();
                    detail = d;
                    desc = ds;
                    improved = true;
                } else {
                    break;
                }
            }
            // strip trailing zeros (free: reading past the end yields zeros)
            while tape.last() == Some(&0) {
                tape.pop();
            }
            // delete blocks
            for bs in [16usize, 8, 4, 2, 1] {
                let mut pos = 0;
                while pos + bs <= tape.len() && budget > 0 {
                    let mut cand = tape.clone();
                    cand.drain(pos..pos + bs);
                    if let Some((d, ds)) = try_tape(&cand, &mut budget) {
                        tape = cand;
                        detail = d;
                        desc = ds;
                        improved = true;
                    } else {
                        pos += bs;
                    }
                }
            }
            // lower bytes
            for i in 0..tape.len() {
                if budget <= 0 {
                    break;
                }
                if tape[i] == 0 {
                    continue;
                }
                for cand_v in [0u8, tape[i] / 2, tape[i] - 1] {
                    if cand_v >= tape[i] {
                        continue;
                    }
                    let mut cand = tape.clone();
                    cand[i] = cand_v;
                    if let Some((d, ds)) = try_tape(&cand, &mut budget) {
                        tape = cand;
                        detail = d;
                        desc = ds;
                        improved = true;
                        break;
                    }
                }
            }
        }
        (tape, detail, desc)
    }

    fn write_replay(
        &self,
        group: &str,
        sig: &str,
        idx: u64,
        tape: &[u8],
        detail: &str,
        desc: Option<&str>,
    ) -> String {
        let dir = self.verif_root.join("replays").join(self.prop);
        let _ = std::fs::create_dir_all(&dir);
        let clean: String = sig
            .chars()
            .map(|c| if c.is_ascii_alphanumeric() || c == '-' { c } else { '_' })
            .take(80)
            .collect();
        let path = dir.join(format!("{}-{}-seed{}.json", group, clean, self.seed));
        let v = json!({
            "property": self.prop,
            "group": group,
            "tier": self.tier.name(),
            "seed": self.seed,
            "case_index": idx,
            "tape_hex": hex::encode(tape),
            "signature": sig,
            "detail": detail,
            "decoded_case": desc,
        });
        let _ = std::fs::write(&path, serde_json::to_string_pretty(&v).unwrap());
        path.to_string_lossy().to_string()
    }

    /// Finish: print known findings, write evidence, return the exit code.
    pub fn finish(&self) -> i32 {
        let acc = self.acc.lock().unwrap();
        for (sig, (what, n)) in &acc.known_hit {
            println!(
                "KNOWN-FINDING: property={} {} [signature {}; {} case(s) this run]",
                self.prop, what, sig, n
            );
        }
        let wall = self.start.elapsed().as_secs_f64();
        let mut evaluations = 0u64;
        let mut discarded = 0u64;
        let mut excluded = 0u64;
        let mut groups = serde_json::Map::new();
        let mut samples: Vec<Value> = Vec::new();
        let mut all_exh = !acc.groups.is_empty();
        let now = Instant::now();
        for (gi, name) in acc.order.iter().enumerate() {
            let g = &acc.groups[name];
            // groups run one after the other: a group lasts until the next one starts
            let until = acc.order.get(gi + 1).and_then(|n| acc.groups[n].started).unwrap_or(now);
            let group_wall = g.started.map(|s| until.saturating_duration_since(s).as_secs_f64()).unwrap_or(0.0);
            evaluations += g.evaluations;
            discarded += g.discarded;
            excluded += g.excluded_known;
            all_exh &= g.exhaustive;
            groups.insert(
                name.clone(),
                json!({"evaluations": g.evaluations, "distinct_nontrivial": g.nontrivial,
                       "discarded": g.discarded, "excluded_known": g.excluded_known,
                       "enumerated_exhaustively": g.exhaustive,
                       "wall_s": (group_wall * 10.0).round() / 10.0}),
            );
            for s in g.samples.iter().take(3) {
                samples.push(json!({"group": name, "case": s}));
            }
        }
        let mut coverage = serde_json::Map::new();
        coverage.insert("evaluations".into(), json!(evaluations));
        coverage.insert("distinct_nontrivial".into(), json!(acc.keys.len()));
        coverage.insert("rule".into(), json!(*self.rule.lock().unwrap()));
        coverage.insert("samples".into(), Value::Array(samples));
        coverage.insert("groups".into(), Value::Object(groups));
        coverage.insert("classes".into(), json!(acc.classes));
        coverage.insert("discarded".into(), json!(discarded));
        coverage.insert("excluded_known".into(), json!(excluded));
        coverage.insert("exhaustive".into(), json!(all_exh));
        coverage.insert(
            "known_findings_hit".into(),
            json!(acc.known_hit.keys().collect::<Vec<_>>()),
        );
        for (k, v) in &acc.notes {
            coverage.insert(k.clone(), v.clone());
        }
        let ev = json!({
            "property_id": self.prop,
            "tier": self.tier.name(),
            "seed": self.seed,
            "level": *self.level.lock().unwrap(),
            "coverage": Value::Object(coverage),
            "assumptions": *self.assumptions.lock().unwrap(),
            "wall_s": (wall * 100.0).round() / 100.0,
            "violations": acc.violations.len(),
            "violation_signatures": acc.violations.iter().map(|v| v.0.clone()).collect::<Vec<_>>(),
        });
        if self.replay.is_none() {
            let dir = self.verif_root.join("evidence");
            let _ = std::fs::create_dir_all(&dir);
            let p = dir.join(format!("{}.json", self.prop));
            if let Err(e) = std::fs::write(&p, serde_json::to_string_pretty(&ev).unwrap()) {
                eprintln!("cannot write evidence {}: {}", p.display(), e);
                return 2;
            }
        }
        println!(
            "{} {} seed={} evaluations={} distinct_nontrivial={} excluded_known={} violations={} wall={:.1}s",
            self.prop,
            self.tier.name(),
            self.seed,
            evaluations,
            acc.keys.len(),
            excluded,
            acc.violations.len(),
            wall
        );
        if !acc.harness_bugs.is_empty() {
            for b in &acc.harness_bugs {
                eprintln!("HARNESS-BUG (inconclusive, not a violation): {}", b);
            }
            return 2;
        }
        if !acc.violations.is_empty() {
            1
        } else {
            0
        }
    }
}
