//! Case runner: deterministic parallel execution of tape-decoded cases, panic capture,
//! known-finding handling, shrinking, replay files and evidence accumulation.

use std::cell::RefCell;
use std::collections::{BTreeMap, HashSet};
use std::hash::{Hash, Hasher};
use std::panic::{catch_unwind, AssertUnwindSafe};
use std::path::PathBuf;
use std::sync::atomic::{AtomicBool, Ordering};
use std::sync::Mutex;
use std::time::Instant;

use rand::{RngCore, SeedableRng};
use rand_chacha::ChaCha8Rng;
use rayon::prelude::*;
use serde_json::{json, Value};

use super::tape::Tape;

#[derive(Clone, Copy, PartialEq, Eq, Debug)]
pub enum Tier {
    Quick,
    Thorough,
}

impl Tier {
    pub fn name(self) -> &'static str {
        match self {
            Tier::Quick => "quick",
            Tier::Thorough => "thorough",
        }
    }
    /// pick by tier
    pub fn pick<T>(self, quick: T, thorough: T) -> T {
        match self {
            Tier::Quick => quick,
            Tier::Thorough => thorough,
        }
    }
}

#[derive(Clone, Debug)]
pub struct Fail {
    /// canonical signature: names the violated clause and the failing site/input class
    pub sig: String,
    pub detail: String,
}

pub type CaseResult = Result<(), Fail>;

pub fn fail<T>(sig: impl Into<String>, detail: impl Into<String>) -> Result<T, Fail> {
    Err(Fail {
        sig: sig.into(),
        detail: detail.into(),
    })
}

#[macro_export]
macro_rules! ensure_prop {
    ($cond:expr, $sig:expr, $($arg:tt)*) => {
        if !($cond) {
            return Err($crate::engine::run::Fail { sig: ($sig).to_string(), detail: format!($($arg)*) });
        }
    };
}

/// Per-case recorder: labels (class histogram), non-triviality key, description, soft failures.
pub struct Rec {
    pub want_desc: bool,
    pub strict: bool,
    labels: Vec<String>,
    key: Option<u64>,
    desc: Option<String>,
    discard: bool,
    fails: Vec<Fail>,
    /// extra evaluations performed inside this case (a case may batch several sub-evaluations)
    sub_evals: u64,
    keys_extra: Vec<u64>,
}

impl Rec {
    fn new(want_desc: bool, strict: bool) -> Self {
        Rec {
            want_desc,
            strict,
            labels: Vec::new(),
            key: None,
            desc: None,
            discard: false,
            fails: Vec::new(),
            sub_evals: 0,
            keys_extra: Vec::new(),
        }
    }
    pub fn label(&mut self, l: impl Into<String>) {
        self.labels.push(l.into());
    }
    /// Mark the case non-trivial with its distinctness key.
    pub fn nontrivial<K: Hash>(&mut self, key: K) {
        let mut h = std::collections::hash_map::DefaultHasher::new();
        key.hash(&mut h);
        let k = h.finish();
        if self.key.is_none() {
            self.key = Some(k);
        } else {
            self.keys_extra.push(k);
        }
    }
    pub fn describe(&mut self, f: impl FnOnce() -> String) {
        if self.want_desc && self.desc.is_none() {
            self.desc = Some(f());
        }
    }
    pub fn discard(&mut self) {
        self.discard = true;
    }
    /// A case that batches several evaluations reports the additional ones here.
    pub fn add_evals(&mut self, n: u64) {
        self.sub_evals += n;
    }
    /// Record a failed clause and keep checking the remaining clauses of the case.
    pub fn soft_fail(&mut self, sig: impl Into<String>, detail: impl Into<String>) {
        if self.fails.len() < 8 {
            self.fails.push(Fail {
                sig: sig.into(),
                detail: detail.into(),
            });
        }
    }
    pub fn check(&mut self, cond: bool, sig: &str, detail: impl FnOnce() -> String) -> bool {
        if !cond {
            self.soft_fail(sig, detail());
        }
        cond
    }
}

thread_local! {
    static LAST_PANIC: RefCell<Option<(String, u32, String)>> = const { RefCell::new(None) };
}

pub fn install_panic_hook() {
    std::panic::set_hook(Box::new(|info| {
        let (file, line) = info
            .location()
            .map(|l| (l.file().to_string(), l.line()))
            .unwrap_or(("?".into(), 0));
        let msg = if let Some(s) = info.payload().downcast_ref::<&str>() {
            s.to_string()
        } else if let Some(s) = info.payload().downcast_ref::<String>() {
            s.clone()
        } else {
            "non-string panic".to_string()
        };
        LAST_PANIC.with(|p| *p.borrow_mut() = Some((file, line, msg)));
    }));
}

/// Turn a captured panic into a signature: site file + normalised message (digits collapsed so
/// that the same defect with different numbers has one signature).
pub fn panic_sig(file: &str, msg: &str) -> String {
    let file = file
        .rsplit_once("/repo/")
        .map(|x| x.1)
        .unwrap_or(file)
        .to_string();
    let file = if let Some(i) = file.find("/registry/src/") {
        let rest = &file[i + "/registry/src/".len()..];
        rest.split_once('/').map(|x| x.1).unwrap_or(rest).to_string()
    } else {
        file
    };
    let mut norm = String::new();
    let mut last_digit = false;
    for c in msg.chars().take(80) {
        if c.is_ascii_digit() {
            if !last_digit {
                norm.push('N');
            }
            last_digit = true;
        } else {
            last_digit = false;
            norm.push(if c == ' ' { '_' } else { c });
        }
    }
    format!("panic@{}:{}", file, norm)
}

#[derive(Clone, Debug)]
pub struct Known {
    pub property: String,
    pub signature: String,
    pub what_fails: String,
}

pub struct ReplayReq {
    pub group: String,
    pub tape: Vec<u8>,
}

#[derive(Default)]
struct GroupStats {
    evaluations: u64,
    nontrivial: u64,
    discarded: u64,
    excluded_known: u64,
    exhaustive: bool,
    samples: Vec<String>,
}

#[derive(Default)]
struct Acc {
    groups: BTreeMap<String, GroupStats>,
    keys: HashSet<u64>,
    classes: BTreeMap<String, u64>,
    notes: BTreeMap<String, Value>,
    known_hit: BTreeMap<String, (String, u64)>,
    violations: Vec<(String, String, String)>, // (sig, replay path, detail)
    harness_bugs: Vec<String>,
    order: Vec<String>,
}

pub struct Ctx {
    pub prop: &'static str,
    pub tier: Tier,
    pub seed: u64,
    pub verif_root: PathBuf,
    known: Vec<Known>,
    replay: Option<ReplayReq>,
    acc: Mutex<Acc>,
    start: Instant,
    stop_all: AtomicBool,
    pub rule: Mutex<String>,
    pub assumptions: Mutex<Vec<String>>,
    pub level: Mutex<&'static str>,
}

pub enum Source {
    /// n random tapes of the given length
    Random { n: u64, tape_len: usize },
    /// indices 0..count (tape = index as little-endian u64): exhaustive enumeration of a finite scope
    Indexed { count: u64 },
}

fn mix(seed: u64, prop: &str, group: &str, idx: u64) -> [u8; 32] {
    use sha2::Digest;
    let mut h = sha2::Sha256::new();
    h.update(seed.to_le_bytes());
    h.update(prop.as_bytes());
    h.update([0]);
    h.update(group.as_bytes());
    h.update([0]);
    h.update(idx.to_le_bytes());
    h.finalize().into()
}

struct CaseOut {
    idx: u64,
    rec: Rec,
    harness_panic: Option<String>,
}

impl Ctx {
    pub fn new(
        prop: &'static str,
        tier: Tier,
        seed: u64,
        verif_root: PathBuf,
        known: Vec<Known>,
        replay: Option<ReplayReq>,
    ) -> Self {
        Ctx {
            prop,
            tier,
            seed,
            verif_root,
            known,
            replay,
            acc: Mutex::new(Acc::default()),
            start: Instant::now(),
            stop_all: AtomicBool::new(false),
            rule: Mutex::new(String::new()),
            assumptions: Mutex::new(Vec::new()),
            level: Mutex::new("exploration"),
        }
    }

    pub fn is_replay(&self) -> bool {
        self.replay.is_some()
    }

    pub fn set_rule(&self, s: &str) {
        *self.rule.lock().unwrap() = s.to_string();
    }
    pub fn assume(&self, s: &str) {
        self.assumptions.lock().unwrap().push(s.to_string());
    }
    pub fn note(&self, key: &str, v: Value) {
        self.acc.lock().unwrap().notes.insert(key.to_string(), v);
    }

    fn is_known(&self, sig: &str) -> Option<&Known> {
        self.known
            .iter()
            .find(|k| k.property == self.prop && k.signature == sig)
    }

    fn run_one<F>(&self, f: &F, tape: &[u8], want_desc: bool) -> (Rec, Option<String>)
    where
        F: Fn(&mut Tape, &mut Rec) -> CaseResult + Sync,
    {
        let mut rec = Rec::new(want_desc, self.replay.is_some());
        let mut t = Tape::new(tape);
        LAST_PANIC.with(|p| *p.borrow_mut() = None);
        let r = catch_unwind(AssertUnwindSafe(|| f(&mut t, &mut rec)));
        let mut harness_panic = None;
        match r {
            Ok(Ok(())) => {}
            Ok(Err(fl)) => rec.fails.insert(0, fl),
            Err(_) => {
                let (file, line, msg) = LAST_PANIC
                    .with(|p| p.borrow_mut().take())
                    .unwrap_or(("?".into(), 0, "?".into()));
                if file.contains("verif/harness/") || file.starts_with("hsrc/") {
                    harness_panic = Some(format!("{}:{}: {}", file, line, msg));
                } else {
                    rec.fails.insert(
                        0,
                        Fail {
                            sig: format!("{}:{}", self.prop, panic_sig(&file, &msg)),
                            detail: format!("panic at {}:{}: {}", file, line, msg),
                        },
                    );
                }
            }
        }
        (rec, harness_panic)
    }

    /// Run a group of cases. `f` must be a pure function of the tape.
    pub fn group<F>(&self, name: &str, source: Source, f: F)
    where
        F: Fn(&mut Tape, &mut Rec) -> CaseResult + Sync,
    {
        if self.stop_all.load(Ordering::Relaxed) {
            return;
        }
        if let Some(rp) = &self.replay {
            if rp.group != name {
                return;
            }
            let (rec, hp) = self.run_one(&f, &rp.tape, true);
            println!("REPLAY group={} tape={}", name, hex::encode(&rp.tape));
            if let Some(d) = &rec.desc {
                println!("  case: {}", d);
            }
            if let Some(hp) = hp {
                println!("  HARNESS-PANIC {}", hp);
                self.acc.lock().unwrap().harness_bugs.push(hp);
            }
            let mut acc = self.acc.lock().unwrap();
            let g = acc.groups.entry(name.to_string()).or_default();
            g.evaluations += 1;
            if rec.fails.is_empty() {
                println!("  outcome: pass");
            }
            for fl in &rec.fails {
                println!("  outcome: FAIL {} — {}", fl.sig, fl.detail);
                if let Some(k) = self.is_known(&fl.sig) {
                    let e = acc
                        .known_hit
                        .entry(fl.sig.clone())
                        .or_insert((k.what_fails.clone(), 0));
                    e.1 += 1;
                } else {
                    acc.violations
                        .push((fl.sig.clone(), String::from("<replayed>"), fl.detail.clone()));
                }
            }
            return;
        }

        let (n, tape_len, indexed) = match source {
            Source::Random { n, tape_len } => (n, tape_len, false),
            Source::Indexed { count } => (count, 8, true),
        };
        {
            let mut acc = self.acc.lock().unwrap();
            if !acc.order.iter().any(|x| x == name) {
                acc.order.push(name.to_string());
            }
            let g = acc.groups.entry(name.to_string()).or_default();
            g.exhaustive = indexed;
        }
        let make_tape = |idx: u64| -> Vec<u8> {
            if indexed {
                idx.to_le_bytes().to_vec()
            } else {
                let mut rng = ChaCha8Rng::from_seed(mix(self.seed, self.prop, name, idx));
                let mut t = vec![0u8; tape_len];
                rng.fill_bytes(&mut t);
                t
            }
        };
        let threads = rayon::current_num_threads() as u64;
        let chunk: u64 = (n / 16).clamp(threads * 4, 4096).max(1);
        let mut done = 0u64;
        let mut first_fail: BTreeMap<String, (u64, Fail)> = BTreeMap::new();
        while done < n {
            let end = (done + chunk).min(n);
            let outs: Vec<CaseOut> = (done..end)
                .into_par_iter()
                .map(|idx| {
                    let tape = make_tape(idx);
                    let want = idx < 2 || idx == n / 2 || idx == n - 1;
                    let (rec, hp) = self.run_one(&f, &tape, want);
                    CaseOut {
                        idx,
                        rec,
                        harness_panic: hp,
                    }
                })
                .collect();
            let mut acc = self.acc.lock().unwrap();
            for o in outs {
                if let Some(hp) = o.harness_panic {
                    if acc.harness_bugs.len() < 5 {
                        acc.harness_bugs.push(format!("group {} idx {}: {}", name, o.idx, hp));
                    }
                }
                let rec = o.rec;
                for l in &rec.labels {
                    *acc.classes.entry(l.clone()).or_insert(0) += 1;
                }
                let mut nt = 0;
                if !rec.discard {
                    if let Some(k) = rec.key {
                        let mut h = std::collections::hash_map::DefaultHasher::new();
                        name.hash(&mut h);
                        k.hash(&mut h);
                        if acc.keys.insert(h.finish()) {
                            nt += 1;
                        }
                        for k in &rec.keys_extra {
                            let mut h = std::collections::hash_map::DefaultHasher::new();
                            name.hash(&mut h);
                            k.hash(&mut h);
                            if acc.keys.insert(h.finish()) {
                                nt += 1;
                            }
                        }
                    }
                }
                let mut known_n = 0;
                for fl in &rec.fails {
                    if let Some(k) = self.is_known(&fl.sig) {
                        known_n += 1;
                        let e = acc
                            .known_hit
                            .entry(fl.sig.clone())
                            .or_insert((k.what_fails.clone(), 0));
                        e.1 += 1;
                    } else {
                        first_fail
                            .entry(fl.sig.clone())
                            .or_insert((o.idx, fl.clone()));
                    }
                }
                let g = acc.groups.get_mut(name).unwrap();
                g.evaluations += 1 + rec.sub_evals;
                g.nontrivial += nt;
                if rec.discard {
                    g.discarded += 1;
                }
                g.excluded_known += known_n;
                if let Some(d) = rec.desc {
                    if g.samples.len() < 4 {
                        g.samples.push(d);
                    }
                }
            }
            let bugs = !acc.harness_bugs.is_empty();
            drop(acc);
            done = end;
            if !first_fail.is_empty() || bugs {
                break;
            }
        }
        // report (at most 3 distinct signatures per group), shrunk
        for (sig, (idx, fl)) in first_fail.into_iter().take(3) {
            let tape = make_tape(idx);
            let (tape, detail, desc) = if indexed {
                let (rec, _) = self.run_one(&f, &tape, true);
                (tape, fl.detail.clone(), rec.desc)
            } else {
                self.shrink(&f, tape, &sig, fl.detail.clone())
            };
            let path = self.write_replay(name, &sig, idx, &tape, &detail, desc.as_deref());
            println!("VIOLATION property={} replay={}", self.prop, path);
            println!("  signature: {}", sig);
            println!("  detail: {}", detail);
            if let Some(d) = &desc {
                println!("  case: {}", d);
            }
            self.acc.lock().unwrap().violations.push((sig, path, detail));
        }
    }

    fn fails_with<F>(&self, f: &F, tape: &[u8], sig: &str) -> Option<(String, Option<String>)>
    where
        F: Fn(&mut Tape, &mut Rec) -> CaseResult + Sync,
    {
        let (rec, hp) = self.run_one(f, tape, true);
        if hp.is_some() {
            return None;
        }
        rec.fails
            .iter()
            .find(|x| x.sig == sig)
            .map(|x| (x.detail.clone(), rec.desc.clone()))
    }

    /// Deterministic, bounded tape minimiser; every accepted step must fail with the same signature.
    fn shrink<F>(
        &self,
        f: &F,
        mut tape: Vec<u8>,
        sig: &str,
        mut detail: String,
    ) -> (Vec<u8>, String, Option<String>)
    where
        F: Fn(&mut Tape, &mut Rec) -> CaseResult + Sync,
    {
        let mut budget: i64 = 1500;
        let mut desc = None;
        let try_tape = |cand: &[u8], budget: &mut i64| -> Option<(String, Option<String>)> {
            if *budget <= 0 {
                return None;
            }
            *budget -= 1;
            self.fails_with(f, cand, sig)
        };
        if let Some((d, ds)) = try_tape(&tape, &mut budget) {
            detail = d;
            desc = ds;
        }
        let mut improved = true;
        while improved && budget > 0 {
            improved = false;
            // truncate
            let mut len = tape.len();
            while len > 0 {
                let cand = &tape[..len / 2];
                if let Some((d, ds)) = try_tape(cand, &mut budget) {
                    tape.truncate(len / 2);
                    len = tape.len();
                    detail = d;
                    desc = ds;
                    improved = true;
                } else {
                    break;
                }
            }
            // strip trailing zeros (free: reading past the end yields zeros)
            while tape.last() == Some(&0) {
                tape.pop();
            }
            // delete blocks
            for bs in [16usize, 8, 4, 2, 1] {
                let mut pos = 0;
                while pos + bs <= tape.len() && budget > 0 {
                    let mut cand = tape.clone();
                    cand.drain(pos..pos + bs);
                    if let Some((d, ds)) = try_tape(&cand, &mut budget) {
                        tape = cand;
                        detail = d;
                        desc = ds;
                        improved = true;
                    } else {
                        pos += bs;
                    }
                }
            }
            // lower bytes
            for i in 0..tape.len() {
                if budget <= 0 {
                    break;
                }
                if tape[i] == 0 {
                    continue;
                }
                for cand_v in [0u8, tape[i] / 2, tape[i] - 1] {
                    if cand_v >= tape[i] {
                        continue;
                    }
                    let mut cand = tape.clone();
                    cand[i] = cand_v;
                    if let Some((d, ds)) = try_tape(&cand, &mut budget) {
                        tape = cand;
                        detail = d;
                        desc = ds;
                        improved = true;
                        break;
                    }
                }
            }
        }
        (tape, detail, desc)
    }

    fn write_replay(
        &self,
        group: &str,
        sig: &str,
        idx: u64,
        tape: &[u8],
        detail: &str,
        desc: Option<&str>,
    ) -> String {
        let dir = self.verif_root.join("replays").join(self.prop);
        let _ = std::fs::create_dir_all(&dir);
        let clean: String = sig
            .chars()
            .map(|c| if c.is_ascii_alphanumeric() || c == '-' { c } else { '_' })
            .take(80)
            .collect();
        let path = dir.join(format!("{}-{}-seed{}.json", group, clean, self.seed));
        let v = json!({
            "property": self.prop,
            "group": group,
            "tier": self.tier.name(),
            "seed": self.seed,
            "case_index": idx,
            "tape_hex": hex::encode(tape),
            "signature": sig,
            "detail": detail,
            "decoded_case": desc,
        });
        let _ = std::fs::write(&path, serde_json::to_string_pretty(&v).unwrap());
        path.to_string_lossy().to_string()
    }

    /// Finish: print known findings, write evidence, return the exit code.
    pub fn finish(&self) -> i32 {
        let acc = self.acc.lock().unwrap();
        for (sig, (what, n)) in &acc.known_hit {
            println!(
                "KNOWN-FINDING: property={} {} [signature {}; {} case(s) this run]",
                self.prop, what, sig, n
            );
        }
        let wall = self.start.elapsed().as_secs_f64();
        let mut evaluations = 0u64;
        let mut discarded = 0u64;
        let mut excluded = 0u64;
        let mut groups = serde_json::Map::new();
        let mut samples: Vec<Value> = Vec::new();
        let mut all_exh = !acc.groups.is_empty();
        for name in &acc.order {
            let g = &acc.groups[name];
            evaluations += g.evaluations;
            discarded += g.discarded;
            excluded += g.excluded_known;
            all_exh &= g.exhaustive;
            groups.insert(
                name.clone(),
                json!({"evaluations": g.evaluations, "distinct_nontrivial": g.nontrivial,
                       "discarded": g.discarded, "excluded_known": g.excluded_known,
                       "enumerated_exhaustively": g.exhaustive}),
            );
            for s in g.samples.iter().take(3) {
                samples.push(json!({"group": name, "case": s}));
            }
        }
        let mut coverage = serde_json::Map::new();
        coverage.insert("evaluations".into(), json!(evaluations));
        coverage.insert("distinct_nontrivial".into(), json!(acc.keys.len()));
        coverage.insert("rule".into(), json!(*self.rule.lock().unwrap()));
        coverage.insert("samples".into(), Value::Array(samples));
        coverage.insert("groups".into(), Value::Object(groups));
        coverage.insert("classes".into(), json!(acc.classes));
        coverage.insert("discarded".into(), json!(discarded));
        coverage.insert("excluded_known".into(), json!(excluded));
        coverage.insert("exhaustive".into(), json!(all_exh));
        coverage.insert(
            "known_findings_hit".into(),
            json!(acc.known_hit.keys().collect::<Vec<_>>()),
        );
        for (k, v) in &acc.notes {
            coverage.insert(k.clone(), v.clone());
        }
        let ev = json!({
            "property_id": self.prop,
            "tier": self.tier.name(),
            "seed": self.seed,
            "level": *self.level.lock().unwrap(),
            "coverage": Value::Object(coverage),
            "assumptions": *self.assumptions.lock().unwrap(),
            "wall_s": (wall * 100.0).round() / 100.0,
            "violations": acc.violations.len(),
            "violation_signatures": acc.violations.iter().map(|v| v.0.clone()).collect::<Vec<_>>(),
        });
        if self.replay.is_none() {
            let dir = self.verif_root.join("evidence");
            let _ = std::fs::create_dir_all(&dir);
            let p = dir.join(format!("{}.json", self.prop));
            if let Err(e) = std::fs::write(&p, serde_json::to_string_pretty(&ev).unwrap()) {
                eprintln!("cannot write evidence {}: {}", p.display(), e);
                return 2;
            }
        }
        println!(
            "{} {} seed={} evaluations={} distinct_nontrivial={} excluded_known={} violations={} wall={:.1}s",
            self.prop,
            self.tier.name(),
            self.seed,
            evaluations,
            acc.keys.len(),
            excluded,
            acc.violations.len(),
            wall
        );
        if !acc.harness_bugs.is_empty() {
            for b in &acc.harness_bugs {
                eprintln!("HARNESS-BUG (inconclusive, not a violation): {}", b);
            }
            return 2;
        }
        if !acc.violations.is_empty() {
            1
        } else {
            0
        }
    }
}
