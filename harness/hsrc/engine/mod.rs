pub mod alloc;
pub mod run;
pub mod tape;

pub use run::{fail, fuzz_case, FuzzVerdict, CaseResult, Ctx, Fail, Known, Rec, ReplayReq, Source, Tier};
pub use tape::{expand, Tape};

use std::path::Path;

/// Load /verif/known_findings.json (committed; never written at run time).
pub fn load_known(root: &Path) -> Vec<Known> {
    let p = root.join("known_findings.json");
    let Ok(s) = std::fs::read_to_string(&p) else {
        return vec![];
    };
    let v: serde_json::Value = match serde_json::from_str(&s) {
        Ok(v) => v,
        Err(e) => {
            eprintln!("known_findings.json does not parse: {e}");
            std::process::exit(2);
        }
    };
    let mut out = vec![];
    if let Some(arr) = v.get("known").and_then(|x| x.as_array()) {
        for k in arr {
            out.push(Known {
                property: k["property"].as_str().unwrap_or("").to_string(),
                signature: k["signature"].as_str().unwrap_or("").to_string(),
                what_fails: k["what_fails"].as_str().unwrap_or("").to_string(),
            });
        }
    }
    out
}
