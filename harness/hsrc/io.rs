//! Harness-owned I/O: sources that deliver data in chosen piece sizes and fail at a chosen call,
//! sinks that accept chosen prefixes and fail at a chosen call, and consumer drivers.

use std::io::{self, BufRead, Read, Write};
use std::sync::atomic::{AtomicBool, AtomicU64, Ordering};
use std::sync::Arc;

use crate::engine::Tape;

#[derive(Clone, Debug)]
pub struct Sched {
    /// piece sizes, cycled; every entry >= 1
    pub pieces: Vec<usize>,
}

impl Sched {
    pub fn whole() -> Self {
        Sched { pieces: vec![usize::MAX] }
    }
    pub fn fixed(k: usize) -> Self {
        Sched { pieces: vec![k.max(1)] }
    }
    pub fn list(v: Vec<usize>) -> Self {
        let mut v: Vec<usize> = v.into_iter().map(|x| x.max(1)).collect();
        if v.is_empty() {
            v.push(usize::MAX);
        }
        Sched { pieces: v }
    }
    /// The composition of n with the given bit mask (bit i set = cut after byte i+1); then whole.
    pub fn composition(n: usize, mask: u64) -> Self {
        let mut v = vec![];
        let mut cur = 0;
        for i in 0..n {
            cur += 1;
            if i + 1 < n && (mask >> i) & 1 == 1 {
                v.push(cur);
                cur = 0;
            }
        }
        if cur > 0 {
            v.push(cur);
        }
        v.push(usize::MAX);
        // composition schedules must not cycle: the trailing MAX piece absorbs everything else
        Sched { pieces: v }
    }
    /// Draw an adversarial schedule from the tape. `edges` are interesting offsets to straddle.
    pub fn draw(t: &mut Tape, len: usize, edges: &[usize]) -> Self {
        match t.below(8) {
            0 => Sched::whole(),
            1 => Sched::fixed(1),
            2 => Sched::fixed(*t.pick(&[2usize, 3, 7, 13])),
            3 => Sched::fixed(*t.pick(&[511usize, 512, 513, 4095, 4096, 4097, 8191, 8192, 8193])),
            4 => {
                // cut exactly at / next to an edge
                let mut v = vec![];
                let mut pos = 0usize;
                let mut es: Vec<usize> = edges.iter().copied().filter(|&e| e > 0 && e < len.max(1)).collect();
                es.sort();
                es.dedup();
                for e in es {
                    let d = t.below(3) as isize - 1;
                    let cut = (e as isize + d).max(pos as isize + 1) as usize;
                    if cut > pos {
                        v.push(cut - pos);
                        pos = cut;
                    }
                }
                v.push(usize::MAX);
                Sched { pieces: v }
            }
            5 => {
                let n = t.range(1, 12);
                Sched::list((0..n).map(|_| t.range(1, 40)).collect())
            }
            6 => {
                let n = t.range(1, 8);
                Sched::list((0..n).map(|_| *t.pick(&[1usize, 2, 63, 64, 65, 1000, 8192, 20000])).collect())
            }
            _ => Sched::list(vec![t.range(1, 9000), t.range(1, 9000), 1, t.range(1, 3)]),
        }
    }
    pub fn describe(&self) -> String {
        let v: Vec<String> = self
            .pieces
            .iter()
            .take(12)
            .map(|&p| if p == usize::MAX { "rest".to_string() } else { p.to_string() })
            .collect();
        format!("[{}{}]", v.join(","), if self.pieces.len() > 12 { ",…" } else { "" })
    }
    fn piece(&self, i: usize) -> usize {
        if self.pieces.last() == Some(&usize::MAX) && i >= self.pieces.len() {
            usize::MAX
        } else {
            self.pieces[i % self.pieces.len()]
        }
    }
}

pub fn injected() -> io::Error {
    io::Error::new(io::ErrorKind::Other, "injected fault")
}

/// A source delivering `data` according to a schedule; optionally failing (stickily) at call k
/// (0-based index over read/fill_buf calls that would have to touch the source).
/// Shared observation point for a source/sink that has been moved into the library.
#[derive(Debug, Default)]
pub struct Probe {
    pub calls: AtomicU64,
    pub failed: AtomicBool,
    pub bytes: AtomicU64,
}

impl Probe {
    pub fn new() -> Arc<Probe> {
        Arc::new(Probe::default())
    }
    pub fn calls(&self) -> u64 {
        self.calls.load(Ordering::Relaxed)
    }
    pub fn failed(&self) -> bool {
        self.failed.load(Ordering::Relaxed)
    }
}

#[derive(Debug)]
pub struct SchedRead {
    data: Vec<u8>,
    pos: usize,
    cur_end: usize,
    sched: Sched,
    piece_i: usize,
    pub calls: u64,
    pub fail_at: Option<u64>,
    pub failed: bool,
    pub handed_out: u64,
    pub probe: Option<Arc<Probe>>,
    /// true: every call after the fault fails too (broken device); false: one transient fault
    pub sticky: bool,
}

impl SchedRead {
    pub fn new(data: impl Into<Vec<u8>>, sched: Sched) -> Self {
        SchedRead {
            data: data.into(),
            pos: 0,
            cur_end: 0,
            sched,
            piece_i: 0,
            calls: 0,
            fail_at: None,
            failed: false,
            handed_out: 0,
            probe: None,
            sticky: true,
        }
    }
    pub fn failing_at(mut self, k: u64) -> Self {
        self.fail_at = Some(k);
        self
    }
    pub fn with_probe(mut self, p: Arc<Probe>) -> Self {
        self.probe = Some(p);
        self
    }
    pub fn one_shot(mut self, one_shot: bool) -> Self {
        self.sticky = !one_shot;
        self
    }
    fn next_piece(&mut self) -> io::Result<()> {
        // called when the current piece is exhausted
        if let Some(p) = &self.probe {
            p.calls.fetch_add(1, Ordering::Relaxed);
        }
        if (self.failed && self.sticky) || self.fail_at == Some(self.calls) {
            self.failed = true;
            if let Some(p) = &self.probe {
                p.failed.store(true, Ordering::Relaxed);
            }
            self.calls += 1;
            return Err(injected());
        }
        self.calls += 1;
        let p = self.sched.piece(self.piece_i);
        self.piece_i += 1;
        self.cur_end = self.pos.saturating_add(p).min(self.data.len());
        Ok(())
    }
}

impl Read for SchedRead {
    fn read(&mut self, buf: &mut [u8]) -> io::Result<usize> {
        if buf.is_empty() {
            return Ok(0);
        }
        if self.pos >= self.cur_end {
            self.next_piece()?;
        }
        let n = (self.cur_end - self.pos).min(buf.len());
        buf[..n].copy_from_slice(&self.data[self.pos..self.pos + n]);
        self.pos += n;
        self.handed_out += n as u64;
        Ok(n)
    }
}

impl BufRead for SchedRead {
    fn fill_buf(&mut self) -> io::Result<&[u8]> {
        if self.pos >= self.cur_end {
            self.next_piece()?;
        }
        Ok(&self.data[self.pos..self.cur_end])
    }
    fn consume(&mut self, amt: usize) {
        let amt = amt.min(self.cur_end - self.pos);
        self.pos += amt;
        self.handed_out += amt as u64;
    }
}

/// A sink accepting short writes per schedule, failing (stickily) at write/flush call k.
pub struct SchedWrite {
    pub data: Vec<u8>,
    sched: Sched,
    piece_i: usize,
    pub calls: u64,
    pub fail_at: Option<u64>,
    pub failed: bool,
    pub fail_flush: bool,
    pub probe: Option<Arc<Probe>>,
    pub sticky: bool,
}

impl SchedWrite {
    pub fn new(sched: Sched) -> Self {
        SchedWrite { data: vec![], sched, piece_i: 0, calls: 0, fail_at: None, failed: false, fail_flush: true, probe: None, sticky: true }
    }
    pub fn failing_at(mut self, k: u64) -> Self {
        self.fail_at = Some(k);
        self
    }
    pub fn with_probe(mut self, p: Arc<Probe>) -> Self {
        self.probe = Some(p);
        self
    }
    pub fn one_shot(mut self, one_shot: bool) -> Self {
        self.sticky = !one_shot;
        self
    }
}

impl Write for SchedWrite {
    fn write(&mut self, buf: &[u8]) -> io::Result<usize> {
        if buf.is_empty() {
            return Ok(0);
        }
        if let Some(p) = &self.probe {
            p.calls.fetch_add(1, Ordering::Relaxed);
        }
        if (self.failed && self.sticky) || self.fail_at == Some(self.calls) {
            self.failed = true;
            if let Some(p) = &self.probe {
                p.failed.store(true, Ordering::Relaxed);
            }
            self.calls += 1;
            return Err(injected());
        }
        self.calls += 1;
        let p = self.sched.piece(self.piece_i);
        self.piece_i += 1;
        let n = p.min(buf.len());
        self.data.extend_from_slice(&buf[..n]);
        Ok(n)
    }
    fn flush(&mut self) -> io::Result<()> {
        if self.failed && self.sticky {
            return Err(injected());
        }
        Ok(())
    }
}

#[derive(Clone, Copy, Debug, PartialEq, Eq, Hash)]
pub enum Consumer {
    ReadToEnd,
    Fixed(usize),
    /// alternate buffer sizes a, b
    Alt(usize, usize),
    ReadExactThenEnd(usize),
}

impl Consumer {
    pub fn draw(t: &mut Tape) -> Self {
        match t.below(6) {
            0 => Consumer::ReadToEnd,
            1 => Consumer::Fixed(1),
            2 => Consumer::Fixed(*t.pick(&[2usize, 3, 7, 64, 511, 512, 513, 4096, 8191, 8192, 8193, 65536])),
            3 => Consumer::Alt(t.range(1, 20), t.range(1, 9000)),
            4 => Consumer::ReadExactThenEnd(t.range(1, 600)),
            _ => Consumer::Fixed(t.range(1, 10000)),
        }
    }
    /// Drive `r` to EOF or first error. Returns (bytes released, terminal result).
    pub fn drive<R: Read>(self, r: &mut R) -> (Vec<u8>, io::Result<()>) {
        let mut out = Vec::new();
        match self {
            Consumer::ReadToEnd => {
                let res = r.read_to_end(&mut out).map(|_| ());
                (out, res)
            }
            Consumer::Fixed(k) => {
                let mut buf = vec![0u8; k.max(1)];
                loop {
                    match r.read(&mut buf) {
                        Ok(0) => return (out, Ok(())),
                        Ok(n) => out.extend_from_slice(&buf[..n]),
                        Err(e) if e.kind() == io::ErrorKind::Interrupted => {}
                        Err(e) => return (out, Err(e)),
                    }
                }
            }
            Consumer::Alt(a, b) => {
                let mut ba = vec![0u8; a.max(1)];
                let mut bb = vec![0u8; b.max(1)];
                let mut flip = false;
                loop {
                    let buf = if flip { &mut bb } else { &mut ba };
                    flip = !flip;
                    match r.read(buf) {
                        Ok(0) => return (out, Ok(())),
                        Ok(n) => out.extend_from_slice(&buf[..n]),
                        Err(e) if e.kind() == io::ErrorKind::Interrupted => {}
                        Err(e) => return (out, Err(e)),
                    }
                }
            }
            Consumer::ReadExactThenEnd(k) => {
                let mut buf = vec![0u8; k];
                // read_exact semantic: on UnexpectedEof the amount read is unspecified; fall back
                // to plain reads so the released bytes are well defined.
                let mut got = 0;
                while got < k {
                    match r.read(&mut buf[got..]) {
                        Ok(0) => return ({ out.extend_from_slice(&buf[..got]); out }, Ok(())),
                        Ok(n) => got += n,
                        Err(e) if e.kind() == io::ErrorKind::Interrupted => {}
                        Err(e) => return ({ out.extend_from_slice(&buf[..got]); out }, Err(e)),
                    }
                }
                out.extend_from_slice(&buf);
                let res = r.read_to_end(&mut out).map(|_| ());
                (out, res)
            }
        }
    }
    /// Drive a BufRead through fill_buf/consume with partial consumption.
    pub fn drive_bufread<R: BufRead>(r: &mut R, step: usize) -> (Vec<u8>, io::Result<()>) {
        let mut out = Vec::new();
        loop {
            let n = match r.fill_buf() {
                Ok(b) if b.is_empty() => return (out, Ok(())),
                Ok(b) => {
                    let n = b.len().min(step.max(1));
                    out.extend_from_slice(&b[..n]);
                    n
                }
                Err(e) if e.kind() == io::ErrorKind::Interrupted => 0,
                Err(e) => return (out, Err(e)),
            };
            r.consume(n);
        }
    }
}
