//! Deterministic key zoo: keys generated through rPGP's own builder from fixed seeds, cached per
//! process. The harness holds the secret halves, so it can produce cryptographically valid
//! artifacts and decrypt library output.

use std::sync::OnceLock;

use pgp::composed::{
    EncryptionCaps, KeyType, SecretKeyParamsBuilder, SignedPublicKey, SignedSecretKey,
    SubkeyParamsBuilder,
};
use pgp::crypto::ecc_curve::ECCCurve;
use pgp::crypto::hash::HashAlgorithm;
use pgp::types::{KeyVersion, Password, Timestamp};
use rand::SeedableRng;
use rand_chacha::ChaCha8Rng;

#[derive(Clone, Copy, Debug, PartialEq, Eq, Hash)]
pub enum Kind {
    EdLegacyV4,
    Ed25519V4,
    Ed25519V6,
    Ed448V4,
    Ed448V6,
    P256V4,
    P384V4,
    P521V4,
    K256V4,
    RsaV4,
    RsaV6,
    DsaV4,
    // decoys (same algorithms, other seeds)
    Ed25519V4B,
    Ed25519V6B,
    EdLegacyV4B,
    RsaV4B,
    P256V4B,
}

pub const ALL: &[Kind] = &[
    Kind::EdLegacyV4,
    Kind::Ed25519V4,
    Kind::Ed25519V6,
    Kind::Ed448V4,
    Kind::Ed448V6,
    Kind::P256V4,
    Kind::P384V4,
    Kind::P521V4,
    Kind::K256V4,
    Kind::RsaV4,
    Kind::RsaV6,
    Kind::DsaV4,
    Kind::Ed25519V4B,
    Kind::Ed25519V6B,
    Kind::EdLegacyV4B,
    Kind::RsaV4B,
    Kind::P256V4B,
];

/// cheap signing kinds (bulk use)
pub const CHEAP_SIGNERS: &[Kind] = &[Kind::Ed25519V4, Kind::Ed25519V6, Kind::EdLegacyV4, Kind::P256V4];
pub const ALL_SIGNERS: &[Kind] = &[
    Kind::EdLegacyV4,
    Kind::Ed25519V4,
    Kind::Ed25519V6,
    Kind::Ed448V4,
    Kind::Ed448V6,
    Kind::P256V4,
    Kind::P384V4,
    Kind::P521V4,
    Kind::K256V4,
    Kind::RsaV4,
    Kind::RsaV6,
    Kind::DsaV4,
];
/// kinds with an encryption subkey
pub const CHEAP_RECIPIENTS: &[Kind] = &[Kind::Ed25519V4, Kind::Ed25519V6, Kind::EdLegacyV4, Kind::P256V4];
pub const ALL_RECIPIENTS: &[Kind] = &[
    Kind::EdLegacyV4,
    Kind::Ed25519V4,
    Kind::Ed25519V6,
    Kind::Ed448V4,
    Kind::Ed448V6,
    Kind::P256V4,
    Kind::P384V4,
    Kind::P521V4,
    Kind::RsaV4,
    Kind::RsaV6,
];

pub struct ZKey {
    pub kind: Kind,
    pub version: KeyVersion,
    pub secret: SignedSecretKey,
    pub public: SignedPublicKey,
    /// the same key with primary and subkeys locked under `pw`
    pub locked: SignedSecretKey,
    /// primary key unprotected, subkeys locked with `pw`
    pub sub_locked: SignedSecretKey,
    /// primary key locked with `pw`, subkeys unprotected
    pub prim_locked: SignedSecretKey,
    /// the certificate with a second, properly bound encryption subkey *in front of* the usual one
    /// (cheap algorithms only); the usual subkey is then `secret_subkeys[1]`
    pub two_subkeys: Option<SignedSecretKey>,
    pub pw: Password,
}

pub const LOCK_PW: &str = "zoo-pässword";
pub const CREATED: u32 = 1_700_000_000;

impl Kind {
    pub fn version(self) -> KeyVersion {
        match self {
            Kind::Ed25519V6 | Kind::Ed448V6 | Kind::RsaV6 | Kind::Ed25519V6B => KeyVersion::V6,
            _ => KeyVersion::V4,
        }
    }
    pub fn is_v6(self) -> bool {
        self.version() == KeyVersion::V6
    }
    fn shape(self) -> (KeyType, Option<KeyType>, u64) {
        match self {
            Kind::EdLegacyV4 => (KeyType::Ed25519Legacy, Some(KeyType::ECDH(ECCCurve::Curve25519Legacy)), 11),
            Kind::EdLegacyV4B => (KeyType::Ed25519Legacy, Some(KeyType::ECDH(ECCCurve::Curve25519Legacy)), 111),
            Kind::Ed25519V4 => (KeyType::Ed25519, Some(KeyType::X25519), 12),
            Kind::Ed25519V4B => (KeyType::Ed25519, Some(KeyType::X25519), 112),
            Kind::Ed25519V6 => (KeyType::Ed25519, Some(KeyType::X25519), 13),
            Kind::Ed25519V6B => (KeyType::Ed25519, Some(KeyType::X25519), 113),
            Kind::Ed448V4 => (KeyType::Ed448, Some(KeyType::X448), 14),
            Kind::Ed448V6 => (KeyType::Ed448, Some(KeyType::X448), 15),
            Kind::P256V4 => (KeyType::ECDSA(ECCCurve::P256), Some(KeyType::ECDH(ECCCurve::P256)), 16),
            Kind::P256V4B => (KeyType::ECDSA(ECCCurve::P256), Some(KeyType::ECDH(ECCCurve::P256)), 116),
            Kind::P384V4 => (KeyType::ECDSA(ECCCurve::P384), Some(KeyType::ECDH(ECCCurve::P384)), 17),
            Kind::P521V4 => (KeyType::ECDSA(ECCCurve::P521), Some(KeyType::ECDH(ECCCurve::P521)), 18),
            Kind::K256V4 => (KeyType::ECDSA(ECCCurve::Secp256k1), None, 19),
            Kind::RsaV4 => (KeyType::Rsa(2048), Some(KeyType::Rsa(2048)), 20),
            Kind::RsaV4B => (KeyType::Rsa(2048), Some(KeyType::Rsa(2048)), 120),
            Kind::RsaV6 => (KeyType::Rsa(2048), Some(KeyType::Rsa(2048)), 21),
            Kind::DsaV4 => (KeyType::Dsa(pgp::composed::DsaKeySize::B2048), None, 22),
        }
    }
    /// hash algorithms rPGP documents as strong enough for signing with this key
    pub fn hashes(self) -> &'static [HashAlgorithm] {
        use HashAlgorithm::*;
        match self {
            Kind::Ed448V4 | Kind::Ed448V6 | Kind::P521V4 => &[Sha512, Sha3_512],
            Kind::P384V4 => &[Sha384, Sha512, Sha3_512],
            Kind::RsaV4 | Kind::RsaV6 | Kind::RsaV4B => &[Sha224, Sha256, Sha384, Sha512, Sha3_256, Sha3_512],
            _ => &[Sha256, Sha384, Sha512, Sha3_256, Sha3_512],
        }
    }
    pub fn has_enc_subkey(self) -> bool {
        self.shape().1.is_some()
    }
    fn index(self) -> usize {
        ALL.iter().position(|k| *k == self).unwrap()
    }
}

fn generate(kind: Kind) -> ZKey {
    let (prim, sub, seed) = kind.shape();
    let version = kind.version();
    let mut rng = ChaCha8Rng::seed_from_u64(0x5EED_0000 + seed);
    let mut b = SecretKeyParamsBuilder::default();
    b.version(version)
        .key_type(prim)
        .can_certify(true)
        .can_sign(true)
        .created_at(Timestamp::from_secs(CREATED))
        .feature_seipd_v2(version == KeyVersion::V6)
        .primary_user_id(format!("Zoo {:?} <{:?}@zoo.example>", kind, kind));
    if let Some(sub) = sub {
        b.subkey(
            SubkeyParamsBuilder::default()
                .version(version)
                .key_type(sub)
                .can_encrypt(EncryptionCaps::All)
                .created_at(Timestamp::from_secs(CREATED))
                .build()
                .expect("zoo subkey params"),
        );
    }
    let params = b.build().expect("zoo key params");
    let secret = params.generate(&mut rng).expect("zoo key generation");
    let public = secret.to_public_key();
    let pw: Password = LOCK_PW.into();
    let mut locked = secret.clone();
    locked
        .primary_key
        .set_password(&mut rng, &pw)
        .expect("zoo lock primary");
    for sk in locked.secret_subkeys.iter_mut() {
        sk.key.set_password(&mut rng, &pw).expect("zoo lock subkey");
    }
    let mut sub_locked = secret.clone();
    sub_locked.secret_subkeys = locked.secret_subkeys.clone();
    let mut prim_locked = secret.clone();
    prim_locked.primary_key = locked.primary_key.clone();
    let two_subkeys = match kind.shape().1 {
        Some(sub_type) if !matches!(sub_type, KeyType::Rsa(_)) => {
            let mut rng2 = ChaCha8Rng::seed_from_u64(0x5EED_5000 + seed);
            let mut b2 = SecretKeyParamsBuilder::default();
            b2.version(version)
                .key_type(KeyType::Ed25519)
                .can_certify(true)
                .created_at(Timestamp::from_secs(CREATED))
                .primary_user_id("extra".into())
                .subkey(SubkeyParamsBuilder::default().version(version).key_type(sub_type).can_encrypt(EncryptionCaps::All).created_at(Timestamp::from_secs(CREATED + 1)).build().expect("extra subkey params"));
            let extra = b2.build().expect("extra key params").generate(&mut rng2).expect("extra key generation");
            let extra_sub = extra.secret_subkeys[0].key.clone();
            let mut flags = pgp::packet::KeyFlags::default();
            flags.set_encrypt_comms(true);
            flags.set_encrypt_storage(true);
            let sig = extra_sub.sign(&mut rng2, &secret.primary_key, &secret.primary_key.public_key(), &Password::empty(), flags, None).expect("bind extra subkey");
            let mut two = secret.clone();
            two.secret_subkeys.insert(0, pgp::composed::SignedSecretSubKey::new(extra_sub, vec![sig]));
            Some(two)
        }
        _ => None,
    };
    ZKey { kind, version, secret, public, locked, sub_locked, prim_locked, two_subkeys, pw }
}

static ZOO: OnceLock<Vec<OnceLock<ZKey>>> = OnceLock::new();

pub fn get(kind: Kind) -> &'static ZKey {
    let v = ZOO.get_or_init(|| (0..ALL.len()).map(|_| OnceLock::new()).collect());
    v[kind.index()].get_or_init(|| generate(kind))
}

/// Pre-generate a set of keys in parallel (RSA/DSA generation is slow).
pub fn warm(kinds: &[Kind]) {
    use rayon::prelude::*;
    kinds.par_iter().for_each(|k| {
        get(*k);
    });
}

pub fn decoy_for(kind: Kind) -> Kind {
    match kind {
        Kind::Ed25519V4 => Kind::Ed25519V4B,
        Kind::Ed25519V6 => Kind::Ed25519V6B,
        Kind::EdLegacyV4 => Kind::EdLegacyV4B,
        Kind::RsaV4 => Kind::RsaV4B,
        Kind::P256V4 => Kind::P256V4B,
        Kind::Ed25519V4B => Kind::Ed25519V4,
        Kind::Ed25519V6B => Kind::Ed25519V6,
        k if k.is_v6() => Kind::Ed25519V6B,
        _ => Kind::Ed25519V4B,
    }
}
