use std::path::PathBuf;

use rpgp_verif::engine::{self, run, Ctx, ReplayReq, Tier};

#[global_allocator]
static GLOBAL: rpgp_verif::engine::alloc::Counting = rpgp_verif::engine::alloc::Counting;

fn usage() -> ! {
    eprintln!("usage: vcheck <C01..C19> quick|thorough | vcheck <ID> replay <file> | vcheck <ID> groups");
    std::process::exit(2)
}

fn main() {
    let args: Vec<String> = std::env::args().collect();
    if args.len() < 3 {
        usage();
    }
    let root = PathBuf::from(std::env::var("VERIF_ROOT").unwrap_or_else(|_| "/verif".into()));
    let id = args[1].to_uppercase();
    let Some((prop, runner)) = rpgp_verif::props::lookup(&id) else {
        eprintln!("unknown property {id}");
        std::process::exit(2)
    };
    let mut seed: u64 = std::env::var("VERIF_SEED")
        .ok()
        .and_then(|s| s.trim().parse::<i128>().ok())
        .map(|v| v as u64)
        .unwrap_or(1);
    let (tier, replay) = match args[2].as_str() {
        "quick" => (Tier::Quick, None),
        "thorough" => (Tier::Thorough, None),
        "replay" => {
            let f = args.get(3).unwrap_or_else(|| usage());
            let s = std::fs::read_to_string(f).unwrap_or_else(|e| {
                eprintln!("cannot read {f}: {e}");
                std::process::exit(2)
            });
            let v: serde_json::Value = serde_json::from_str(&s).unwrap_or_else(|e| {
                eprintln!("cannot parse {f}: {e}");
                std::process::exit(2)
            });
            let tier = if v["tier"].as_str() == Some("thorough") { Tier::Thorough } else { Tier::Quick };
            seed = v["seed"].as_u64().unwrap_or(seed);
            let tape = hex::decode(v["tape_hex"].as_str().unwrap_or("")).unwrap_or_default();
            (
                tier,
                Some(ReplayReq { group: v["group"].as_str().unwrap_or("").to_string(), tape }),
            )
        }
        "groups" => (Tier::Thorough, None),
        "worker" => {
            let tier = if args.get(3).map(|s| s.as_str()) == Some("thorough") { Tier::Thorough } else { Tier::Quick };
            (tier, None)
        }
        _ => usage(),
    };
    let worker = if args[2] == "worker" {
        Some(rpgp_verif::engine::run::WorkerReq { group: args[4].clone(), start: args[5].parse().unwrap_or(0), end: args[6].parse().unwrap_or(0) })
    } else {
        None
    };
    if let Ok(t) = std::env::var("VERIF_THREADS") {
        if let Ok(n) = t.parse::<usize>() {
            rayon::ThreadPoolBuilder::new().num_threads(n).stack_size(8 << 20).build_global().ok();
        }
    } else {
        rayon::ThreadPoolBuilder::new().stack_size(8 << 20).build_global().ok();
    }
    run::install_panic_hook();
    if args[2] != "worker" {
        run::start_stall_watchdog();
    }
    let known = engine::load_known(&root);
    let mut ctx = Ctx::new(prop, tier, seed, root, known, replay);
    ctx.worker = worker;
    if args[2] == "groups" {
        // list the groups of this property (used by tools/fuzz_slice.sh)
        ctx.list_groups = true;
        runner(&ctx);
        std::process::exit(0);
    }
    runner(&ctx);
    if ctx.worker.is_some() {
        // the worker's group was not reached (should not happen)
        std::process::exit(3);
    }
    std::process::exit(ctx.finish());
}
