#!/usr/bin/env python3
"""Regenerates /verif/MANIFEST.json from the table below (kept here so the manifest stays valid)."""
import json, os, sys
ROOT = os.path.dirname(os.path.dirname(os.path.abspath(__file__)))

# property id -> (design_ref, technique, level text, level note)
CHECKS = {
 "C01": ("DESIGN.md §4 C01",
         "generated-input search: seeded tape-decoded (payload, builder configuration) rows with boundary-biased lengths; round-trip oracle through rPGP's reader under generated source/consumer schedules plus an independent de-framer + flate2/bzip2 decoder on unencrypted output; decoy-key negative control",
         "exploration: ~15k (thorough ~275k) builder configurations x boundary lengths (k*{512,1024,8192,partial chunk,AEAD chunk,2*(AEAD+16)} -37..+3) covering every source kind, compression, 0..3 signers over all zoo algorithms, SEIPDv1 x 11 ciphers, SEIPDv2 x 9 AEAD/cipher pairs x 17 chunk sizes, password/public-key/anonymous ESKs, armor; each opened by session key, each password or each recipient (locked/unlocked)",
         "cannot show absence; lengths above 3 MiB (20 MiB in the very-large group) and 1 MiB+ AEAD chunks are only sampled; SEIPDv1 multi-password false-accept is a recorded finding"),
 "C02": ("DESIGN.md §4 C02",
         "generated-input search over (signed artifact, single perturbation): artifacts made with rPGP's signing APIs, perturbations at content level, at signature-packet field level (located by an own field-layout decoder) and at verifying-key level; oracle: positive control, then every applicable verification entry point must return Err unless the artifact was rejected by the parser or is semantically identical",
         "exploration: ~27k (thorough ~500k) cases over detached/one-pass/config data signatures (binary and text, lengths incl. 512k-1..512k+2), cleartext documents, certifications/bindings/direct-key/revocation signatures and whole zoo certificates (public and secret) x 12 signer algorithms; one-pass messages as the builder emits them with a perturbed trailing signature / one-pass header field / literal content; text signatures at lengths 512k-2..512k+1 under every small line-ending edit (enumerated); perturbation classes: bit flip, truncation, extension, swap, insertion, line-ending sensitive edits, other uid/subkey/signee key, type/pk-alg/hash-alg, any bit of hashed area/salt/signature value, hashed length, decoy key / same material with other creation time / other key version",
         "unhashed area, left-16 and (r, n-s) malleability are not part of the property; same key material under another identity is only required to fail where the interface matches the issuer"),
 "C03": ("DESIGN.md §4 C03",
         "generated-input search + exhaustive small-scope enumeration of tampering: mutation of rPGP-built SEIPD containers (re-framed by an independent framer), oracle = stream must end in an error, zero bytes released in default SEIPDv1 mode, released bytes a prefix of the true plaintext for SEIPDv2; positive control on the unmodified container",
         "exploration; exhaustive over every single-bit flip and truncation offset of ~35 (thorough ~65) small messages (quick: every third byte position), sampled over bit flips, truncations, appends, AEAD chunk drop/dup/swap/rotate/truncation-attack/tag surgery, CFB block surgery, all header fields x all 256 values, x consumer patterns x SEIPDv1 read modes x opener (session key, password, recipient); enumerated: SEIPDv2 x 3 AEAD modes x chunk 64/128 x packet stream lengths k*chunk-1..k*chunk+1 x 20 manipulations behind the last genuine chunk x 4 consumers",
         "assumes primitive forgery probabilities are unreachable; junk appended after an intact fixed-length container is only required not to yield wrong plaintext"),
 "C04": ("DESIGN.md §4 C04",
         "generated-input search with a crash oracle in isolated worker processes (2 MiB stacks, counting allocator, per-case watchdog): structure-aware hostile artifacts built by the independent reference so that they pass the cryptographic layer - PKESK v3/v6 to RSA, ECDH, X25519 and X448 recipients whose decrypted octets are enumerated, SEIPDv1/SEIPDv2/GnuPG-OCB containers valid under a known session key around hostile inner streams, SKESK/S2K/secret-key parameter octets - plus mutated fixtures and generated packet streams; oracle: every entry point returns, failures = panic (site), abort, stack overflow, failed allocation attributed to the case and last checkpoint",
         "exploration; exhaustively enumerated: recipient kind (6) x PKESK version x first decrypted octet 0..255 x length class (quick 6 classes, thorough every length 0..40) each followed by SEIPDv1, GnuPG-OCB and SED containers; sampled: ~10k (thorough 300k) hostile containers (nests to depth 4000, 10^4 markers, thousands of prefixed signatures, truncations, bad partial and indeterminate lengths, SEIPDv2 header fields over all values), 3k (200k) hostile parameter sets (SKESK v4/v5/v6, S2K specifiers, secret-key protection fields, embedded signatures nested to 20000, damaged locked certificates), 20k (600k) mutated fixtures, 10k (300k) generated packet streams, each through PacketParser, Message open/decrypt (3 option sets)/decompress/read/verify/drop, key and signature import + verify_bindings + serialize + unlock, cleartext, dearmor, Any",
         "a worker that makes no progress for 120 s is reported as inconclusive (exit 2), not as a violation; behaviour of accessors called on a message after its reader returned an error is not asserted; cannot show absence"),
 "C05": ("DESIGN.md §4 C05",
         "generated-input search with a differential/round-trip oracle: packet bodies generated field by field by an independent RFC 9580 encoder (every one-octet id from the listed values or 0..255, all length classes, canonical MPIs, all subpacket types incl. critical/unknown/embedded/long areas, every S2K usage and type), canonical framing; oracle on accepted values: byte-identical re-encoding, truthful write_len at body/packet/with-header level, header de-framed by an independent de-framer, parse(serialize(v)) == v; plus API-built and API-mutated objects",
         "exploration: ~60k (thorough 1.5M) generated packets over all packet types and versions + 4k (60k) API objects (certificates of 17 zoo keys incl. locked forms, set_password_with_s2k/remove_password with Cfb/Aead x S2K kinds, Subpacket::regular over multi-byte strings, unhashed subpacket edits, detached signatures, re-framed literal packets, every packet of serialized certificates) + 20k (400k) API-built subpacket values (every SubpacketData variant through constructors and setters, carried by a fresh signature) + 6k (150k) packets built through the public constructors (literal, one-pass v3/v6, PKESK v3/v6 to every recipient algorithm, SKESK v4/v6, SEIPDv1/v2 at chunk edges, user id, image attribute, padding)",
         "public-key material of the structured algorithms is harvested from zoo keys (fabricated points would be rejected by the parser); Trust packet content is ignored by rPGP by design and is excluded; inputs the parser rejects are counted, not judged"),
 "C06": ("DESIGN.md §4 C06",
         "generated-input search: exhaustive strings over {CR,LF,x} (length<=L) + random strings over the canonicalization alphabet, every sign interface crossed with every applicable verify interface (pairwise oracle: own signature must verify), prefixed messages assembled by an independent framer",
         "exploration: all 3-symbol strings up to length 6 (thorough 8) and random Sigma strings incl. buffer-edge placements; sign interfaces {detached binary/text, SignatureConfig::sign, hasher+Write chunks, builder 1..3 signers, cleartext sign/new/new_many; UserId/UserAttribute::sign(_third_party), PublicSubkey/SecretSubkey::sign, sign_primary_key_binding, SignatureConfig::sign_key} x verify interfaces {Signature::verify, DetachedSignature::verify, re-parsed binary/armored, Message::verify prefixed and one-pass, verify_nested, extracted one-pass signature as detached, cleartext verify/verify_many/after armor}; all zoo algorithms sampled; 1200 (thorough 20000) fresh signatures per algorithm for ECDSA/DSA/RSA/Ed448/EdDSA-legacy so that short r/s encodings occur; certificate-forming signatures made through UserId/UserAttribute::sign(_third_party), PublicSubkey/SecretSubkey::sign, sign_primary_key_binding, sign_key and checked through every verify_* and verify_bindings path after export and import",
         "only completeness (own signatures verify) is asserted here; soundness is C02; hash algorithms are restricted to those rPGP documents as strong enough for the key"),
 "C07": ("DESIGN.md §4 C07",
         "generated-input search over (key shape, RNG seed) with validity and round-trip oracles: bindings and back signatures verify, export/import equality, requested flags/preferences/features present, sign/verify and encrypt/decrypt usability incl. wrong-password refusal, independent de-framing and key-packet decoding of the export; illegal shapes must be refused",
         "exploration: ~4k (thorough ~80k) keys of the cheap shapes (Ed25519Legacy/Ed25519/P-256 primaries, Curve25519Legacy/X25519/P-256 encryption subkeys, signing subkeys, locked/unlocked, 0..3 user ids, v4/v6) and 60 (1.5k) of the expensive ones (Ed448, P-384, P-521, secp256k1, RSA-2048, DSA-2048, X448); leading-zero field occurrences are measured per run; signing subkeys are additionally asked to authenticate independently of the primary and the binding flags are compared with the request",
         "1/256 leading-zero cases are probabilistic: ~1.3k Curve25519Legacy subkeys per quick run give ~5 expected occurrences per field; expensive algorithms get far fewer seeds"),
 "C08": ("DESIGN.md §4 C08",
         "generated-input search with a round-trip oracle (lock, serialize, parse, unlock == original packet) and a must-fail oracle for wrong passwords and single-bit tampering; locked packets come both from rPGP's API and from an independent reference (R-crypto + own key-packet encoder) covering every S2K usage octet",
         "exploration: ~3k+3k (thorough 100k+100k) locked keys over all zoo signing/encryption algorithms, v4/v6, primary and subkey tags; usage 253 x AES x {EAX,OCB,GCM}, usage 254 x 11 ciphers, usage 255 and legacy cipher octet from the wire; S2K simple/salted/iterated (several counts)/argon2; passwords empty, ASCII, UTF-8, non-UTF-8, 1 KiB; 4 wrong passwords and ~5 bit flips (blob, IV/nonce, S2K parameters, cipher octet, AEAD-bound public fields, packet tag) per key",
         "16-bit-checksum modes (255, legacy) may accept a tampered blob with probability 2^-16: counted, not judged; whether v6 keys with usage 255/legacy are refused outright is not asserted"),
 "C09": ("DESIGN.md §4 C09",
         "metamorphic generated-input search (reference run vs runs under generated source/consumer/sink schedules) + exhaustive single-fault enumeration (source call k / sink write k, sticky and transient) for a fixed list of builder configurations and armored writers, sampled faults elsewhere",
         "exploration + fault enumeration: builder output byte-identical under any source/sink fragmentation (clock-free configurations), reader results identical under any source schedule and consumer (read, read_to_end, alternating, exact, fill_buf/consume), Dearmor, key import, detached sign/verify data readers, cleartext parser, CFB stream encryptor; every source call index and sink write index of 48 (quick 24) builder configurations x 3 payload sizes and of 20 armored writers fails once, sticky and transient",
         "a fault only counts if the library actually made the failing call; polling a reader again after it returned an error is not examined; AEAD stream encryptor is only reachable through the builder"),
 "C10": ("DESIGN.md §4 C10",
         "generated-input search (enumerated lengths + seeded structured tapes) against an independent CRC-24/base64/line-structure oracle, metamorphic tolerance variants, accept-iff-match CRC decision",
         "exploration: every payload length 0..700 (thorough 0..4096, sampled to 1 MiB) x block type x header map x checksum x read schedule x consumer; writer output validated by an independent armor structure parser; reader compared with the original triple",
         "trusts the harness' own bitwise CRC-24, base64 codec and line parser; cannot show absence outside the explored lengths/headers"),
 "C11": ("DESIGN.md §4 C11",
         "generated-input search over the signature-type x version x hash x subpacket-set x object matrix with a differential oracle: digest captured by a recording signer / recording verifier vs the RFC 9580 5.2.4 digest computed independently from the emitted packet (decoded by an own decoder); plus signatures assembled entirely by the reference (raw ed25519-dalek) that must verify in rPGP",
         "exploration: 12 signature types x v4/v6 x 6 hashes x 12 signer algorithms x hashed areas from empty to >64 KiB, documents (binary and canonicalized text), keys of all zoo algorithms (bodies >255 octets), user ids (empty, long, multi-byte), user attributes; both the sign side and the verify side of rPGP are compared with the reference; v3/v4/v6 reference-made signatures verified detached and as prefixed messages",
         "cross-version certifications are not asserted (RFC wording ambiguous); key packet bodies come from rPGP's serializer, whose fidelity is C05's subject"),
 "C12": ("DESIGN.md §4 C12",
         "bidirectional differential generated-input search against an independent composition of the RustCrypto primitives written from RFC 9580 (hand-written CFB, SEIPDv1/v2 framing, HKDF info strings, S2K, SKESK v4/v6, secret-key CFB/AEAD protection, RFC 3394 key wrap, ECDH KDF + padding, X25519/X448 HKDF), anchored at start-up to the RFC 9580 A.9-A.11 sample messages and the RFC 3394 vector",
         "exploration: every coded S2K count 0..255 (with password lengths around salt+password = octet count) + random S2K points; SEIPDv1 x 11 ciphers (in-memory, streaming, message level); SEIPDv2 x 9 pairs x chunk sizes x 0..3 chunks; SKESK v4 (derived / encrypted session key) and v6; secret-key protection usage 254/253 for 7 zoo keys; PKESK v3/v6 for RSA, ECDH cv25519/P-256/P-384/P-521, X25519, X448 (rPGP -> reference for all, reference -> rPGP for cv25519, P-256, X25519)",
         "the RustCrypto primitive crates are shared with rPGP and trusted; weak-hash / simple S2K that rPGP refuses by documented policy are not sent to it"),
 "C13": ("DESIGN.md §4 C13",
         "generated-input search with a differential oracle: fingerprints / key ids computed by an independent reference (MD5/SHA-1/SHA-256 over RFC framing) from key packet bodies de-framed by an own decoder, compared with every accessor path; embedded issuer / recipient fields decoded by own decoders",
         "exploration: 17 zoo certificates x (public, secret, locked) x all key packets, 1.5k (40k) freshly generated keys of 7 shapes with random creation times, 1.5k (30k) R-wire built RSA keys v3/v4/v6 (modulus 1024..3072 bits, leading 0x01 octet); secret vs public half vs re-parsed (binary/armored); issuer fingerprint/key-id subpackets of default signatures and generated self-signatures, OPS v3 key id / v6 fingerprint, PKESK v3 key id / v6 versioned fingerprint; PKESK recipient fields of messages to 2..4 recipients, named and anonymous in every drawn order (each PKESK must carry the identity of its own recipient or the wildcard)",
         "leading-zero public material occurrences are measured and reported, not guaranteed per run; v2/v3 keys other than RSA do not exist"),
 "C14": ("DESIGN.md §4 C14",
         "exhaustive small-scope enumeration (all strings over {CR,LF,x} up to length L x all chunkings) + seeded random long strings on buffer edges, differential against a 10-line reference canonicalizer and an independently computed SHA-256 signature digest",
         "exploration with an exhaustively enumerated scope: every string of length <=8 (thorough <=10) over the 3-class alphabet under every source/write chunking and three consumer patterns for NormalizedReader, NormalizingHasher (observed via recording signer) and normalize_lines (observed via the cleartext callback); long strings with patterns on 512/1024/8192 edges; builder and message-reader digests; signature invariance/non-invariance under all single-symbol edits; Utf8-mode CRLF check accept/reject under all chunkings",
         "reference canon() and the RustCrypto sha2 digest are trusted; the three-class abstraction is justified by the code branching only on CR, LF, other"),
 "C15": ("DESIGN.md §4 C15",
         "exhaustive enumeration of decision tables whose expected outcomes are derived from the statement, over artifacts produced by the reference (R-crypto ESKs and containers incl. SED, GnuPG-AEAD, SKESK v5; signatures assembled with a correct digest and a valid signature value; certificates re-assembled by the own framer)",
         "exploration with exhaustively enumerated tables: 5 ESK kinds x 4 containers x 4 option sets x {with, without aligned decoy}; 3 session-key kinds x 4 containers x 4 option sets; key version x signature version (make / accept via Signature::verify, Message::verify, verify_nested); signer version x signee version x signature version x {third-party certification, third-party key signature, subkey binding, primary key binding}; 25 certificate variants (intact, locked, mixed-version secret and public subkey packets, signing subkey with/without back signature, swapped binding, substituted user id) judged through secret path, public path, derived public key, binary/armored/auto-detect import; OPS vs signature mismatches; all unassigned subpacket ids 0..127 x critical x v4/v6; issuer-fingerprint version",
         "v4 primary with v6 subkey has no verdict fixed by the statement (only path agreement is required); OPS issuer vs signature issuer is not asserted"),
 "C16": ("DESIGN.md §4 C16",
         "grammar-based generated-input search: texts over dash/armor-boundary/whitespace/UTF-8 tokens signed through every cleartext API; oracles: reference RFC 9580 7.2 signed form, independent splitter of the emitted document (unspoofable framing), from_string round trip, re-emission stability, and a metamorphic edit rule (an edit of the text section verifies iff the reference signed form is unchanged)",
         "exploration: ~12k (thorough 300k) texts of 0..8 lines x {LF, CRLF} x final newline, tokens incl. '-', '- ', '-----BEGIN PGP SIGNATURE-----', 'Hash: SHA256', trailing SP/TAB, NBSP, U+3000, VT, FF, lone CR inside / at the end; sign/new/new_many with 1..2 signers over all zoo signing algorithms and their hash algorithms",
         "signed form reference = trailing SP/TAB stripped per LF-terminated line, then the C14 canonicalization; headers other than Hash are not generated (rPGP refuses them)"),
 "C17": ("DESIGN.md §4 C17",
         "generated-input search + exhaustive enumeration of partial-length sequences: bodies (harvested from real artifacts and generated) wrapped in every framing by an independent framer; metamorphic oracle (parse equals parse of the canonical framing, following sentinel packet found, message reader returns the literal data), illegal framings must not yield an Ok packet, writer output de-framed by the independent de-framer",
         "exploration: ~45k (thorough ~800k) framings over all packet types incl. unknown tags x new 1/2/5-octet, legacy 0/1/2, indeterminate, partial sequences; lengths on 191/192, 8383/8384, 65535/65536; 5 classes of illegal framing; exhaustive: every partial exponent sequence of <=3 chunks for the listed literal body lengths; writer side: every parsed packet is re-serialized and must de-frame to one legally framed packet with the same body",
         "reference framer/de-framer written from RFC 9580 4.2; the malformed-artifact-compat feature is not enabled; non-minimal length encodings are treated as legal"),
 "C18": ("DESIGN.md §4 C18",
         "generated-input search over (recipient set, presented secrets, ordering, abort flag) with a round-trip oracle for intended secrets, an error-and-zero-bytes oracle for foreign material, and spliced messages (own framer) whose ESKs wrap different session keys for the cross-check clause",
         "exploration: ~11k (thorough ~220k) cases; 1..4 recipients over all encryption algorithms, PKESK v3/v6, addressed/anonymous, 0..3 passwords x S2K kinds; intended key unprotected / fully locked / only subkey locked / only primary locked, with or without key passwords and wrong ones first, also presented with another encryption subkey in front of the addressed one; 1500 (60k) messages to RSA recipients so that short ciphertext MPIs occur; at every position among 0..3 unrelated keys (same-algorithm decoys preferred for wildcard recipients); passwords alone / among unrelated ones (SKESK v6); negatives: non-recipient keys, wrong passwords, bit-flipped session key, session key of the wrong kind or cipher; conflicts: PKESK vs SKESK wrapping different keys with abort_early=false, RingResult marks",
         "SKESK v4 wrong-password false accepts are only required to end in an error; the multi-password SEIPDv1 defect is a recorded finding"),
 "C19": ("DESIGN.md §4 C19",
         "generated-input search with a resource oracle in isolated worker processes under a counting global allocator (peak live bytes, bytes allocated in total, number and largest of requests; single requests above 1 GiB refused): (a) metamorphic declared-size inflation of generated and harvested packets, (b) doubling families with a growth-ratio oracle, (c) two-size streaming comparison of built-and-read-back messages, (d) exhaustive enumeration of Argon2 (t,p) x listed m and of every iterated-S2K count octet against the documented ceiling",
         "exploration; sampled: 200k (thorough 4M) packets of every type with one 1/2/4/5-octet field set to 2^16..2^32-1 and the data cut, kept or replaced by up to 70000 filler bytes under accurate / five-octet / legacy four-octet / partial framings declaring up to 2^32-1, through PacketParser, key, signature and message readers; exhaustively enumerated: every (quick: every second) body offset x 4 field widths x 3 tails of ~70 small packets covering all packet types and key versions; 26 doubling families x n = 2^6..2^12 (thorough 2^16): markers, paddings, signatures, one-pass headers, user ids, subkeys, subpackets, user attributes, armor lines/headers/garbage, cleartext lines, nested compression, partial chunks; 14 message configurations at 1 MiB vs 16 MiB (thorough 4 vs 256 MiB); SEIPDv1 CheckFirst limits x 5 size ratios x 6 orders of the decryption-option setters; Argon2 all 65536 (t,p) x 21 (thorough 256) m octets; iterated S2K 256 counts x password lengths 0..1 MiB",
         "time is not measured (no wall-clock oracle): linear work is decided on allocation volume and allocation count only, so a non-allocating quadratic scan would escape; constants (192 KiB + 8 x supplied; 6 MiB where a decompressor runs) are upper bounds chosen above everything observed on the unchanged tree, so inflation below ~200 KiB is not distinguished"),
}
FUZZ_IDS = {"C04", "C05", "C10", "C14", "C16", "C17"}
NOT_BUILT_REASON = "check not built yet in this round (work in progress; property-based testing applies, see DESIGN.md §4)"
ALL = ["C%02d" % i for i in range(1, 20)]

def main():
    checks = []
    for pid in ALL:
        if pid not in CHECKS: continue
        ref, tech, text, note = CHECKS[pid]
        if pid in FUZZ_IDS:
            tech += "; thorough tier additionally drives every random group of this check with libFuzzer (cargo-fuzz target harness/fuzz vfuzz: the fuzzer's bytes are the tape of the same case function, so generators and oracle are unchanged and coverage feedback over rPGP guides the search), saved inputs are re-judged through the replay path"
        checks.append({
            "property_id": pid,
            "quick_cmd": f"./check {pid} quick",
            "thorough_cmd": f"./check {pid} thorough",
            "evidence_file": f"/verif/evidence/{pid}.json",
            "replay_cmd_template": f"./check {pid} --replay {{path}}",
            "engine": "vcheck",
            "level_claimed": {"category": "exploration", "text": text, "design_ref": ref},
            "level_note": note,
            "technique": tech,
        })
    m = {
        "version": 1,
        "setup_cmd": "cd /verif/harness && CARGO_NET_OFFLINE=true cargo build --release --offline",
        "hooks": {
            "guard": "rpgp_verif",
            "enable": "no hooks are needed: all checks observe rPGP through its public API; the cfg name rpgp_verif is reserved and unused",
            "baseline_off_cmd": "cd /repo && cargo nextest run --workspace --no-fail-fast --offline || cargo test --workspace --no-fail-fast --offline",
            "source_commits": [],
            "add_only": True,
        },
        "engines": [{
            "name": "vcheck",
            "path": "/verif/harness",
            "serves_properties": sorted(CHECKS),
            "kind_free_text": "Rust harness crate (path dependency on /repo): seeded tape-decoded structured generators + exhaustive small-scope enumerators, explicit oracles built on independent reference code, deterministic parallel runner, tape shrinker, replay files; a libFuzzer target (harness/fuzz, cargo-fuzz) reuses the same case functions for coverage-guided slices in the thorough tier of C04, C05, C10, C14, C16, C17",
        }],
        "checks": checks,
        "not_applicable": [{"property_id": p, "reason": NOT_BUILT_REASON} for p in ALL if p not in CHECKS],
        "notes": "Every check: exit 0 = held on everything explored, 1 = VIOLATION line with replay file, 2 = inconclusive (build failure / harness bug / watchdog / death of the harness process). VERIF_SEED selects the generator seed (default 1); every run is a function of (tree, seed, tier) only, except that rPGP itself stamps default signatures with the wall clock, which changes some signature bytes (and with them, by one or two, the count of distinct non-trivial cases) but no verdict. known_findings.json lists recorded (known) and repaired (fixed) defects and is never written at run time. The thorough commands of C04, C05, C10, C14, C16, C17 additionally build harness/fuzz with cargo +nightly fuzz (about 4 minutes, offline) and run libFuzzer slices; VERIF_NO_FUZZ=1 skips them. seeded/<name>/ holds the seeded changes used to measure sensitivity (patch.diff, demo.rs, meta.json, detected.json); tools/run_seeds.sh applies one to /repo, runs the owning quick check and reverts.",
    }
    with open(os.path.join(ROOT, "MANIFEST.json"), "w") as f:
        json.dump(m, f, indent=1)
        f.write("\n")
    try:
        import jsonschema
        jsonschema.validate(m, json.load(open("/root/.vp/MANIFEST.schema.json")))
        print("MANIFEST.json valid;", len(checks), "checks")
    except ImportError:
        print("written (jsonschema not importable with this python; use python3-vt)")

if __name__ == "__main__":
    main()
