#!/usr/bin/env python3
"""Regenerates /verif/MANIFEST.json from the table below (kept here so the manifest stays valid)."""
import json, os, sys
ROOT = os.path.dirname(os.path.dirname(os.path.abspath(__file__)))

# property id -> (design_ref, technique, level text, level note)
CHECKS = {
 "C10": ("DESIGN.md §4 C10",
         "generated-input search (enumerated lengths + seeded structured tapes) against an independent CRC-24/base64/line-structure oracle, metamorphic tolerance variants, accept-iff-match CRC decision",
         "exploration: every payload length 0..700 (thorough 0..4096, sampled to 1 MiB) x block type x header map x checksum x read schedule x consumer; writer output validated by an independent armor structure parser; reader compared with the original triple",
         "trusts the harness' own bitwise CRC-24, base64 codec and line parser; cannot show absence outside the explored lengths/headers"),
}
NOT_BUILT_REASON = "check not built yet in this round (work in progress; property-based testing applies, see DESIGN.md §4)"
ALL = ["C%02d" % i for i in range(1, 20)]

def main():
    checks = []
    for pid in ALL:
        if pid not in CHECKS: continue
        ref, tech, text, note = CHECKS[pid]
        checks.append({
            "property_id": pid,
            "quick_cmd": f"./check {pid} quick",
            "thorough_cmd": f"./check {pid} thorough",
            "evidence_file": f"/verif/evidence/{pid}.json",
            "replay_cmd_template": f"./check {pid} --replay {{path}}",
            "engine": "vcheck",
            "level_claimed": {"category": "exploration", "text": text, "design_ref": ref},
            "level_note": note,
            "technique": tech,
        })
    m = {
        "version": 1,
        "setup_cmd": "cd /verif/harness && CARGO_NET_OFFLINE=true cargo build --release --offline",
        "hooks": {
            "guard": "rpgp_verif",
            "enable": "no hooks are needed: all checks observe rPGP through its public API; the cfg name rpgp_verif is reserved and unused",
            "baseline_off_cmd": "cd /repo && cargo nextest run --workspace --no-fail-fast --offline || cargo test --workspace --no-fail-fast --offline",
            "source_commits": [],
            "add_only": True,
        },
        "engines": [{
            "name": "vcheck",
            "path": "/verif/harness",
            "serves_properties": sorted(CHECKS),
            "kind_free_text": "Rust harness crate (path dependency on /repo): seeded tape-decoded structured generators + exhaustive small-scope enumerators, explicit oracles built on independent reference code, deterministic parallel runner, tape shrinker, replay files; libFuzzer targets reuse the same case functions",
        }],
        "checks": checks,
        "not_applicable": [{"property_id": p, "reason": NOT_BUILT_REASON} for p in ALL if p not in CHECKS],
        "notes": "Every check: exit 0 = held, 1 = VIOLATION line with replay file, 2 = inconclusive (build failure / harness bug / watchdog). VERIF_SEED selects the generator seed (default 1). known_findings.json lists recorded and fixed defects.",
    }
    with open(os.path.join(ROOT, "MANIFEST.json"), "w") as f:
        json.dump(m, f, indent=1)
        f.write("\n")
    try:
        import jsonschema
        jsonschema.validate(m, json.load(open("/root/.vp/MANIFEST.schema.json")))
        print("MANIFEST.json valid;", len(checks), "checks")
    except ImportError:
        print("written (jsonschema not importable with this python; use python3-vt)")

if __name__ == "__main__":
    main()
