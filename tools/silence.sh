#!/bin/bash
# silence.sh <seed>...: run every registered quick check on the unchanged tree with each VERIF_SEED;
# prints one line per (check, seed). Anything but exit 0 needs attention.
cd /verif
if [ -n "$(git -C /repo status --porcelain)" ]; then echo "/repo not clean"; exit 2; fi
for s in "$@"; do
  for i in $(seq -w 1 19); do
    id=C$i
    start=$(date +%s)
    out=$(VERIF_SEED=$s ./check $id ${TIER:-quick} 2>&1); rc=$?
    echo "seed=$s $id exit=$rc $(( $(date +%s) - start ))s $(echo "$out" | grep -cE '^VIOLATION') violations $(echo "$out" | grep -cE '^KNOWN-FINDING') known $(echo "$out" | grep -E 'HARNESS|inconclusive' | head -1 | cut -c1-160)"
    if [ $rc -ne 0 ]; then echo "$out" | grep -E "signature:|detail:" | head -6 | cut -c1-300; fi
  done
done
