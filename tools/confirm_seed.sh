#!/bin/bash
# confirm_seed.sh <name> <dir-with-patch.diff+demo.rs>
# Confirms a seeded change in a scratch worktree of /repo (outside /repo and /verif):
#   with the patch: demo FAILS, full existing suite PASSES; without: demo PASSES.
# Writes <dir>/confirm.log and <dir>/confirm.json
set -u
NAME="$1"; DIR="$2"
WT=/tmp/confirm-wt
export CARGO_NET_OFFLINE=true
export CARGO_TARGET_DIR=/tmp/confirm-target
LOG="$DIR/confirm.log"; : > "$LOG"
if [ ! -d "$WT" ]; then git -C /repo worktree add -q --detach "$WT" HEAD >>"$LOG" 2>&1; fi
git -C "$WT" checkout -q --detach "$(git -C /repo rev-parse HEAD)" >>"$LOG" 2>&1
git -C "$WT" checkout -q -- . ; rm -f "$WT/tests/seeded_demo.rs"
cd "$WT" || exit 2
cp "$DIR/demo.rs" tests/seeded_demo.rs
echo "== demo WITHOUT patch" >>"$LOG"
cargo test --offline --test seeded_demo >>"$LOG" 2>&1; D0=$?
if ! git apply "$DIR/patch.diff" >>"$LOG" 2>&1; then echo "{\"name\":\"$NAME\",\"applies\":false}" > "$DIR/confirm.json"; rm -f tests/seeded_demo.rs; exit 1; fi
echo "== demo WITH patch" >>"$LOG"
cargo test --offline --test seeded_demo >>"$LOG" 2>&1; D1=$?
rm -f tests/seeded_demo.rs
echo "== suite WITH patch" >>"$LOG"
cargo nextest run --workspace --no-fail-fast --offline >"$DIR/suite.log" 2>&1; S1=$?
tail -5 "$DIR/suite.log" >>"$LOG"
SUM=$(grep -E "tests run:" "$DIR/suite.log" | tail -1 | sed 's/"/ /g')
git checkout -q -- . ; git status --short >>"$LOG"
echo "{\"name\":\"$NAME\",\"applies\":true,\"demo_without_patch_exit\":$D0,\"demo_with_patch_exit\":$D1,\"suite_with_patch_exit\":$S1,\"suite_summary\":\"$SUM\",\"repo_head\":\"$(git -C /repo rev-parse --short HEAD)\"}" > "$DIR/confirm.json"
rm -f "$DIR/suite.log"
cat "$DIR/confirm.json"
