#!/bin/bash
# fuzz_slice.sh <ID> [runs-per-group]
# Coverage-guided slice of a property's check: every *random* group of the property is driven by
# libFuzzer (cargo-fuzz target harness/fuzz `vfuzz`), the fuzzer's bytes being the tape of the group's
# case function (same generators, same oracle, same known-findings list as the seeded driver).
# A saved crashing input is turned into a replay file and re-judged by `vcheck <ID> replay`.
# Each group's slice is bounded by the run count and by VERIF_FUZZ_MAX_S seconds (default 1200), whichever
# comes first; reaching the time bound is not a failure.
# exit 0 = nothing found, 1 = VIOLATION line printed, 2 = inconclusive (build failure, timeout, oom,
# crash that does not reproduce). Groups whose names match VERIF_FUZZ_SKIP (regex) are skipped.
set -u
ROOT="$(cd "$(dirname "$0")/.." && pwd)"
ID="${1:?property id}"; RUNS="${2:-100000}"
SEED="${VERIF_SEED:-1}"; [ "$SEED" = "0" ] && SEED=1000003   # libFuzzer: 0 means random
JOBS="${VERIF_FUZZ_JOBS:-8}"
export VERIF_ROOT="$ROOT" CARGO_NET_OFFLINE=true
FZ="$ROOT/harness/fuzz"
BIN="$FZ/target/x86_64-unknown-linux-gnu/release/vfuzz"
VCHECK="$ROOT/harness/target/release/vcheck"
cd "$FZ" || exit 2
[ -f "$FZ/Cargo.lock" ] || cp -f "$ROOT/harness/Cargo.lock" "$FZ/Cargo.lock" 2>/dev/null
if ! cargo +nightly fuzz build -O --sanitizer none --fuzz-dir . --target-dir "$FZ/target" vfuzz >"$FZ/build.log" 2>&1; then
  echo "FUZZ-BUILD-FAILED (inconclusive): see $FZ/build.log" >&2; tail -20 "$FZ/build.log" >&2; exit 2
fi
# the replay judge must be built from the same tree as the fuzz target
if ! (cd "$ROOT/harness" && cargo build --release --offline >"$ROOT/harness/build.log" 2>&1); then
  echo "BUILD-FAILED (inconclusive): see $ROOT/harness/build.log" >&2; exit 2
fi
[ -x "$VCHECK" ] || { echo "vcheck not built" >&2; exit 2; }
WORK="$FZ/run/$ID"; rm -rf "$WORK"; mkdir -p "$WORK"
"$VCHECK" "$ID" groups 2>/dev/null | awk '$1=="GROUP" && $3=="random" {print $2, $5}' | sed 's/tape_len=//' > "$WORK/groups.txt"
# groups whose single cases are very large are left to the seeded driver
SKIP="${VERIF_FUZZ_SKIP:-^(large|very-large) }"
grep -Ev "$SKIP" "$WORK/groups.txt" > "$WORK/g2.txt"; mv "$WORK/g2.txt" "$WORK/groups.txt"
[ -s "$WORK/groups.txt" ] || { echo "no random groups for $ID"; exit 0; }

run_group() {
  g="$1"; len="$2"; d="$WORK/$g"; mkdir -p "$d/corpus" "$d/artifacts"
  # a few full-length random tapes so that the fuzzer does not start from empty inputs
  python3 - "$d/corpus" "$len" "$SEED" "$g" <<'PY'
import sys, random, hashlib
d, n, seed, g = sys.argv[1], int(sys.argv[2]), int(sys.argv[3]), sys.argv[4]
r = random.Random(int.from_bytes(hashlib.sha256(f"{seed}:{g}".encode()).digest()[:8], "little"))
for i in range(48):
    open(f"{d}/seed{i:02d}", "wb").write(r.randbytes(n))
PY
  VERIF_FUZZ_PROP="$ID" VERIF_FUZZ_GROUP="$g" VERIF_SEED="$SEED" "$BIN" -runs="$RUNS" -seed="$SEED" -max_len="$len" -len_control=0 \
     -timeout=300 -rss_limit_mb=12000 -max_total_time="${VERIF_FUZZ_MAX_S:-1200}" -print_final_stats=1 -artifact_prefix="$d/artifacts/" "$d/corpus" >"$d/log.txt" 2>&1
  echo $? > "$d/rc"
}
export -f run_group; export WORK ID SEED RUNS BIN
# run the groups in parallel, JOBS at a time
cat "$WORK/groups.txt" | xargs -P "$JOBS" -L 1 bash -c 'run_group "$0" "$1"'

RESULT=0
SUMMARY="$WORK/summary.jsonl"; : > "$SUMMARY"
while read -r g len; do
  d="$WORK/$g"; rc=$(cat "$d/rc" 2>/dev/null || echo 99)
  exe=$(grep -E "^stat::number_of_executed_units" "$d/log.txt" | awk '{print $2}' | tail -1)
  newu=$(grep -E "^stat::new_units_added" "$d/log.txt" | awk '{print $2}' | tail -1)
  counts=$(grep -E "^FUZZ-COUNTS" "$d/log.txt" | tail -1)
  verdict="clean"
  if [ "$rc" != "0" ]; then
    verdict="inconclusive"
    [ $RESULT -eq 0 ] && RESULT=2
    for a in "$d"/artifacts/crash-*; do
      [ -f "$a" ] || continue
      mkdir -p "$ROOT/replays/$ID"
      rp="$ROOT/replays/$ID/fuzz-$g-$(basename "$a" | cut -c7-22).json"
      python3 - "$a" "$rp" "$ID" "$g" "$SEED" <<'PY'
import sys, json
a, rp, pid, g, seed = sys.argv[1:]
json.dump({"property": pid, "group": g, "tier": "thorough", "seed": int(seed), "case_index": None,
           "tape_hex": open(a, "rb").read().hex(), "signature": "found by the coverage-guided driver", "detail": "see replay"}, open(rp, "w"), indent=1)
PY
      out=$("$VCHECK" "$ID" replay "$rp" 2>&1); rrc=$?
      if [ $rrc -eq 1 ] || { [ $rrc -gt 2 ] && { [ "$ID" = "C04" ] || [ "$ID" = "C19" ]; }; }; then
        echo "VIOLATION property=$ID replay=$rp"
        echo "$out" | grep -E "outcome: FAIL|case:" | head -4 | sed 's/^/  /'
        [ $rrc -gt 2 ] && echo "  the replayed case killed the process (status $rrc)"
        RESULT=1; verdict="violation"
      else
        echo "FUZZ-INCONCLUSIVE property=$ID group=$g: saved input $a does not reproduce as a violation (replay status $rrc)" >&2
        grep -E "FUZZ-HARNESS-PANIC|FUZZ-VIOLATION" "$d/log.txt" | head -2 >&2
      fi
    done
    ls "$d"/artifacts/ 2>/dev/null | grep -E "^(timeout|oom|slow)" | head -2 | sed "s/^/FUZZ-INCONCLUSIVE property=$ID group=$g: /" >&2
  fi
  echo "{\"group\":\"$g\",\"tape_len\":$len,\"executed_units\":${exe:-0},\"new_units_added\":${newu:-0},\"exit\":$rc,\"verdict\":\"$verdict\",\"counts\":\"$counts\"}" >> "$SUMMARY"
  echo "FUZZ $ID group=$g executed=${exe:-0} new_units=${newu:-0} exit=$rc $verdict"
done < "$WORK/groups.txt"

# record what the slice covered in the evidence file written by the seeded driver
python3 - "$ROOT/evidence/$ID.json" "$SUMMARY" "$RUNS" "$SEED" <<'PY'
import sys, json
ev, summ, runs, seed = sys.argv[1:]
try:
    e = json.load(open(ev))
except Exception:
    sys.exit(0)
rows = [json.loads(l) for l in open(summ) if l.strip()]
e.setdefault("coverage", {})["coverage_guided_slices"] = {
    "engine": "libFuzzer via cargo-fuzz (target harness/fuzz vfuzz), bytes = tape of the group's case function",
    "runs_requested_per_group": int(runs), "libfuzzer_seed": int(seed), "groups": rows,
    "executed_units_total": sum(r["executed_units"] for r in rows)}
json.dump(e, open(ev, "w"), indent=2)
PY
# keep logs of failing groups only
for d in "$WORK"/*/; do [ "$(cat "$d/rc" 2>/dev/null)" = "0" ] && rm -rf "$d"; done
exit $RESULT
