#!/bin/bash
# run_seeds.sh [name...]: for each seeded change: apply to /repo, run the quick check of its property, revert.
# Records the outcome in seeded/<name>/detected.json. Never leaves /repo modified.
set -u
cd /verif
NAMES="$@"; [ -z "$NAMES" ] && NAMES=$(ls seeded)
for n in $NAMES; do
  d=/verif/seeded/$n
  prop=$(python3 -c "import json;print(json.load(open('$d/meta.json'))['property'])")
  if [ -n "$(git -C /repo status --porcelain)" ]; then echo "/repo not clean, abort"; exit 2; fi
  if ! git -C /repo apply "$d/patch.diff"; then echo "$n: patch does not apply"; continue; fi
  out=$(VERIF_SEED=${VERIF_SEED:-1} ./check $prop ${TIER:-quick} 2>&1); rc=$?
  git -C /repo checkout -- .
  sigs=$(echo "$out" | grep -E "^  signature:" | sed 's/^  signature: //' | sort -u | head -5 | tr '\n' ';')
  echo "$n: property=$prop tier=${TIER:-quick} exit=$rc signatures=$sigs"
  python3 - "$d" "$prop" "$rc" "$sigs" "${TIER:-quick}" <<'PY'
import json,sys
d,prop,rc,sigs,tier=sys.argv[1:]
json.dump({"check":prop,"tier":tier,"exit":int(rc),"detected":int(rc)==1,"signatures":[s for s in sigs.split(';') if s]},open(d+"/detected.json","w"),indent=1)
PY
done
# restore evidence for the unchanged tree is the caller's job (re-run the checks)
