#!/bin/bash
# run_seeds.sh [name...]: for each seeded change: apply to /repo, run the quick check of its property
# (and of every further check listed under "checks" in its meta.json), revert.
# Records the outcome in seeded/<name>/detected.json. Never leaves /repo modified.
set -u
cd /verif
NAMES="$@"; [ -z "$NAMES" ] && NAMES=$(ls seeded)
for n in $NAMES; do
  d=/verif/seeded/$n
  prop=$(python3 -c "import json;print(json.load(open('$d/meta.json'))['property'])")
  checks=$(python3 -c "import json;m=json.load(open('$d/meta.json'));print(' '.join(m.get('checks',[m['property']])))")
  if [ -n "$(git -C /repo status --porcelain)" ]; then echo "/repo not clean, abort"; exit 2; fi
  if ! git -C /repo apply "$d/patch.diff"; then echo "$n: patch does not apply"; continue; fi
  results=""
  for c in $checks; do
    out=$(VERIF_SEED=${VERIF_SEED:-1} ./check $c ${TIER:-quick} 2>&1); rc=$?
    sigs=$(echo "$out" | grep -E "^  signature:" | sed 's/^  signature: //' | sort -u | head -5 | tr '\n' ';')
    echo "$n: property=$prop check=$c tier=${TIER:-quick} exit=$rc signatures=$sigs"
    results="$results$c|$rc|$sigs
"
  done
  git -C /repo checkout -- .
  python3 - "$d" "$prop" "${TIER:-quick}" "$results" <<'PY'
import json,sys
d,prop,tier,results=sys.argv[1:]
runs=[]
for line in results.strip().split("\n"):
    if not line: continue
    c,rc,sigs=line.split("|",2)
    runs.append({"check":c,"exit":int(rc),"detected":int(rc)==1,"signatures":[s for s in sigs.split(';') if s]})
own=[r for r in runs if r["check"]==prop]
json.dump({"tier":tier,"property":prop,"detected":any(r["detected"] for r in runs),
           "detected_by_own_check":bool(own and own[0]["detected"]),"runs":runs},open(d+"/detected.json","w"),indent=1)
PY
done
# restoring evidence for the unchanged tree is the caller's job (re-run the checks)
