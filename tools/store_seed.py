#!/usr/bin/env python3
"""store_seed.py <out-dir> <name>: copy a confirmed seeded change into /verif/seeded/<name>/"""
import json, os, shutil, sys
src, name = sys.argv[1], sys.argv[2]
dst = f"/verif/seeded/{name}"
os.makedirs(dst, exist_ok=True)
shutil.copy(f"{src}/patch.diff", f"{dst}/patch.diff")
shutil.copy(f"{src}/demo.rs", f"{dst}/demo.rs")
meta = json.load(open(f"{src}/meta.json"))
conf = json.load(open(f"{src}/confirm.json"))
ok = conf.get("applies") and conf["demo_without_patch_exit"] == 0 and conf["demo_with_patch_exit"] != 0 and conf["suite_with_patch_exit"] == 0
out = {
  "property": meta.get("property"),
  "summary": meta.get("summary"),
  "needs": meta.get("needs"),
  "files_changed": meta.get("files_changed"),
  "author": "independent sub-agent given only the property text and a scratch worktree",
  "confirmed_by_me": {
     "how": "tools/confirm_seed.sh in scratch worktree /tmp/confirm-wt (removed afterwards): demo without patch, demo with patch, full existing suite with patch",
     "repo_head": conf.get("repo_head"),
     "demo_without_patch": "pass" if conf["demo_without_patch_exit"] == 0 else "FAIL",
     "demo_with_patch": "fail (as required)" if conf["demo_with_patch_exit"] != 0 else "PASS (not a valid seed)",
     "existing_suite_with_patch": conf.get("suite_summary"),
     "valid": bool(ok),
  },
}
old = {}
if os.path.exists(f"{dst}/meta.json"):
    old = json.load(open(f"{dst}/meta.json"))
if "detected_by" in old: out["detected_by"] = old["detected_by"]
json.dump(out, open(f"{dst}/meta.json", "w"), indent=1)
print(name, "valid" if ok else "INVALID")
