#!/usr/bin/env python3
"""Prints the markdown table 'seeded change x catching check' from seeded/*/meta.json + detected.json."""
import json, os
ROOT = os.path.dirname(os.path.dirname(os.path.abspath(__file__)))
rows = []
for n in sorted(os.listdir(os.path.join(ROOT, "seeded"))):
    d = os.path.join(ROOT, "seeded", n)
    try:
        m = json.load(open(os.path.join(d, "meta.json")))
    except Exception:
        continue
    det = {}
    p = os.path.join(d, "detected.json")
    if os.path.exists(p):
        det = json.load(open(p))
    summ = m.get("summary", "").replace("|", "/").replace("\n", " ")
    if len(summ) > 200:
        summ = summ[:197] + "..."
    runs = det.get("runs") or ([det] if det.get("check") else [])
    cells = []
    for r in runs:
        sig = "; ".join(r.get("signatures", [])[:2]).replace("|", "/")
        cells.append(f"{r['check']} quick: {'caught' if r.get('detected') else 'silent (exit %s)' % r.get('exit')}" + (f" `{sig}`" if sig else ""))
    rows.append(f"| {n} | {m.get('property')} | {summ} | {'<br>'.join(cells) if cells else 'not run'} |")
print("| seed | property | change | result of the quick check(s) with the change applied |")
print("|---|---|---|---|")
print("\n".join(rows))
