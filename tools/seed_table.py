#!/usr/bin/env python3
"""Prints the markdown table 'seeded change x catching check' from seeded/*/meta.json + detected.json."""
import json, os, sys
ROOT = os.path.dirname(os.path.dirname(os.path.abspath(__file__)))
rows = []
for n in sorted(os.listdir(os.path.join(ROOT, "seeded"))):
    d = os.path.join(ROOT, "seeded", n)
    try:
        m = json.load(open(os.path.join(d, "meta.json")))
    except Exception:
        continue
    det = {}
    p = os.path.join(d, "detected.json")
    if os.path.exists(p):
        det = json.load(open(p))
    summ = m.get("summary", "").replace("|", "/").replace("\n", " ")
    if len(summ) > 230:
        summ = summ[:227] + "..."
    sigs = "; ".join(det.get("signatures", [])[:2]).replace("|", "/")
    also = ", ".join(m.get("also_caught_by", []))
    res = "caught" if det.get("detected") else ("MISSED" if det else "not run")
    rows.append(f"| {n} | {m.get('property')} | {summ} | {det.get('check','')} {det.get('tier','')}: {res}{(' (also ' + also + ')') if also else ''} | `{sigs}` |")
print("| seed | property | change | owning check | signature reported |")
print("|---|---|---|---|---|")
print("\n".join(rows))
